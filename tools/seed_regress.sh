#!/bin/bash
# usage: tools/seed_regress.sh [seed ids...]   - every seeded change must still be reported (exit 1 + VIOLATION) by its property's check
cd "$(dirname "$0")/.."
IDS=${@:-$(ls seeded | grep -v RESULTS)}
one() {
  id=$1; p=${id%%-*}
  props=$(python3 -c "import json,sys;m=json.load(open('seeded/$id/meta.json'));print(m.get('caught_by') or m.get('property') or '$p')" 2>/dev/null || echo $p)
  D=$(mktemp -d /tmp/sreg.XXXXXX); cp -r /repo/src $D/src
  (cd $D && patch -s -p1 < /verif/seeded/$id/patch.diff) || { echo "$id PATCH-FAILED"; rm -rf $D; return; }
  for P in $props; do
    out=$(VERIF_REPO=$D VERIF_EVIDENCE_DIR=$D/ev VERIF_OUT_DIR=$D/out ./check $P 2>&1); code=$?
    nv=$(echo "$out" | grep -c "^VIOLATION")
    echo "$id check=$P exit=$code violations=$nv $(echo "$out" | grep "^VIOLATION" | head -1 | sed 's/.*replay=[^ ]*replay\///' | cut -c1-150)"
  done
  rm -rf $D
}
export -f one
echo $IDS | tr ' ' '\n' | xargs -P ${SEED_JOBS:-4} -I{} bash -c 'one {}'
