"""CPython cross-check of the symbolic interpreter (pyvc/xcheck.py): summary of a property's last thorough run.

usage: python3-vt tools/xcheck_report.py <PROP> [-v]                 print coverage.xcheck from evidence/<PROP>.json
       python3-vt tools/xcheck_report.py <PROP> --run [-j N] [task index..]  run ONLY the cross-check now (no obligation is
                                                                     solved, nothing is written): for debugging
"""
import importlib
import json
import os
import sys

ROOT = os.path.dirname(os.path.dirname(os.path.abspath(__file__)))
sys.path.insert(0, ROOT)


def show(x, verbose=False):
    print(f"functions under contract: {x['functions']}  (with at least one checked path: {x.get('functions_checked')})")
    print(f"paths ending in return/raise: {x['paths_in_scope']}   checked natively: {x['paths_checked']}   "
          f"(witnesses run: {x.get('witnesses_run')})   agree: {x['agree']}   mismatches: {len(x['mismatches'])}   skipped: {sum(x['skipped'].values())}"
          + (f"   enforced(exit 3): {x['enforced']}" if "enforced" in x else ""))
    if x["skipped"]:
        print("skipped, by reason:")
        for k, n in sorted(x["skipped"].items(), key=lambda kv: -kv[1]):
            print(f"  {n:5d}  {k}")
    if verbose:
        print("per function (in scope / checked / agree / skipped):")
        for f in x.get("per_function", []):
            print(f"  {f['in_scope']:4d} {f['checked']:4d} {f['agree']:4d} {f['skipped']:4d}  {f['function']}")
    for m in x["mismatches"]:
        print(f"MISMATCH {m['function']} path {m['decisions']}")
        print(f"   inputs: {json.dumps(m['inputs'])[:600]}")
        for d in m["differences"]:
            print(f"   {d['what']}: symbolic {json.dumps(d['symbolic'])[:300]}  /  CPython {json.dumps(d['native'])[:300]}")
        for n in m.get("notes", []):
            print(f"   note: {n}")


def run_one(arg):
    prop, i = arg
    from pyvc import contract as C, xcheck
    from pyvc.ctx import Ctx, PathEnd
    from pyvc.values import OutOfSubset
    mod = importlib.import_module(f"props.{prop.lower()}")
    tasks = mod.tasks()
    per = []
    for i, t in [(i, tasks[i])]:
        c = t.contract
        try:
            units = t.plan("thorough")
        except Exception as e:
            print(f"[{i}] {t.name}: plan failed: {e!r}")
            continue
        parts = []
        for u in units:
            if u is None or u == "TRUNCATED":
                continue
            reg = t.regfactory()
            ctx = Ctx(u, check_feasibility=False)
            pr, outcome = None, None
            try:
                pr = C.run_contract_path(c, reg, ctx)
                outcome = pr.outcome
            except PathEnd as e:
                outcome = "end:" + str(e)
            except OutOfSubset:
                continue
            try:
                w = xcheck.witness(c, reg, ctx, pr, outcome, u)
            except Exception as e:
                import traceback
                traceback.print_exc()
                w = {"skip": "xcheck-error:" + type(e).__name__}
            parts.append({"xcheck": w})
        r = xcheck.run_task(c, parts, None)
        print(f"[{i}] {t.name}: units={len(units)} in_scope={r['paths_in_scope']} checked={r['paths_checked']} "
              f"agree={r['agree']} mismatches={len(r['mismatches'])} skipped={r['skipped']}", flush=True)
        per.append(r)
    return per


def run(prop, idxs, jobs):
    from pyvc import xcheck
    mod = importlib.import_module(f"props.{prop.lower()}")
    todo = [(prop, i) for i, t in enumerate(mod.tasks()) if hasattr(t, "contract") and (not idxs or i in idxs)]
    if jobs > 1:
        import multiprocessing as mp
        with mp.get_context("fork").Pool(jobs, maxtasksperchild=1) as pool:
            per = [r for rs in pool.imap(run_one, todo) for r in rs]
    else:
        per = [r for a in todo for r in run_one(a)]
    return xcheck.merge(per)


def main():
    args = sys.argv[1:]
    if not args:
        print(__doc__)
        return 2
    prop = args[0].upper()
    verbose = "-v" in args
    if "--run" in args:
        jobs = int(args[args.index("-j") + 1]) if "-j" in args else 1
        idxs = [int(a) for k, a in enumerate(args[1:], 1) if a.isdigit() and args[k - 1] != "-j"]
        x = run(prop, idxs, jobs)
        print()
        show(x, verbose)
        return 3 if x["mismatches"] else 0
    evdir = os.environ.get("VERIF_EVIDENCE_DIR") or os.path.join(ROOT, "evidence")
    p = os.path.join(evdir, f"{prop}.json")
    try:
        ev = json.load(open(p))
    except Exception as e:
        print(f"cannot read {p}: {e}")
        return 2
    x = (ev.get("coverage") or {}).get("xcheck")
    if not x:
        print(f"{p}: no coverage.xcheck (tier was {ev.get('tier')}; the cross-check runs in the thorough tier)")
        return 2
    print(f"{prop} ({ev.get('tier')} tier, {p})")
    show(x, verbose)
    return 3 if x["mismatches"] else 0


if __name__ == "__main__":
    sys.exit(main())
