#!/bin/bash
# usage: tools/run_all.sh [quick|thorough] [props...]  - runs the registered checks one after another, one summary line each
cd "$(dirname "$0")/.."
TIER=${1:-quick}; shift
PROPS=${@:-$(python3 -c "import json;print(' '.join(c['property_id'] for c in json.load(open('MANIFEST.json'))['checks']))")}
rc=0
for p in $PROPS; do
  out=$(./check $p --tier $TIER ${UPDATE:+--update-baseline} 2>&1); code=$?
  echo "$p exit=$code $(echo "$out" | tail -1)"
  [ $code -ne 0 ] && { rc=1; echo "$out" | grep -E "^VIOLATION|^UNDECIDED|^CHECKER" | head -5 | cut -c1-300; }
done
exit $rc
