"""native triage of the delegated-mode cluster (inv/mailbox_delegated.*): breadth-first search over legal event histories on
the REAL classes (real Boss graph behind the real _DelegatedWormhole, replay/mailbox_history.py) with a delegate that calls
close() / send_message() from inside its callbacks.  Reports (1) every internal failure (NoTransition, AssertionError, any
exception, a violated C08/C18 boundary requirement) with its shortest history and (2) for the clauses given in a JSON file
([[literal, value], [literal, value]] = "not both"), every natively reached state that violates one.
usage: /venv/bin/python tools/m_native_delegated.py <depth beyond the prefix> <seconds per search> <processes> [clauses.json]
       /venv/bin/python tools/m_native_delegated.py walks <seconds> <processes> [clauses.json]     (random legal walks of 40
       events, random policy of 1-3 re-entering callbacks; fake peer bodies only once a key exists = wrong-password peer, so that
       the walks are not cut short by the known hostile-content family; closing causes are rare so that walks get deep)"""
import sys, os, json
ROOT = os.path.dirname(os.path.dirname(os.path.abspath(__file__)))
sys.path.insert(0, os.path.join(ROOT, "replay"))
import mailbox_history as H      # noqa
from multiprocessing import Pool      # noqa
CB = ["got_welcome", "got_code", "got_key", "got_verifier", "got_versions", "received"]
SC = "api.set_code('4-purple-sausages')"
CL = json.load(open(sys.argv[4]))["all"] if len(sys.argv) > 4 else []
PREF = {
    "P0": [],
    "P1": ["api.input_code()", "ws.open", "msg.welcome({})", "helper.choose_nameplate('4')"],
    "P2": [SC, "ws.open", "msg.welcome({})", "msg.claimed('mb1')", "peer.pake(honest)"],
    "P3": [SC, "ws.open", "msg.welcome({})", "msg.claimed('mb1')", "peer.pake(honest)", "peer.version(honest)"],
    "P3m": [SC, "ws.open", "msg.welcome({})", "msg.claimed('mb1')", "peer.pake(honest)", "peer.version(honest)",
            "peer.message0(honest)"],
    "P4": ["api.input_code()", "ws.open", "msg.welcome({})", "helper.choose_nameplate('4')", "msg.claimed('mb1')",
           "peer.pake(honest)"],
    "P5": ["api.allocate_code(2)", "ws.open", "msg.welcome({})", "msg.allocated('4')", "msg.claimed('mb1')"],
    "P6": [SC, "api.send(b'x')", "ws.open", "msg.welcome({})", "msg.claimed('mb1')", "peer.pake(honest)"],
}


def job(a):
    pn, policy = a
    st = {}
    try:
        r = H.search_delegated(policy, maxdepth=int(sys.argv[1]), budget_s=int(sys.argv[2]), prefix=PREF[pn], clauses=CL, stats=st)
    except Exception:
        import traceback
        traceback.print_exc()
        r = {}
    return pn, policy, r, st.get("states", 0)


def walk_weight(n):
    if n.startswith(("peer.", "msg.claimed", "msg.released", "msg.closed", "msg.welcome({})", "ws.open", "msg.allocated",
                     "helper.choose")):
        return 6
    if n.startswith(("api.close", "msg.welcome({'error'", "msg.error", "service.initial", "ws.close_never")):
        return 0.15
    return 1


_events = H.events


def events_after_key():
    out = []
    for n, l, d in _events():
        if "side='side2', phase=" in n:
            l = (lambda l0: lambda w: l0(w) and getattr(w.boss._R, "_key", None) is not None)(l)
        out.append((n, l, d))
    return out


def walk_job(seed):
    H.events = events_after_key
    return H.random_walks_delegated(seed, int(sys.argv[2]), 40, CL, weight=walk_weight)


if __name__ == "__main__" and sys.argv[1] == "walks":
    out = {}
    W = S = 0
    with Pool(int(sys.argv[3])) as p:
        for found, walks, states in p.imap_unordered(walk_job, range(900, 900 + int(sys.argv[3]))):
            W += walks
            S += states
            for sig, v in found.items():
                if sig not in out or len(out[sig][0]) > len(v[0]):
                    out[sig] = v
    print("walks", W, "states", S)
    for sig, v in sorted(out.items()):
        print(sig, "|", json.dumps(v[4]), "|", v[0], "| defer_stop", v[1], "| re-entered", v[3], "|", str(v[2])[:300].replace("\n", " "))
    sys.exit(0)

if __name__ == "__main__":
    jobs = [(pn, {c: a}) for pn in PREF for c in CB for a in ("close", "send")]
    jobs += [(pn, {"got_welcome": "send", "received": "close"}) for pn in PREF]
    jobs += [(pn, {"got_key": "send", "got_verifier": "close"}) for pn in PREF]
    out = {}
    total = 0
    with Pool(int(sys.argv[3])) as p:
        for pn, policy, r, n in p.imap_unordered(job, jobs):
            total += n
            for sig, (h, ds, detail, re_) in r.items():
                if sig not in out or len(out[sig]["history"]) > len(h):
                    print("==", pn, json.dumps(policy), sig, len(h), flush=True)
                    out[sig] = {"policy": policy, "history": h, "defer_stop": ds, "detail": detail, "reentered": re_}
    print("states on which the clauses were tested:", total)
    for sig, v in sorted(out.items()):
        print(sig, "|", json.dumps(v["policy"]), "|", v["history"], "| defer_stop", v["defer_stop"], "| re-entered", v["reentered"])
