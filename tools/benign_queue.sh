#!/bin/bash
# usage: tools/benign_queue.sh <id>...   - runs tools/benign_eval.sh for benign/<id> against its property's check, one after another
cd "$(dirname "$0")/.."
for id in "$@"; do
  p=${id%%-*}
  tools/benign_eval.sh $p $PWD/benign/$id 2>&1 | grep -v "^WARNING" | cut -c1-400
done
