"""infer (Houdini) the invariant of a cluster engine and write it to its cache file
usage: m_infer.py props.mailbox engine [jobs]"""
import sys, time, json; sys.path.insert(0,'/verif')
from pyvc import mrun
import importlib
mod, fac = sys.argv[1:3]
jobs = int(sys.argv[3]) if len(sys.argv) > 3 else 12
r = mrun.run_engine(mod, fac, "quick", jobs=jobs, max_rounds=int(__import__("os").environ.get("VERIF_MAX_ROUNDS", "40")), infer=("--cached" not in sys.argv), log=lambda s: print(s, flush=True))
if r["error"]:
    print(r["error"]); sys.exit(3)
eng = getattr(importlib.import_module(mod), fac)()
mrun.save_inv(eng.cache_file, r["inv"], {"rounds": r["rounds"], "universe": r["universe"], "inductive": r["inductive"]})
print("inductive:", r["inductive"], "rounds", r["rounds"], "wall", r["wall"])
bad = {}
for res in r["results"]:
    if res["oos"]: print("OOS", res["entry"], res["oos"])
    for o in res["obligations"]:
        if o["status"] != "discharged":
            bad.setdefault(o["name"], []).append((res["entry"], o["status"], o["failures"][:1]))
print("open obligations:", len(bad))
for k, v in sorted(bad.items()):
    print(" ", k, [(e, s) for e, s, f in v])
json.dump(bad, open("/tmp/m_open.json", "w"), indent=1, default=str)
