#!/bin/bash
# usage: tools/benign_eval.sh <PROP> <dir with patch.diff> [more props]  - a behaviour-preserving change must keep the check at exit 0
PROP=$1; SRC=$2; shift 2; EXTRA="$@"
HERE="$(cd "$(dirname "$0")/.." && pwd)"
WT=$(mktemp -d /tmp/benwt.XXXXXX); rmdir $WT
git -C /repo worktree add -q $WT HEAD || exit 9
cleanup() { git -C /repo worktree remove --force $WT 2>/dev/null; rm -rf $WT; }
trap cleanup EXIT
cd $WT
git apply $SRC/patch.diff || { echo "$(basename $SRC): PATCH DOES NOT APPLY"; exit 8; }
SUITE=$(PYTHONPATH=$WT/src timeout 900 /venv/bin/python -m pytest -q -p no:cacheprovider --timeout=900 2>&1 | tail -1)
for P in $PROP $EXTRA; do
  OUTP=$(cd $HERE && VERIF_REPO=$WT VERIF_EVIDENCE_DIR=$WT/.verif_ev VERIF_OUT_DIR=$WT/.verif_out ./check $P 2>&1); CODE=$?
  echo "$(basename $SRC) check=$P exit=$CODE suite=[$SUITE] $(echo "$OUTP" | tail -1)"
  [ $CODE -ne 0 ] && echo "$OUTP" | grep "^VIOLATION\|^UNDECIDED\|^CHECKER\|^KNOWN" | head -8 | cut -c1-420
  echo "$OUTP" > $SRC/check_$P.txt
done
