#!/bin/bash
# usage: tools/seed_queue.sh "<PROP> <srcdir> <seedid> [extra props]" ...   - evaluates seeds one after another (seed_eval.sh), log per seed under out/
cd "$(dirname "$0")/.."
for job in "$@"; do
  set -- $job
  ( time tools/seed_eval.sh "$@" ) > out/se-$3.log 2>&1
  echo "$3: $(grep -c '^VIOLATION' out/se-$3.log) violation lines; $(grep 'demo with change' out/se-$3.log)"
done
