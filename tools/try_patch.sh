#!/bin/bash
# usage: tools/try_patch.sh <patch.diff> <PROP> [PROP...]   - apply a patch to a scratch copy of /repo/src and run checks against it
P=$1; shift
D=$(mktemp -d /tmp/mut.XXXXXX); cp -r /repo/src $D/src
(cd $D && patch -s -p1 < $P) || { echo "patch failed"; rm -rf $D; exit 9; }
for PROP in "$@"; do
  VERIF_REPO=$D VERIF_EVIDENCE_DIR=$D/ev VERIF_OUT_DIR=$D/out "$(cd "$(dirname "$0")/.." && pwd)/check" $PROP 2>&1 | grep "^VIOLATION\|^UNDECIDED\|^CHECKER\|^KNOWN\|quick:\|thorough:" | cut -c1-${MUT_COLS:-330} | tail -${MUT_TAIL:-8}
done
rm -rf $D
