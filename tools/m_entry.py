"""debug: explore one entry of a cluster engine   usage: m_entry.py props.mailbox engine <entry name> [cached]"""
import sys, time, json; sys.path.insert(0,'/verif')
import importlib
from pyvc import mrun
from pyvc.cluster import Cluster, clause_key
mod, fac, name = sys.argv[1:4]
eng = getattr(importlib.import_module(mod), fac)()
reg = eng.make_reg(); cl = Cluster(eng.make_spec(), reg)
uni = [clause_key(c) for c in cl.all_clauses()]
import os
if len(sys.argv) > 4 and os.path.exists(eng.cache_file):
    inv = json.load(open(os.environ.get("VERIF_INV_FILE", eng.cache_file)))["inv"]
else:
    inv = {"entry": mrun.initial_clauses(eng, uni)}
inv["*"] = uni
entry = [e for e in eng.entries if e.name == name][0]
t = time.time()
r = mrun.explore_entry(eng, entry, inv, "quick", t, limit=int(os.environ.get("VERIF_UNIT_PATHS", "3")))
print("paths", r["paths"], "wall", r["wall"], "oos", r["oos"], "cuts", r["cuts"], "abstracted inv checks", r.get("inv_checks_abstracted"))
print("violated:", {c: len(k) for c, k in r["violated"].items()})
for o in r["obligations"]:
    if o["status"] != "discharged":
        print("  ", o["name"], o["status"], o["paths"], json.dumps(o["failures"][:1], default=str)[:600])
print("discharged:", sum(1 for o in r["obligations"] if o["status"] == "discharged"))
