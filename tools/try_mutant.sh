#!/bin/bash
# usage: tools/try_mutant.sh <prop> <file relative to src/wormhole> <python-regex-old> <new>   (scratch copy, removed afterwards)
set -e
PROP=$1; FILE=$2; OLD=$3; NEW=$4
D=$(mktemp -d /tmp/mut.XXXXXX)
cp -r /repo/src $D/src
python3 - "$D/src/wormhole/$FILE" "$OLD" "$NEW" <<'PY'
import sys
p, old, new = sys.argv[1:4]
s = open(p).read()
assert s.count(old) >= 1, "pattern not found: " + old
s = s.replace(old, new, 1)
open(p, 'w').write(s)
PY
VERIF_REPO=$D VERIF_EVIDENCE_DIR=$D/ev VERIF_OUT_DIR=${MUT_OUT:-$D/out} "$(cd "$(dirname "$0")/.." && pwd)/check" $PROP 2>&1 | cut -c1-${MUT_COLS:-220} | tail -${MUT_TAIL:-6} || true
rm -rf $D
