"""strengthen the cached invariant with clauses that would exclude the counterexamples-to-induction of the open
obligations: candidates = unary/pairwise clauses over literals that are true in some CTI pre-state (and hold initially);
Houdini from (cached invariant + candidates) keeps those that are inductive.  Dropping is sound, adding is checked.
usage: m_strengthen.py props.mailbox engine [open.json]"""
import sys, os, json, itertools
sys.path.insert(0, '/verif')
mod, fac = sys.argv[1:3]
openf = sys.argv[3] if len(sys.argv) > 3 else "/tmp/m_open.json"
import importlib
from pyvc import mrun
from pyvc.cluster import Cluster, clause_key
eng = getattr(importlib.import_module(mod), fac)()
cl = Cluster(eng.make_spec(), eng.make_reg())
uni = {clause_key(c) for c in cl.all_clauses()}
d = json.load(open(eng.cache_file))
have = set(d["inv"]["entry"])
cands = set()
for name, lst in json.load(open(openf)).items():
    for ent, st, fails in lst:
        for f in fails:
            cex = f.get("cex") if isinstance(f, dict) else None
            if not cex:
                continue
            lits = sorted(cex["pre"].items())
            for a, b in itertools.combinations(lits, 2):
                for k in (clause_key((a, b)), clause_key((b, a))):
                    if k in uni:
                        cands.add(k)
for extra in [a for a in sys.argv[4:] if os.path.exists(a)]:       # further invariant files: their entry clauses are candidates too
    cands |= set(json.load(open(extra))["inv"]["entry"]) & uni
only = os.environ.get("VERIF_STRENGTHEN_ONLY")
cands -= have
print("candidates from CTIs:", len(cands), flush=True)
ok = set(mrun.initial_clauses(eng, sorted(cands)))
print("hold initially:", len(ok), flush=True)
d["inv"]["entry"] = d["inv"]["entry"] + sorted(ok)
json.dump(d, open(eng.cache_file, "w"))
r = mrun.run_engine(mod, fac, "quick", jobs=16, log=lambda s: print(s, flush=True))
if r["error"]:
    print(r["error"]); sys.exit(3)
mrun.save_inv(eng.cache_file, r["inv"], {"rounds": r["rounds"], "universe": r["universe"], "inductive": r["inductive"]})
print("inductive:", r["inductive"], "rounds", r["rounds"], "entry clauses", len(r["inv"]["entry"]), "kept of the candidates:",
      len(set(r["inv"]["entry"]) & ok))
bad = {}
for res in r["results"]:
    for o in res["obligations"]:
        if o["status"] != "discharged":
            bad.setdefault(o["name"], []).append((res["entry"], o["status"], o["failures"][:1]))
print("open obligations:", len(bad))
for k, v in sorted(bad.items()):
    print(" ", k, [(e, s) for e, s, f in v][:6])
json.dump(bad, open("/tmp/m_open.json", "w"), indent=1, default=str)
