"""Regenerates MANIFEST.json from the table below (keeps it valid at all times)."""
import json
import os
ROOT = os.path.dirname(os.path.dirname(os.path.abspath(__file__)))
props = [json.loads(l) for l in open(os.path.join(ROOT, "properties.jsonl"))]

CLAIMED = {
    "C19": dict(
        text="Every function between the API and the code generator/validators is under a contract taken from the statement "
             "(validators accept exactly digit-only nameplates and space-free codes; only-one-code flag; choose_words with a "
             "ghost sequence of os.urandom draws, one fresh draw per word, alternating lists; completions extend the prefix and "
             "use the list allocation uses at that position); all verification conditions are generated from /repo's source on "
             "every run and discharged by z3/cvc5 for all inputs; the 256-entry tables are evaluated exhaustively from the module literals.",
        note="Assumed: os.urandom uniform/independent; Python re/str semantics as encoded (DESIGN 2.2); str.lower/count/join "
             "uninterpreted. Automat rows of Input/Code are not part of this check (C14).",
        design="6/C19"),
    "C20": dict(
        text="parse_tcp_v1_hint, parse_hint, Common.add_connection_hints and Manager.use_hints are verified against contracts "
             "whose inputs range over a recursive JSON sort (null/bool/int/real/str/list/dict, bool a subclass of int): no "
             "exception for any JSON value, only (str host, genuine-int port, numeric priority, supported type) become hint "
             "objects, fields are taken unchanged; callers are checked against callee contracts; parse(encode(h)) == h as a lemma.",
        note="Assumed: sorted()/filter() models (same members), Twisted endpoint constructors, JSON floats as reals. "
             "ipaddrs.find_addresses returns a list of str; IListeningPort.getHost().port is an int.",
        design="6/C20"),
    "C12": dict(
        text="to_be4/from_be4, encode_record/parse_record (round trip for all seven record types as a lemma over the real bodies), "
             "_Framer.parse_frame/send_frame (frame round trip and 'no frame from any proper prefix' as lemmas over the two "
             "contracts), _get_expected/parse_prologue/parse_relay_ok (token only after exactly the expected bytes, Disconnect on "
             "divergence), _Record.send_record/decrypt_message (chunk arithmetic 65519/65535 with loop invariants; every Noise "
             "failure becomes Disconnect) are verified for all inputs; a linear-arithmetic lemma shows sender packets and "
             "receiver slices coincide.",
        note="Assumed: struct '>L' inverse pair, utf-8 codec round trip, Noise AEAD (+16 bytes, forgery raises).",
        design="6/C12"),
    "C16": dict(
        text="TrafficTimer's four inputs are verified through the real transition table against a ghost miss-counter (reconnect exactly "
             "on the second expiry without traffic; traffic resets; nothing signalled without a connection); Manager timer methods "
             "over a ghost clock with DelayedCall delay/reset/cancel semantics (deadline <= now + interval after every "
             "_send_ping_reset_timer; timer cleared before interval_elapsed; pong callback only for outstanding ids; cancel on "
             "loss/stop; Leader only); end-to-end lemma 'two answered pings then silence => dropped within 3 intervals'.",
        note="Assumed: reactor clock (callLater due at now+t, delay adds to scheduled time, reset moves to now+s), floats as reals, "
             "loseConnection is followed by connectionLost. Pong *arrival* is the peer's business.",
        design="6/C16"),
    "C17": dict(
        text="Manager.stop has a row in every state it can arrive in and every stop row ends in STOPPED with the one-shot notification "
             "or in STOPPING with a disconnect requested; both connection_lost rows of STOPPING notify; Dilator.stop calls "
             "T.stoppedD at once without a Manager and from when_stopped() otherwise; Connector.stop_everything reaches every "
             "listener, pending connector and pending connection (loop invariants); an incapable peer errors the main channel with "
             "OldPeerCannotDilateError for both orders of dilate()/versions and every dict; endpoints wait on the main channel.",
        note="Assumed: stop() reaches the Manager once; loseConnection => connectionLost eventually; OneShotObserver contract "
             "(C18). Completion of close() itself is liveness (not decided). Known finding: inbound attempts are not tracked.",
        design="6/C17"),
    "C13": dict(
        text="Every SubChannel input is verified from every one of the seven states through the real transition table against one "
             "shared set of lifecycle clauses (CLOSE exactly when the write side closes; connectionLost exactly when the read side "
             "closes, once; nothing delivered after it; write-after-close raises; manager told exactly on entering closed; queued "
             "data delivered in order before the queued close); Inbound.handle_open/data/close, SubchannelDemultiplex "
             "_got_open/register/_connect (once now or FIFO at listen; unexpected subprotocol refused by CLOSE); the wiring "
             "obligation that the demultiplexer enforces the set declared in dilate(); id disjointness by parity (with C11).",
        note="Assumed: collaborators are boundary objects; application callbacks are the last boundary call of their input (proved) "
             "so re-entry equals a later call, except writeConnectionLost in open_half.local_close; callbacks do not raise. "
             "inlineCallbacks endpoints connect()/listen() are not under contract here (C17 covers their waiting).",
        design="6/C13"),
    "C11": dict(
        text="choose_role (real body on both sides: for a != b exactly one Leader and one Follower, id parities differ; z3 string "
             "order), allocate_subchannel_id (+2, parity kept; disjointness step lemma), the Manager connection-slot invariant "
             "(_connection is not None <=> state in CONNECTED/ABANDONING/STOPPING) required and ensured by every Manager input, "
             "Connector accept-once/winner-once/stopped-delivers-nothing, DilatedConnectionProtocol (records reach the manager "
             "only in 'selected', queued in order in 'selecting', KCM from the Leader only on the chosen link), "
             "Boss.D_received_dilate reorder buffer (loop invariant).",
        note="NOT decided: 'the two sides re-converge on a new connection without deadlock' is a liveness property of the product "
             "of two Managers/Connectors with unbounded in-flight queues; no per-function contract expresses it. Assumed: "
             "collaborators as boundary objects, Noise authenticity makes a decrypted KCM mean the Leader confirmed.",
        design="6/C11"),
    "C04": dict(
        text="Three layers on the real source: transit consumer accounting (FileConsumer.write, _writeToConsumer, connectConsumer "
             "drain loop, connectionLost errbacks the consumer Deferred; the Deferred fires with n only when n >= expected and n is "
             "what was written in order), receiver (_transfer_data returns only when every announced byte was written and hashed; "
             "rename/unzip only after it returned on the same file object; the ack carries that hash; only destination+'.tmp' is "
             "opened) and sender (_send_file succeeds only on an explicit ok whose hash, if present, is the hash of what was handed "
             "to the pipe; hash and count cover exactly what was written). inlineCallbacks generators are verified with a "
             "yield model: each yield returns a value satisfying the callee's deferred-result contract or raises, and every "
             "field not declared stable is havocked.",
        note="Assumed: Twisted resumes a generator once per fired Deferred; FileSender reads/transforms/writes chunks in order; "
             "sha256 as an uninterpreted function (byte-exactness relies on collision resistance); C06 for the pipe; asserts are "
             "executed (no python -O); zip content round trip and terminal escaping are library behaviour.",
        design="6/C04"),
    "C05": dict(
        text="Receiver._decide_destname/_remove_existing/_ask_permission/_handle_file/_handle_directory/_write_file/_extract_file/"
             "_write_directory are verified against a ghost filesystem: every opened/renamed/removed/extracted path is the announced "
             "destination, destination+'.tmp' or strictly below destination+'/'; the destination is a direct child named by the "
             "offer's basename (or the --output-file target); an existing destination without --output-file is refused; a "
             "directory is never removed; offer fields range over the JSON sort.",
        note="Assumed: POSIX os.path axioms (basename/abspath/join; each cross-checked, uncounted, on ~23k instances against "
             "CPython's posixpath), filesystem consistency facts, no concurrent filesystem change; what zipfile.extract does with a "
             "name that passed the check is the library's business; Windows paths not covered.",
        design="6/C05"),
    "C06": dict(
        text="send_record (length prefix then nonce-prefixed ciphertext, nonce = big-endian counter, counter+1), _decrypt_record "
             "(BadNonce exactly when the prefix differs from the expected counter; counter advances only then), "
             "dataReceivedRECORDS (ghost 'consumed' stream invariant: every iteration consumes exactly 4+length bytes and hands "
             "exactly those to decryption; remainder holds no complete frame: chunking independence), dataReceived (any exception "
             "=> loseConnection, 'hung up', nothing surfaced afterwards), FIFO pairing of records and reads, close/connectionLost "
             "errback every waiting read once, direction keys cross-match; frame round-trip / honest-record / out-of-order lemmas.",
        note="Assumed: SecretBox as an ideal deterministic AEAD (INT-CTXT), HKDF a function of (key,length,info) injective in info, "
             "transport.write appends in order, TCP is an in-order stream; Deferred re-entrancy from application callbacks is not "
             "modelled; len(record) < 2**32-40.",
        design="6/C06"),
    "C07": dict(
        text="connection_ready (receiver waits; sender says go iff no winner yet, never twice), _check_and_remove, the full "
             "_dataReceived transition function over the string state (records only via _negotiationSuccessful, reached only "
             "after exactly go\\n or from state go; go/nevermind only after the expected handshake matched; nevermind is written and "
             "the connection dropped), handshakes bind key and role (lemmas), _cancel, connectionMade arms the timeout, "
             "timeoutConnection drops, _not_forever arms the deadline, there_can_be_only_one fires once and cancels losers.",
        note="NOT decided: that the timers fire and connect() fails BY its deadline (reactor liveness). Assumed: HKDF injective, "
             "Deferred/callLater semantics, no synchronous re-entry from cancel().",
        design="6/C07"),
    "C01": dict(
        text="What is fed into the PAKE and what is derived from the key is verified on the real functions: to_bytes == utf8(NFC(u)); "
             "_SortedKey.build_pake keys SPAKE2 with to_bytes(code) and idSymmetric to_bytes(appid); got_pake/compute_key (key = "
             "finish(msg); version message sealed under the phase key of (side,'version'); an exception from finish propagates and "
             "records no key; no pake_v1 => scared); derive_key == HKDF(key, length, info=purpose) and both wormhole derive_key "
             "wrappers (NoKeyError iff no key); Key machine output bodies deliver the code before a stashed pake; lemmas: equal "
             "NFC-normalised codes => equal passwords, different purposes => different keys, same key => same verifier.",
        note="Assumed (cryptographic, not provable here): SPAKE2 'same key iff same password and identity', HKDF injective in info, "
             "unicodedata.normalize as a function. The clause 'nothing is delivered on mismatch / WrongPasswordError' is the "
             "machine-level part: checked by the mailbox-cluster engine (post:C01:* obligations) when that engine's claim is enabled.",
        design="6/C01"),
    "C02": dict(
        text="derive_phase_key binds side and phase (purpose = prefix + sha256(side) + sha256(phase); equal purposes => equal "
             "digests), encrypt_data/decrypt_data (32-byte key, one fresh 24-byte nonce, SecretBox INT-CTXT contract), "
             "Send._encrypt_and_send (sealed under OUR side and the phase sent), Receive.got_message (opened under the message's "
             "CLAIMED side and phase; CryptoError => bad, else exactly that plaintext), Mailbox.rx_message (own side never "
             "forwarded), Mailbox.N_release_and_accept (a phase is forwarded at most once), Boss.got_message dispatch and the "
             "Boss.W_received reorder buffer (loop invariant: delivered in order, once).",
        note="Assumed: sha256 injective (collision resistance), HKDF, AEAD unforgeability, SPAKE2 rejects reflected/malformed "
             "elements. 'ignores or closes with an error on fabricated bodies' is the machine-level part (mailbox-cluster engine).",
        design="6/C02"),
    "C10": dict(
        text="Outbound class invariant (seqnums contiguous, queue ends at next-1, unsent is a suffix of the queue, no connection => "
             "nothing unsent) is pre- and postcondition of every Outbound method; build_record/queue_and_send_record/"
             "use_connection (everything un-acked replayed first)/resumeProducing (backlog before producers)/"
             "stop_using_connection/handle_ack (exactly the records with seqnum <= ack retired, others kept in order); "
             "Manager.send_data/open/close each one record; Manager.got_record always acks and dispatches iff above the "
             "watermark; lemma receive_run: a contiguous run is dispatched exactly once each, in order.",
        note="Assumed: L2 delivers records whole and in order (C12), acks come only from got_record. The list-operation facts handed to "
             "the solvers are discharged obligations since round 4 (props/dilq.py:seq-lemmas.*, 31: first index := indexof(s,[x],0); "
             "element-wise and first-index consequences of popleft/extend/clear/append/rotate(-1)/remove and set(list) membership "
             "proved for sequences of any length from the defining terms the interpreter builds, structurally matched); trusted there: "
             "the solvers' sequence theory and that those terms model deque/list (cross-checked against CPython on all lists up to "
             "length 3, uncounted). Liveness (a replacement connection is made, acks eventually arrive) is not decided. Precondition: one producer object is registered for one subchannel only.",
        design="6/C10"),
    "C15": dict(
        text="Outbound producer bookkeeping invariants (partition paused/unpaused, paused before unpaused in the rotation, _paused "
             "=> nobody unpaused, no connection => _paused, at quiescent points _paused or nobody paused) are established by "
             "every method; resumeProducing resumes one producer at a time only while not paused, after moving it to the back, "
             "with re-entrant pauseProducing modelled rely/guarantee style; pauseProducing tells each un-paused producer exactly "
             "once; Inbound pauses the connection iff some subchannel asked, carried over to a replacement connection.",
        note="Assumed: producers honour pause; Producer.pauseProducing/startStreaming and transport.registerProducer do not call "
             "back; a new connection starts un-paused. 'eventually resumed' (that the transport calls resume again) is not "
             "decided. Same single-registration precondition as C10; the list-operation facts are discharged lemmas "
             "(see C10's note).",
        design="6/C15"),
    "C18": dict(
        text="OneShotObserver/SequenceObserver/EventualQueue (result latched once, every waiter scheduled exactly once via the "
             "eventual queue, FIFO pairing, after an error every present and future waiter errbacks, _turn runs each queued call "
             "once and later-queued calls in a later turn: loop invariants) and all _DeferredWormhole got_*/get_*/received/"
             "closed/close methods (after closed every outstanding and future get_* fails; close after closed does not call the "
             "Boss again).",
        note="The causal ORDER of events (code, key, verifier, versions/messages, closed last; version submitted before any data "
             "phase) is the machine-level part: post:C18:* obligations of the mailbox-cluster engine. Assumed: Twisted Deferred/"
             "Failure as boundary objects, stored calls may raise and may re-queue (append-only).",
        design="6/C18"),
    "C03": dict(
        text="Sender: Boss.S_send numbers the k-th send_message with the decimal numeral of k and hands it on once; Send.queue/drain/"
             "deliver keep FIFO order and seal each message under its own phase label (loop invariant over the real body); "
             "Mailbox.queue/dequeue keep a message in the re-send set until OUR message of that phase is echoed. Receiver: "
             "Mailbox.N_release_and_accept forwards a phase at most once, Mailbox.rx_message never forwards our own side, "
             "Order.queue/drain/deliver keep arrival order, Receive.got_message opens under the claimed label, Boss.got_message "
             "dispatch, Boss.W_received reorder buffer (delivers phase n iff n is next; loop invariant), SequenceObserver / "
             "EventualQueue / get_message hand results to the application first-in first-out through the eventual queue.",
        note="The end-to-end statement 'received is a prefix of sent' is argued from these contracts (numbering + FIFO queues + dedup "
             "+ reorder buffer + label-bound keys, C02); it is not one machine-checked obligation. Re-adding pending messages on "
             "every new connection is C09 (Mailbox._drain + post:C09 obligations). Liveness (the prefix becomes the whole) is not "
             "decided. Assumed: AEAD, the server stores what it was given.",
        design="6/C03"),
}
NOT_BUILT = "check not built yet (framework under construction; see DESIGN.md section 11)"

CLUSTER_TECH = 'contract-based deductive verification of the composed machines: the real transition tables and output bodies of the thirteen mailbox-side machines (wired by interpreting the real Boss._build_workers) are executed symbolically from every state of an inductive invariant (unary/pairwise clauses inferred Houdini-style, cached and re-checked on every run) under an environment contract; loop heads are cut with framed invariants; function-level contracts (pyvc) carry the data parts; refutations are turned into native event histories on the real classes'
import sys
sys.path.insert(0, ROOT)
from props.mailbox_ready import CLUSTER_READY
if CLUSTER_READY:
    CLAIMED.update({
    "C14": dict(
        text="For the composed mailbox-side client (Boss, Nameplate, Mailbox, Terminator, Code, Allocator, Lister, Input, Key, "
             "_SortedKey, Order, Receive, Send, RendezvousConnector; real tables, real output bodies, real wiring) and every entry "
             "point of the environment contract (API and input-helper calls, websocket open/close incl. 'closed before it opened', "
             "ClientService and Dilator callbacks, every server message type with arbitrary contents: own echoes, peer, third "
             "participant, duplicates, any order) it is proved from every state of an inductive invariant that no machine receives "
             "an input it has no row for (nodom:*), no assert in cluster code fails, nothing but the documented API errors escapes "
             "an entry point, and the close() result is 'happy' or a documented WormholeError. The obligations that fail do so for "
             "one reason, listed as known findings with native histories: malformed or ill-timed content from the peer / a third "
             "participant surfaces as an undocumented exception.",
        note="Assumed: environment contract E1-E5 (DESIGN 3.3, 12.5: conformant server replies, FIFO replies per connection, "
             "Twisted ClientService/Deferred behaviour as modelled, helper only before close()); Automat dispatch semantics; "
             "regular expressions as uninterpreted predicates with a minimal match length, crypto values as fresh byte strings; "
             "Mailbox._drain and Order.drain through their contracts (C09, C03); the first internal failure ends a path. The "
             "invariant file is an annotation, re-established on every run.",
        design="6/C14, 12.5", technique=CLUSTER_TECH),
    "C08": dict(
        text="Machine level (mailbox-cluster engine, same exploration as C14): W.closed is delivered at most once and nothing is "
             "delivered after it; it is delivered only when the Terminator has stopped (nameplate released or never claimed, mailbox "
             "closed with the mood the Boss chose, ClientService stopped, Dilator stopped) or on the error path; the verdict kind is "
             "justified by what was seen while the wormhole was open (happy => a peer message decrypted, lonely => none, scary => an "
             "undecryptable one, ServerError/WelcomeError => the server said so) and, conversely, an error welcome / server error "
             "that arrives before closing makes WelcomeError / ServerError the verdict; the verdict is recorded once; release/close "
             "are re-issued after a reconnect. Function level: _DeferredWormhole.closed/close contracts (C18).",
        note="Liveness ('once connectivity allows, closed is delivered') is not decided: the obligations are safety. Same "
             "assumptions as C14. Both deferred and delegated API share the Boss; the delegated hand-over is boundary.",
        design="6/C08, 12.5", technique=CLUSTER_TECH),
    "C09": dict(
        text="Reconnect contract read off the real tables of Nameplate, Mailbox, Allocator, Lister (lost keeps the durable numeral "
             "and does nothing; connected re-issues exactly the outstanding request); Mailbox._drain re-submits every un-echoed "
             "message unchanged (loop invariant on the real body); machine level (mailbox-cluster engine): after every ws_open the "
             "client has bound first and claim / release / open / close / allocate / list are on the wire again whenever the "
             "machines believe them outstanding, every add follows bind, every pending message is re-added; no machine that lives "
             "across connections gets an input without a row (lost/connected in the wrong half, a peer message handed on twice after "
             "re-opening); application-visible events stay once-only.",
        note="Liveness (the key exchange completes, every message is delivered once both sides stay connected) is not decided; "
             "a second client is not composed: the peer is the environment. Same assumptions as C14.",
        design="6/C09, 12.5", technique=CLUSTER_TECH),
    })

# third round (DESIGN 12.8): what came under contract since the texts above were written, and what no longer holds of the notes
ROUND3 = {
    "C01": (" The code's own path is under contract since round 4: Input.do_words (typed code == nameplate-words, unchanged), "
            "Code.do_set_code / do_finish_input / do_finish_allocate / do_middle_input / Code.set_code (the code reaches Boss and "
            "Key unchanged, the nameplate is the part before the first dash)." 
            " Also run here: Receive.got_message / decrypt_data / encrypt_data (C02's contracts) and Order.got_message / "
            "Receive.got_message_good through the real tables (C03's), so that 'matching codes => every message is delivered' sees a "
            "change in how an authentic message is handed on.", ""),
    "C02": (" Machine level (mailbox-cluster engine over the real tables and output bodies, shared with C14): an echo of our own "
            "message never reaches Order; a phase is handed to Order only if it was not yet in Mailbox._processed, is recorded "
            "there, and the set never loses a phase in any entry point (also across reconnects); side and phase reach Order as "
            "the server message carried them; an undecryptable peer message ends in WrongPasswordError.", ""),
    "C03": (" The hops run through the real Automat tables (Boss.send, Boss._got_phase, Send.send, Send.got_verified_key, "
            "Mailbox.rx_message_theirs, Order.got_message, Receive.got_message_good, the send_message/received API methods) and "
            "the composition is machine-checked as three lemmas whose hypotheses are the contracts' clauses imported by name "
            "(k-th send goes out once under label k; an accepted numeric message is the peer's k-th; the reorder-buffer step keeps "
            "'received is a prefix of sent' for any inbound phase). Machine level: an un-echoed message stays in "
            "_pending_outbound and is re-submitted on every connection; the phase counters never go back.",
            " Not machine-checked: the cryptographic link (AEAD unforgeability) and the outer induction over the message sequence."),
    "C04": (" Also under contract now: Receiver._handle_text (printed once, terminal-safe, then acked), Sender._build_offer (text / "
            "file / directory / block-device branches: what is offered is what will be streamed), the directory branch of "
            "_send_file, _check_verifier, Receiver._go/_get_data/_handle_code/_build_transit/_parse_transit; every member of the "
            "received archive is unpacked exactly once into the announced destination (C05's _write_directory loop).",
            " Not under contract: Sender._go (path enumeration does not finish), the go() closure wrappers, numfiles/numbytes."),
    "C05": (" _write_directory: every iteration unpacks exactly its archive member into the announced destination (also explicit "
            "directory entries).", ""),
    "C06": (" Also under contract now: _writeToConsumer, disconnectConsumer, writeToFile, FileConsumer.*, the producer "
            "pass-throughs, Connection.write; lemma:stream_induction_step (hypotheses imported from the contracts); the hex "
            "big-endian round trip is derived from its definition for widths 4 and 24.", ""),
    "C07": (" Also under contract now: _ThereCanBeOnlyOne.run/_cancel, there_can_be_only_one, the _done closure of _not_forever, "
            "Connection.startNegotiation, InboundConnectionFactory.buildProtocol/connectionWasMade, Common._start_connector and "
            "Common._connect (every attempt contends, the listener contends, one race under one 2*TIMEOUT deadline).",
            " Round 4: Common.connect (inlineCallbacks: the transit key is awaited before anything is dialled, exactly one race, its "
            "winner is returned, its failure propagates), Common._build_listener / _get_direct_hints / get_connection_hints (no direct "
            "hint unless listening, listener started once, every published direct dict well-formed and faithful to its hint object, "
            "lemma:published_direct_hint_parses_back with C20's parse contracts imported). NOT registered: that the relay dicts of "
            "get_connection_hints reproduce the configured sub-hints unchanged (clause and loop invariant undecided). At a suspension "
            "every field of self except is_sender/_side/_tor/_reactor/_no_listen/_transit_relays is havocked and the class invariants "
            "(postconditions of add_connection_hints / _get_direct_hints) re-assumed; set_transit_key fires a registered waiter with "
            "the key it stored (assumed, not under contract)."),
    "C10": (" Inbound.handle_open is verified on its real body (the former stub assumption is gone); the glue between the two sides is "
            "five discharged lemmas (new_connection_stream, stream_prefix_contiguous, ack_keeps_oldest_unacked_bound, "
            "write_keeps_oldest_unacked, exactly_once_step); Outbound.send_if_connected; the L2-to-Manager hand-over "
            "(DilatedConnectionProtocol.process_inbound_queue/select/dataReceived) and the subchannel's delivery of early "
            "OPEN/DATA/CLOSE (C13's contracts) are run here too.", " The induction over whole executions is argued from the step lemma."),
    "C11": (" The inbound loops of one link (C12: add_and_parse, add_and_unframe, dataReceived, connectionLost, the framer's "
            "handshake matching under any fragmentation) are run here too.", ""),
    "C12": (" Now also: _Framer.add_and_parse, _Record.add_and_unframe and DilatedConnectionProtocol.dataReceived/connectionLost "
            "on their real (interleaved) bodies with a ghost byte stream - for any chunking the tokens are exactly the frames of "
            "the stream, nothing before the exact prologue / relay reply, Disconnect => exactly one loseConnection and nothing "
            "reaches the manager; a stateful Noise model (nonce counters) with per-packet loop invariants and "
            "lemma:multi_packet_content give content equality for every payload length; the big-endian round trip follows from "
            "its definition.", " Link set-up (round 4): DilatedConnectionProtocol.connectionMade through the real table (exactly one write: "
            "the relay handshake if configured, else this role's prologue), use_relay, send_record, connector.build_noise + "
            "Connector.build_protocol (NNpsk0, PSK = dilation key, Leader initiates, prologues crossed between the roles), "
            "Dilator.got_key (PSK = HKDF(key, 'dilation-v1')), lemma:prologues_cross_match on the real bodies (a reflected "
            "prologue is rejected). Still assumed: struct implements the big-endian definition, Noise NNpsk0 completes only between "
            "one initiator and one responder holding the same PSK, attrs validators as field types, Twisted sets .transport before "
            "connectionMade; that the dilation key flows from Dilator.got_key through the Manager to Connector._dilation_key is argued."),
    "C13": (" SubchannelConnectorEndpoint.connect and SubchannelListenerEndpoint.listen (inlineCallbacks generators) are under "
            "contract now: wait first, one id of this side's parity, one OPEN, one SubChannel registered before its protocol is "
            "connected, held OPENs handed over at listen; the real SubChannel construction runs; Manager.send_open / "
            "subchannel_local_open / _register_subprotocol_factory.", " SUPERSEDES the note about the endpoints."),
    "C15": (" Outbound.resumeProducing: a resume from the transport ends un-paused unless the transport paused again inside the loop "
            "(c15.a-wake-up-is-never-dropped); Outbound.send_if_connected.", ""),
    "C16": (" Outbound.send_if_connected (a ping really goes out whenever there is a connection, whatever the flow-control state) "
            "is run here too.", ""),
    "C17": (" Ghost invariant created <= tracked: every Deferred the Connector creates (deferLater) is in _pending_connectors, "
            "required and re-established by _schedule_connection, _use_hints (five loops) and start; stop() cancels every one of "
            "them; the real Connector construction runs inside Manager._start_connecting; Connector.build_protocol; "
            "lemma:listening_port_tracked.", ""),
    "C20": (" Also under contract now: endpoint_from_hint_obj (an endpoint only for a supported hint with str host and int port), "
            "describe_hint_obj, Connector._schedule_connection / _connect / _use_hints (five loops: grouping and sorting by "
            "priority never raise) / got_hints through the real table, Manager.rx_HINTS rows (C11's contract), the relay round "
            "trip for the relay hints this side builds, transit Common._connect's use of the parsed hints. Defect found and "
            "repaired (d1f4484): a hint without endpoint was scheduled as _connect(None).",
            " Encode side (round 4): encode_hint (exactly the documented key set, values unchanged), Connector._publish_hints "
            "(one send_hints with the encoding of every hint object once, in order), listener_ready through the real table, "
            "Connector.start, the _start_listener callback (one DirectTCPV1Hint per address with the listening port), "
            "Manager.send_hints, lemma:dilation_hint_roundtrip (parse_hint(encode_hint(h)) == h for direct and tor hints, "
            "hypotheses are parse_hint's own clauses taken by name) and lemma:encoded_hint_never_raises_in_parse_hint. NOT "
            "claimed: the relay round trip for arbitrarily many sub-hints (undecided: the premise of the filter() model is not "
            "derived by the solvers; one sub-hint is proved)."),
    "C14": (" The Mailbox per-phase dedup contracts (N_release_and_accept, rx_message) are run here too; new environment event: a "
            "reconnection attempt whose WebSocket negotiation fails.",
            " Delegated mode (application callbacks that re-enter send()/close() synchronously) is built as a second engine "
            "variant but NOT claimed: under its fixpoint invariant 16 obligations stay open; the triage of round 4 "
            "(inv/mailbox_delegated.triage.md) found no native history for any of them in 112 breadth-first searches and ~100k random "
            "walks with re-entrant delegates on the real classes, and names the lost pairwise clauses that would exclude each "
            "counterexample-to-induction - undecided, not refuted (DESIGN 12.10)."),
    "C08": (" A reconnection attempt that fails (onClose without onOpen) and every connection loss record no verdict; the claim / "
            "release / open / close commands name the nameplate / mailbox the client holds on every connection; the cluster's "
            "initial state is read from the real constructors.",
            " Delegated mode (re-entrant callbacks) is NOT claimed (DESIGN 12.10: triaged, no native defect found, not discharged)."),
    "C09": (" New environment event: a reconnection attempt whose WebSocket negotiation fails; connection loss is never a verdict.", ""),
}
for pid, (t_add, n_add) in ROUND3.items():
    if pid in CLAIMED:
        CLAIMED[pid]["text"] += t_add
        CLAIMED[pid]["note"] += n_add

checks = []
for pid, c in CLAIMED.items():
    checks.append({
        "property_id": pid,
        "quick_cmd": f"./check {pid} --tier quick",
        "thorough_cmd": f"./check {pid} --tier thorough",
        "evidence_file": f"/verif/evidence/{pid}.json",
        "replay_cmd_template": f"./check {pid} --replay {{path}}",
        "engine": "pyvc",
        "level_claimed": {"category": "proof", "text": c["text"], "design_ref": c["design"]},
        "level_note": c["note"],
        "technique": c.get("technique", "contract-based deductive verification: sidecar contracts on the real functions, "
                                        "verification conditions generated from the AST of /repo's source by a symbolic executor "
                                        "(pyvc), discharged by z3 with cvc5 as second back end; counterexamples replayed natively"),
    })
m = {
    "version": 1,
    "setup_cmd": "python3-vt -c 'import z3, cvc5' && /venv/bin/python -c 'import wormhole'",
    "hooks": {"guard": "MAGIC_WORMHOLE_VERIF",
              "enable": "none needed: contracts are sidecar files under /verif, the repository is read as source text and replays "
                        "monkeypatch from outside",
              "baseline_off_cmd": "cd /repo && /venv/bin/python -m pytest -ra -q -p no:cacheprovider --timeout=900 --continue-on-collection-errors",
              "source_commits": [], "add_only": True},
    "engines": [{"name": "pyvc", "path": "/verif/pyvc", "serves_properties": sorted(CLAIMED),
                 "kind_free_text": "AST -> verification-condition generator (symbolic executor over the real source text) + z3/cvc5"}],
    "checks": checks,
    "notes": "Contract-based deductive verification; see DESIGN.md. Exit codes: 0 held, 1 violation (+replay), 2 undecided, 3 checker error.",
    "not_applicable": [{"property_id": p["id"], "reason": NOT_BUILT} for p in props if p["id"] not in CLAIMED],
}
json.dump(m, open(os.path.join(ROOT, "MANIFEST.json"), "w"), indent=1)
print("claimed:", sorted(CLAIMED))
