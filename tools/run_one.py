"""debug helper: run one task of a property serially with per-VC output
usage: python3-vt tools/run_one.py C19 <task index> [timeout_ms]"""
import sys
import time
import importlib
import os
sys.path.insert(0, os.path.dirname(os.path.dirname(os.path.abspath(__file__))))
from pyvc import contract as C, solve   # noqa

prop, idx = sys.argv[1], int(sys.argv[2])
tmo = int(sys.argv[3]) if len(sys.argv) > 3 else 10000
mod = importlib.import_module(f"props.{prop.lower()}")
t = mod.tasks()[idx]
print("task", t.name)
if hasattr(t, "contract"):
    reg = t.regfactory()
    c = t.contract
    t0 = time.time()
    res, st = C.explore(lambda ctx: C.run_contract_path(c, reg, ctx), max_paths=c.max_paths)
    print(st, f"explore {time.time()-t0:.2f}s")
    for pr in res:
        print(" path", pr.outcome, pr.error or "", "dec", pr.decisions)
        for vc in pr.vcs:
            t1 = time.time()
            v = solve.solve_vc(vc, tmo)
            print("    ", v.name, v.status, v.backend, f"{time.time()-t1:.2f}s", flush=True)
            if v.status == "failed" and v.model is not None:
                try:
                    print("        cex:", {k: solve.concretize(x, v.model) for k, x in pr.inputs.items()})
                except Exception as e:
                    print("        cex err", e)
else:
    r = t.run("quick", 0)
    for o in r["obligations"]:
        print("  ", o["name"], o["status"], o["detail"])
