#!/bin/bash
# usage: tools/seed_eval.sh <PROP> <change dir with patch.diff demo_test.py notes.md> <seed id> [extra props to run]
# Confirms a seeded change on a scratch worktree of /repo (suite still green, demo fails with / passes without),
# runs the property's check against it, and stores the result under /verif/seeded/<seed id>/.
PROP=$1; SRC=$2; ID=$3; shift 3; EXTRA="$@"
HERE="$(cd "$(dirname "$0")/.." && pwd)"
WT=$(mktemp -d /tmp/seedwt.XXXXXX); rmdir $WT
git -C /repo worktree add -q $WT HEAD || exit 9
cleanup() { git -C /repo worktree remove --force $WT 2>/dev/null; rm -rf $WT; }
trap cleanup EXIT
OUT=$HERE/seeded/$ID; mkdir -p $OUT
cp $SRC/patch.diff $OUT/patch.diff; cp $SRC/demo_test.py $OUT/demo_test.py 2>/dev/null; cp $SRC/notes.md $OUT/notes_from_seeder.md 2>/dev/null
cd $WT
DEMO_CLEAN=$(PYTHONPATH=$WT/src timeout 600 /venv/bin/python -m pytest -q -p no:cacheprovider $OUT/demo_test.py 2>&1 | tail -1)
git apply $OUT/patch.diff || { echo "PATCH DOES NOT APPLY"; exit 8; }
SUITE=$(PYTHONPATH=$WT/src timeout 900 /venv/bin/python -m pytest -q -p no:cacheprovider --timeout=900 2>&1 | tail -1)
DEMO_MUT=$(PYTHONPATH=$WT/src timeout 600 /venv/bin/python -m pytest -q -p no:cacheprovider $OUT/demo_test.py 2>&1 | tail -1)
echo "suite with change : $SUITE"
echo "demo without change: $DEMO_CLEAN"
echo "demo with change   : $DEMO_MUT"
RES=""
for P in $PROP $EXTRA; do
  OUTP=$(cd $HERE && VERIF_REPO=$WT VERIF_EVIDENCE_DIR=$WT/.verif_ev VERIF_OUT_DIR=$WT/.verif_out ./check $P 2>&1 | cut -c1-400)
  mkdir -p $OUT/replay; cp -r $WT/.verif_out/replay/. $OUT/replay/ 2>/dev/null
  CODE=$(echo "$OUTP" | grep -c "^VIOLATION")
  LAST=$(echo "$OUTP" | tail -1)
  echo "--- check $P:"; echo "$OUTP" | grep "^VIOLATION\|^UNDECIDED\|^CHECKER\|^KNOWN" | head -6; echo "$LAST"
  RES="$RES $P:violations=$CODE"
  echo "$OUTP" > $OUT/check_$P.txt
done
python3 - "$OUT" "$PROP" "$ID" "$SUITE" "$DEMO_CLEAN" "$DEMO_MUT" "$RES" <<'PY'
import json, sys, os
out, prop, sid, suite, dc, dm, res = sys.argv[1:8]
meta = {"seed_id": sid, "property": prop, "suite_with_change": suite.strip(), "demo_without_change": dc.strip(),
        "demo_with_change": dm.strip(), "check_results": res.strip(),
        "what_was_run": "scratch worktree of /repo HEAD; git apply patch.diff; full pytest suite; demo_test.py before/after; "
                        "./check <prop> with VERIF_REPO pointing at the patched worktree"}
old = {}
if os.path.exists(os.path.join(out, "meta.json")):
    old = json.load(open(os.path.join(out, "meta.json")))
old.update(meta)
json.dump(old, open(os.path.join(out, "meta.json"), "w"), indent=1)
PY
