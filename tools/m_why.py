"""why is a clause not in the invariant?  adds the given clauses to the cached entry set and runs one round;
every path that violates one of them (a counterexample to induction relative to the cached invariant) is printed.
usage: m_why.py props.mailbox engine 'N.state==S0A and ghost.connected==True' ...   (values: state names / True / False)"""
import sys, os, json, tempfile
sys.path.insert(0, '/verif')
mod, fac = sys.argv[1:3]
keys = []
for txt in sys.argv[3:]:
    lits = []
    for part in txt.split(" and "):
        c, v = part.strip().split("==")
        v = True if v == "True" else False if v == "False" else v
        lits.append([c, v])
    keys.append(json.dumps(sorted(lits, key=lambda l: json.dumps(l))))
os.environ["VERIF_WATCH_CLAUSES"] = json.dumps(keys)
os.environ["VERIF_NO_SAVE"] = "1"
from pyvc import mrun
import importlib
eng = getattr(importlib.import_module(mod), fac)()
d = json.load(open(eng.cache_file))
from pyvc.cluster import Cluster, clause_key
cl = Cluster(eng.make_spec(), eng.make_reg())
uni = {clause_key(c) for c in cl.all_clauses()}
for k in keys:
    if k not in uni:
        # try the other literal order
        k2 = json.dumps(list(reversed(json.loads(k))))
        if k2 in uni:
            keys[keys.index(k)] = k2
        else:
            print("not in the template:", k)
os.environ["VERIF_WATCH_CLAUSES"] = json.dumps(keys)
mrun._WATCH = set(keys)
d["inv"]["entry"] = list(dict.fromkeys(d["inv"]["entry"] + keys))
tmp = tempfile.NamedTemporaryFile("w", suffix=".json", delete=False)
json.dump(d, tmp); tmp.close()
orig = eng.cache_file
os.environ["VERIF_INV_OVERRIDE"] = tmp.name
r = mrun.run_engine(mod, fac, "quick", jobs=16, max_rounds=1, log=lambda s: print(s, flush=True))
os.unlink(tmp.name)
