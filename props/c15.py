"""C15 - Dilation back-pressure pauses every producer and never loses a wake-up."""
from pyvc.contract import Contract
from pyvc.runner import ContractTask
from . import dilq
from .dilq import *   # noqa

PROP = "C15"

CONTRACTS = dilq.outbound_contracts() + dilq.inbound_contracts()


def regf():
    return dilq.make_reg(CONTRACTS)


def tasks():
    return [ContractTask(c, regf) for c in CONTRACTS if PROP in c.props and not c.inline]


TRUSTED = list(dilq.TRUSTED_COMMON)
ASSUMPTIONS = []
