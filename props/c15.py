"""C15 - Dilation back-pressure pauses every producer and never loses a wake-up."""
from pyvc.contract import Contract
from pyvc.runner import ContractTask, FuncTask
from . import dilq
from .dilq import *   # noqa

PROP = "C15"

CONTRACTS = dilq.outbound_contracts() + dilq.inbound_contracts()


def regf():
    return dilq.make_reg(CONTRACTS)


def tasks():
    return [ContractTask(c, regf) for c in CONTRACTS if PROP in c.props and not c.inline] + \
        [FuncTask("seq-lemmas", dilq.seq_lemmas_task, True, "lemma"),
         FuncTask("list-op-facts", dilq.list_facts_task, False, "model-validation")]


TRUSTED = list(dilq.TRUSTED_COMMON) + [
    "boundary model: connection.send_record(r) may synchronously call Outbound.pauseProducing() (send buffer full)",
    "boundary model: an application producer's resumeProducing() may re-enter Outbound any number of times (writes, "
    "register/unregister, pauseProducing via the transport): havoc under the weak invariant and the rely.* clauses; the call "
    "itself has proved preconditions (Outbound not paused, producer booked un-paused, already moved to the back)",
    "Producer.pauseProducing(), PullToPush.startStreaming/stopStreaming, transport.registerProducer/unregisterProducer do not "
    "call back into Outbound; connection.pauseProducing/resumeProducing set the ghost flag paused_reading",
]
ASSUMPTIONS = [
    "producers honour pauseProducing() (the code cannot force them); 'eventually resumed' needs the transport to call "
    "resumeProducing() again: not decided (liveness)",
    "precondition of subchannel_registerProducer: the same push-producer object is not registered for two subchannels at once. "
    "Without it the tree fails natively: register p for sc1 and sc2, q for sc3, then use_connection -> AssertionError at "
    "`assert p in self._paused_producers`; unregister(sc1) -> AssertionError in _check_invariants (reported as a suspected defect)",
    "a replacement connection starts reading (not paused); Inbound.use_connection is called while there is no connection",
    "Inbound.subchannel_closed does not discard the closed subchannel from _paused_subchannels, so a subchannel closed while "
    "it had asked for a pause keeps the connection paused; the statement does not clearly forbid it: no obligation, noted",
    "resumeProducing / use_connection / stop_using_connection are called from the reactor (quiescent state: additionally "
    "`_paused or no paused producer`), the re-entrant entry points need only the weak invariant",
]
