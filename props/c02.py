"""C02 - the mailbox server cannot forge, alter, re-label, replay or reflect messages
(function-level part: what key a message is sealed / opened with, what is forwarded, what is
delivered; the Automat tables are the machine-level engine's business)."""
import z3

from pyvc.contract import Contract
from pyvc.runner import ContractTask
from pyvc.values import *   # noqa
from .common import make_registry, install_trace_funcs, register_classes
from . import whmodels, whcontracts as WC

PROP = "C02"

K_MSG = "phase_key(self._key, side, phase)"          # the key for the label the MESSAGE claims

CONTRACTS = WC.owned(PROP) + [
    Contract("lemma:encrypt_then_decrypt", props=[PROP], source_module="wormhole/_key.py",
             params={"key": "bytes", "p": "bytes"},
             source_text="""
             def encrypt_then_decrypt(key, p):
                 return decrypt_data(key, encrypt_data(key, p))
             """,
             requires=["len(key) == 32"], ensures=[("round-trip", "result == p")],
             note="over the two contracts: what encrypt_data produces under a key opens under that key to the same plaintext "
                  "(and CryptoError is impossible)"),
    Contract("lemma:label_determines_key", props=[PROP], source_module="wormhole/_key.py",
             params={"key": "bytes", "s1": "str", "p1": "str", "s2": "str", "p2": "str"},
             source_text="""
             def label_determines_key(key, s1, p1, s2, p2):
                 return (derive_phase_key(key, s1, p1), derive_phase_key(key, s2, p2))
             """,
             requires=["s1 != s2 or p1 != p2", "is_ascii(s1) and is_ascii(p1) and is_ascii(s2) and is_ascii(p2)",
                       "sha256_collision_free(ascii(s1), ascii(s2))", "sha256_collision_free(ascii(p1), ascii(p2))",
                       "hkdf_info_injective(key, 32, phase_purpose(ascii(s1), ascii(p1)), phase_purpose(ascii(s2), ascii(p2)))"],
             ensures=[("different-label-different-key", "result[0] != result[1]")],
             note="K(side, phase) is injective in the label: the two digests are 32 bytes each, so equal purposes give equal "
                  "digests (string reasoning), hence equal side and phase (sha256 collision freedom, assumed for these "
                  "arguments), and HKDF separates different info strings (assumed for these arguments)"),
    Contract("lemma:purpose_splits", props=[PROP], source_module="wormhole/_key.py",
             params={"s1": "bytes", "p1": "bytes", "s2": "bytes", "p2": "bytes"},
             source_text="""
             def purpose_splits(s1, p1, s2, p2):
                 a = b"wormhole:phase:" + sha256(s1).digest() + sha256(p1).digest()
                 b = b"wormhole:phase:" + sha256(s2).digest() + sha256(p2).digest()
                 return (a, b)
             """,
             requires=[], ensures=[("equal-purposes-equal-digests",
                                    "implies(result[0] == result[1], sha256_of(s1) == sha256_of(s2) and "
                                    "sha256_of(p1) == sha256_of(p2))")],
             note="no assumption beyond |sha256| == 32: concatenation of two fixed-width fields is unambiguous"),
    Contract("wormhole/_send.py:Send._encrypt_and_send", props=[PROP], params={"phase": "str", "plaintext": "bytes"},
             self_fields={"_key": "bytes", "_side": "str", "_M": "obj[IMailbox]"},
             replay={"driver": "trace_replay:run", "collaborators": {"_M": "IMailbox"}},
             raises_exactly={"AssertionError": "not self._key",
                             "UnicodeEncodeError": "len(self._key) > 0 and (not is_ascii(self._side) or not is_ascii(phase))"},
             ensures=[("exactly-one-add_message", "bcall_names() == ['add_message']"),
                      ("labelled-with-the-phase-being-sent", "bcall_arg('add_message', 0, 0) == phase"),
                      ("sealed-under-our-side-and-this-phase",
                       "sealed(bcall_arg('add_message', 0, 1), phase_key(self._key, self._side, phase), plaintext)")],
             ensures_raise={"AssertionError": [("nothing-sent", "len(bcall_names()) == 0")],
                            "UnicodeEncodeError": [("nothing-sent", "len(bcall_names()) == 0")]},
             modifies=[]),
    Contract("wormhole/_receive.py:Receive.got_message", props=[PROP],
             params={"side": "str", "phase": "str", "body": "bytes"},
             self_fields={"_key": "opt[bytes]", "_side": "str"}, replay={"driver": "trace_replay:run"},
             raises_exactly={"AssertionError": "not self._key",
                             "UnicodeEncodeError": "self._key is not None and len(self._key) > 0 and "
                                                   "(not is_ascii(side) or not is_ascii(phase))"},
             ensures=[("not-authentic-for-the-claimed-label-means-bad",
                       f"implies(not sbox_valid({K_MSG}, body), input_calls('got_message_bad') == 1 and "
                       "input_calls('got_message_good') == 0)"),
                      ("authentic-means-good-with-that-plaintext",
                       f"implies(sbox_valid({K_MSG}, body), input_calls('got_message_good') == 1 and "
                       "input_calls('got_message_bad') == 0 and input_arg('got_message_good', 0, 0) == phase and "
                       f"input_arg('got_message_good', 0, 1) == sbox_open({K_MSG}, body))"),
                      ("delivered-plaintext-was-sealed-for-claimed-side-and-phase",
                       "implies(input_calls('got_message_good') == 1, "
                       f"sealed(body, {K_MSG}, input_arg('got_message_good', 0, 1)))"),
                      ("no-other-call", "len(bcall_names()) == 0")],
             ensures_raise={"AssertionError": [("nothing-delivered", "input_calls('got_message_good') == 0")],
                            "UnicodeEncodeError": [("nothing-delivered", "input_calls('got_message_good') == 0")]},
             modifies=[],
             note="the key is derived from the side and phase the message CLAIMS (never our own side), so a re-labelled, "
                  "reflected or cross-phase-replayed body fails authentication unless it was sealed for exactly that label"),
    Contract("wormhole/_mailbox.py:Mailbox.rx_message", props=[PROP],
             params={"side": "str", "phase": "str", "body": "bytes"},
             self_fields={"_side": "str", "_O": "obj[IOrder]", "_processed": "set[str]", "_pending_outbound": "dict[str,bytes]"},
             replay={"driver": "trace_replay:run", "collaborators": {"_O": "IOrder"}},
             ensures=[("own-side-is-an-echo",
                       "implies(side == self._side, input_calls('rx_message_ours') == 1 and "
                       "input_calls('rx_message_theirs') == 0 and input_arg('rx_message_ours', 0, 0) == phase and "
                       "input_arg('rx_message_ours', 0, 1) == body)"),
                      ("other-side-goes-to-theirs-unchanged",
                       "implies(side != self._side, input_calls('rx_message_theirs') == 1 and "
                       "input_calls('rx_message_ours') == 0 and input_arg('rx_message_theirs', 0, 0) == side and "
                       "input_arg('rx_message_theirs', 0, 1) == phase and input_arg('rx_message_theirs', 0, 2) == body)"),
                      ("never-straight-to-order", "len(bcall_names()) == 0")],
             modifies=[]),
    Contract("wormhole/_mailbox.py:Mailbox.N_release_and_accept", props=[PROP],
             params={"side": "str", "phase": "str", "body": "bytes"},
             self_fields={"_processed": "set[str]", "_N": "obj[INameplate]", "_O": "obj[IOrder]", "_side": "str"},
             replay={"driver": "trace_replay:run", "collaborators": {"_N": "INameplate", "_O": "IOrder"}},
             ensures=[("seen-phase-is-dropped", "implies(phase in old(self._processed), bcall_names() == ['release'])"),
                      ("new-phase-forwarded-once-unchanged",
                       "implies(phase not in old(self._processed), bcall_names() == ['release', 'got_message'] and "
                       "bcall_arg('got_message', 0, 0) == side and bcall_arg('got_message', 0, 1) == phase and "
                       "bcall_arg('got_message', 0, 2) == body)"),
                      ("processed-grows-by-this-phase",
                       "forall(lambda p: (p in self._processed) == (p in old(self._processed) or p == phase), 'str')")],
             modifies=["_processed"],
             note="a phase string is forwarded to Order at most once per Mailbox"),
    Contract("wormhole/_boss.py:Boss.got_message", props=[PROP], params={"phase": "str", "plaintext": "bytes"},
             self_fields={"_next_rx_phase": "int", "_rx_phases": "dict[int,bytes]", "_next_rx_dilate_seqnum": "int",
                          "_rx_dilate_seqnums": "dict[int,bytes]", "_result": "str"},
             replay={"driver": "trace_replay:run"},
             ensures=[("version", "implies(phase == 'version', trace_order() == ['input:_got_version'] and "
                                  "input_arg('_got_version', 0, 0) == plaintext)"),
                      ("dilate-N", "implies(is_dilate_phase(phase), trace_order() == ['input:_got_dilate'] and "
                                   "input_arg('_got_dilate', 0, 0) == decimal_value(phase[7:]) and "
                                   "input_arg('_got_dilate', 0, 1) == plaintext)"),
                      ("numeric", "implies(is_numeric_phase(phase), trace_order() == ['input:_got_phase'] and "
                                  "input_arg('_got_phase', 0, 0) == decimal_value(phase) and "
                                  "input_arg('_got_phase', 0, 1) == plaintext)"),
                      ("anything-else-ignored",
                       "implies(phase != 'version' and not is_dilate_phase(phase) and not is_numeric_phase(phase), "
                       "len(trace_order()) == 0)")],
             modifies=[],
             note="numeric means Python's ^\\d+$: a run of decimal digits, optionally followed by one newline; so '7', '07' and "
                  "'7\\n' all name phase 7 (only a key holder can make Receive accept any of them: each has its own phase key)"),
    Contract("wormhole/_boss.py:Boss.W_received", props=[PROP], params={"phase": "int", "plaintext": "bytes"},
             self_fields={"_rx_phases": "dict[int,bytes]", "_next_rx_phase": "int", "_W": "obj[IWormhole]"},
             requires=["self._next_rx_phase not in self._rx_phases"],
             internal_ensures=[
                 ("gap-means-nothing-delivered",
                  "implies(phase != old(self._next_rx_phase), len(delivered) == 0 and "
                  "self._next_rx_phase == old(self._next_rx_phase))"),
                 ("expected-phase-delivered-first",
                  "implies(phase == old(self._next_rx_phase), len(delivered) >= 1 and delivered[0] == plaintext)"),
                 ("counter-advances-by-deliveries",
                  "self._next_rx_phase == old(self._next_rx_phase) + len(delivered)"),
                 ("delivered-in-phase-order-from-the-buffer",
                  "forall(lambda j: implies(0 <= j and j < len(delivered), delivered[j] == "
                  "ite(old(self._next_rx_phase) + j == phase, plaintext, old(self._rx_phases)[old(self._next_rx_phase) + j])))"),
                 ("delivered-came-from-the-buffer-or-are-this-message",
                  "forall(lambda j: implies(0 <= j and j < len(delivered), old(self._next_rx_phase) + j == phase or "
                  "old(self._next_rx_phase) + j in old(self._rx_phases)))"),
                 ("buffer-keeps-the-rest",
                  "forall(lambda k: (k in self._rx_phases) == ((k in old(self._rx_phases) or k == phase) and "
                  "not (old(self._next_rx_phase) <= k and k < self._next_rx_phase)))"),
                 ("buffered-bodies-unmodified",
                  "forall(lambda k: implies(k in self._rx_phases, self._rx_phases[k] == "
                  "ite(k == phase, plaintext, old(self._rx_phases)[k])))"),
                 ("next-phase-not-buffered", "self._next_rx_phase not in self._rx_phases")],
             modifies=["_rx_phases", "_next_rx_phase"],
             loops={0: {"header": "self._next_rx_phase in self._rx_phases",
                        "ghost_init": {"delivered": 'empty_seq("bytes")'},
                        "ghost_update": {"delivered": "delivered + [iter_bcall_arg('received', 0)]"},
                        "body_ensures": ["iter_bcall_arg('received', 0) == at_iter(self._rx_phases)[at_iter(self._next_rx_phase)]"],
                        "invariant": [
                            "self._next_rx_phase == at_entry(self._next_rx_phase) + len(delivered)",
                            "implies(phase != at_entry(self._next_rx_phase), len(delivered) == 0)",
                            "forall(lambda j: implies(0 <= j and j < len(delivered), delivered[j] == "
                            "at_entry(self._rx_phases)[at_entry(self._next_rx_phase) + j]))",
                            "forall(lambda k: (k in self._rx_phases) == (k in at_entry(self._rx_phases) and "
                            "not (at_entry(self._next_rx_phase) <= k and k < self._next_rx_phase)))",
                            "forall(lambda j: implies(0 <= j and j < len(delivered), "
                            "at_entry(self._next_rx_phase) + j in at_entry(self._rx_phases)))",
                            "forall(lambda k: implies(k in self._rx_phases, self._rx_phases[k] == at_entry(self._rx_phases)[k]))",
                        ]}},
             note="reorder buffer: W.received is called for phase n only when n == _next_rx_phase, which then moves on; "
                  "`delivered` is the ghost sequence of the arguments of W.received in this call"),
]


def regf(exclude=()):
    reg = make_registry()
    install_trace_funcs(reg)
    register_classes(reg, ["wormhole/errors.py"])
    whmodels.install_crypto(reg)
    whmodels.install_boss_dispatch(reg)
    whmodels.install_axiom_instances(reg)
    whmodels.install_iter_funcs(reg)
    for c in WC.SHARED + CONTRACTS:
        if c.target not in exclude:
            reg.contracts[c.target] = c
    reg.input_as_boundary = True
    return reg


def _f_tasks():
    return [ContractTask(c, regf) for c in CONTRACTS]


def select_m(name):
    """C02's share of the machine-level obligations (mailbox-cluster engine, real tables and output bodies): an echo of our
    own message never reaches Order, each phase string is handed on once (the dedup set never loses a phase, also across
    reconnects), side and phase reach Order as the server message carried them, a peer message that does not decrypt
    ends in WrongPasswordError, and nothing is delivered to the application without a successful decrypt"""
    return name.startswith("post:C02:") or name.startswith("post:C01:") or \
        name in ("post:C08:verdict-scary-justified", "nodom:Order.got_pake@S1_yes_pake")


def tasks():
    """function-level tasks plus the machine-level obligations of this property"""
    import os
    from pyvc.mrun import ClusterTask
    from .mailbox_ready import CLUSTER_READY
    if not CLUSTER_READY or os.environ.get("VERIF_NO_CLUSTER"):
        return _f_tasks()
    return _f_tasks() + [ClusterTask("mailbox-cluster", "props.mailbox", "engine", select_m, "mailbox_history:search")]


TRUSTED = ["z3/cvc5", "pyvc semantics of the Python subset (bytes as code-point strings, sets/dicts as arrays)"] + \
    whmodels.TRUSTED_CRYPTO + [
    "re.search of the two literal phase patterns as encoded in pyvc/regex.py; Match.group(1) of '^dilate-(\\d+)$' is the "
    "digit run; int() of an ASCII digit string (optionally followed by one newline) is its decimal value"]
ASSUMPTIONS = [
    "AEAD strength (that nobody without the key produces an accepted ciphertext) is cryptographic: what is proved is which "
    "key every delivered plaintext was authenticated under",
    "lemma label_determines_key assumes, for its arguments, sha256 collision freedom and that HKDF separates different info strings",
    "Automat inputs called inside the function-level contracts are boundaries (recorded, not dispatched); which output runs in "
    "which state is decided by the machine-level obligations post:C02:* / post:C01:* over the real transition tables "
    "(mailbox-cluster engine, environment contract E1-E5 of DESIGN 3.3)",
    "Boss.W_received requires the class invariant '_next_rx_phase not in _rx_phases' (it re-establishes it)",
]
