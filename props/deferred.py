"""@inlineCallbacks generators: the meaning of `yield X` (hooked in through reg.yield_model).

Assumption (Twisted): the generator is resumed exactly once per fired Deferred, with the
Deferred's result (or the failure raised at the yield); while it is suspended any other
handler may run, so every field of `self` that the property module does not declare
*stable* is havocked at each yield of a Deferred.  A yielded value that is not a Deferred
is sent straight back (no suspension).  `return x` ends the generator (its Deferred fires
with x); an exception that leaves the body is the errback.

A Deferred produced by a boundary call carries the key of the call that produced it
("RecordPipe.writeToFile"); `reg.deferred_results[key]` is its *deferred-result contract*:
a handler (it, d, fr) that returns the fresh result (assuming what the contract promises)
or raises one of the listed failures (fork with it.ctx.choose).
"""
from pyvc.values import *   # noqa


def make_deferred(origin, **info):
    d = VObj("Deferred", {})
    d.origin = origin
    d.info = info
    return d


def producing(origin, **static):
    """boundary handler for a method that returns a Deferred"""
    def h(it, recv, meth, args, kwargs, fr):
        cls = recv.cls if isinstance(recv, VObj) else recv.name
        it.ctx.event("bcall", cls, meth, list(args), dict(kwargs))
        return make_deferred(origin, recv=recv, args=list(args), kwargs=dict(kwargs), **static)
    return h


def havoc_unstable(it, fr):
    f = fr
    while f is not None and f.selfobj is None:
        f = f.parent
    if f is None:
        return
    o = f.selfobj
    stable = it.reg.stable_fields.get(o.cls)
    if stable is None:
        raise OutOfSubset(f"yield inside a method of {o.cls}: no stable-field declaration")
    for name in list(o.fields):
        if name in stable:
            continue
        it.havoc_target(("self", name), f)


def yield_model(it, node, fr):
    v = it.force(it.eval(node.value, fr)) if node.value is not None else NONE
    if isinstance(v, VObj) and v.cls == "Deferred":
        origin = getattr(v, "origin", None)
        h = it.reg.deferred_results.get(origin)
        if h is None:
            raise OutOfSubset(f"yield of a Deferred produced by {origin!r}: no deferred-result contract")
        havoc_unstable(it, fr)
        it.ctx.event("yield", origin)
        return h(it, v, fr)
    return v


def install(reg, results, stable):
    reg.allow_generators = True
    reg.yield_model = yield_model
    reg.deferred_results = dict(results)
    reg.stable_fields = {k: set(v) for k, v in stable.items()}
