"""C03 - mailbox messages arrive in order, exactly once, unmodified.

Sender side: the k-th send_message is labelled phase str(k) and handed to the mailbox exactly
once, in order, sealed under its own label; it stays in _pending_outbound (and is re-added on
every new connection) until the server echoes it.  Receiver side: each phase passes the
Mailbox once, Order and Receive keep arrival order, the Boss hands phase n to the application
iff n is the next one.  The receiver-side reorder buffer, the dedup and the labelling of what
is sealed/opened are proved in C02's module (Boss.W_received, Mailbox.N_release_and_accept,
Mailbox.rx_message, Receive.got_message, Send._encrypt_and_send): those tasks are run here
too.  This module adds the numbering and the FIFO queues."""
import z3

from pyvc.contract import Contract
from pyvc.runner import ContractTask
from pyvc.values import *   # noqa
from pyvc.interp import int_to_str
from . import c02
from .common import register_classes
from .transit_lib import BodyLemma

PROP = "C03"

QS = "seq[tuple[str,bytes]]"
QO = "seq[tuple[str,str,bytes]]"

CONTRACTS = [
    Contract("wormhole/_boss.py:Boss.S_send", props=[PROP], params={"plaintext": "bytes"},
             self_fields={"_next_tx_phase": "int", "_S": "obj[ISend]"}, requires=["self._next_tx_phase >= 0"],
             modifies=["_next_tx_phase"],
             ensures=[("next-number-advances-by-one", "self._next_tx_phase == old(self._next_tx_phase) + 1")],
             effects=[("send", ["int_str(old(self._next_tx_phase))", "plaintext"])],
             note="the k-th send_message() is handed to Send exactly once, labelled with the decimal numeral of k, body unchanged"),
    Contract("wormhole/_boss.py:Boss._init_other_state", props=[PROP], params={}, self_fields={},
             ensures=[("numbering-starts-at-zero", "self._next_tx_phase == 0 and self._next_rx_phase == 0"),
                      ("reorder-buffer-starts-empty", "len(self._rx_phases) == 0"),
                      ("dilation-buffer-starts-empty-and-at-zero",
                       "self._next_rx_dilate_seqnum == 0 and len(self._rx_dilate_seqnums) == 0")],
             modifies=["_did_start_code", "_next_tx_phase", "_next_rx_phase", "_rx_phases", "_next_rx_dilate_seqnum",
                       "_rx_dilate_seqnums", "_result"],
             note="the application reorder buffer is a fresh object of its own (frame.no-aliasing): the contracts on W_received "
                  "and on the Dilator's buffer each speak about their own dict, so sharing one dict would let a dilate-N record "
                  "be delivered as application message N"),
    Contract("wormhole/_send.py:Send.queue", props=[PROP], params={"phase": "str", "plaintext": "bytes"},
             self_fields={"_queue": QS}, modifies=["_queue"],
             ensures=[("appended-at-the-end", "self._queue == old(self._queue) + [(phase, plaintext)]")]),
    Contract("wormhole/_send.py:Send.drain", props=[PROP], params={"key": "bytes"},
             self_fields={"_queue": QS, "_key": "bytes", "_side": "str", "_M": "obj[IMailbox]"}, modifies=["_queue"],
             requires=["len(self._key) > 0", "is_ascii(self._side)",
                       "forall(lambda i: implies(0 <= i and i < len(self._queue), is_ascii(self._queue[i][0])))"],
             ensures=[("queue-emptied", "len(self._queue) == 0")],
             internal_ensures=[("every-queued-message-sent-once-in-order",
                                "len(sent) == len(old(self._queue)) and forall(lambda j: implies(0 <= j and j < len(sent), "
                                "sent[j] == old(self._queue)[j]))")],
             loops={0: {"header": "for (phase, plaintext) in self._queue",
                        "ghost_init": {"sent": f'empty_seq("tuple[str,bytes]")'},
                        "ghost_update": {"sent": "sent + [(iter_bcall_arg('add_message', 0), plaintext)]"},
                        "body_ensures": ["iter_bcall_arg('add_message', 0) == at_entry(self._queue)[_i - 1][0]",
                                         "plaintext == at_entry(self._queue)[_i - 1][1]",
                                         "sealed(iter_bcall_arg('add_message', 1), phase_key(self._key, self._side, "
                                         "at_entry(self._queue)[_i - 1][0]), at_entry(self._queue)[_i - 1][1])"],
                        "invariant": ["self._queue == at_entry(self._queue)", "len(sent) == _i",
                                      "forall(lambda j: implies(0 <= j and j < _i, sent[j] == at_entry(self._queue)[j]))"]}},
             note="messages queued before the key was verified go out in the order they were queued, each exactly once, each "
                  "sealed under its own phase label (the real _encrypt_and_send body is executed in the loop)"),
    Contract("wormhole/_send.py:Send.deliver", props=[PROP], params={"phase": "str", "plaintext": "bytes"},
             self_fields={"_key": "bytes", "_side": "str", "_M": "obj[IMailbox]"},
             requires=["len(self._key) > 0", "is_ascii(self._side)", "is_ascii(phase)"],
             ensures=[("one-add_message-with-this-label", "bcall_names() == ['add_message'] and bcall_arg('add_message', 0, 0) == phase"),
                      ("sealed-under-its-own-label",
                       "sealed(bcall_arg('add_message', 0, 1), phase_key(self._key, self._side, phase), plaintext)")]),
    Contract("wormhole/_order.py:Order.queue", props=[PROP], params={"side": "str", "phase": "str", "body": "bytes"},
             self_fields={"_queue": QO}, modifies=["_queue"],
             ensures=[("appended-at-the-end", "self._queue == old(self._queue) + [(side, phase, body)]")]),
    Contract("wormhole/_order.py:Order.drain", props=[PROP], params={"side": "str", "phase": "str", "body": "bytes"},
             self_fields={"_queue": QO, "_R": "obj[IReceive]"}, modifies=["_queue"],
             ensures=[("queue-emptied", "len(self._queue) == 0")],
             internal_ensures=[("every-queued-message-forwarded-once-in-arrival-order",
                                "len(fwd) == len(old(self._queue)) and forall(lambda j: implies(0 <= j and j < len(fwd), "
                                "fwd[j] == old(self._queue)[j]))")],
             loops={0: {"header": "for (side, phase, body) in self._queue",
                        "ghost_init": {"fwd": 'empty_seq("tuple[str,str,bytes]")'},
                        "ghost_update": {"fwd": "fwd + [(iter_bcall_arg('got_message', 0), iter_bcall_arg('got_message', 1), "
                                                "iter_bcall_arg('got_message', 2))]"},
                        "body_ensures": ["iter_bcall_arg('got_message', 0) == at_entry(self._queue)[_i - 1][0]",
                                         "iter_bcall_arg('got_message', 1) == at_entry(self._queue)[_i - 1][1]",
                                         "iter_bcall_arg('got_message', 2) == at_entry(self._queue)[_i - 1][2]"],
                        "invariant": ["self._queue == at_entry(self._queue)", "len(fwd) == _i",
                                      "forall(lambda j: implies(0 <= j and j < _i, fwd[j] == at_entry(self._queue)[j]))"]}},
             note="messages that arrived before the PAKE are forwarded to Receive in arrival order, unmodified, once each"),
    Contract("wormhole/_order.py:Order.deliver", props=[PROP], params={"side": "str", "phase": "str", "body": "bytes"},
             self_fields={"_R": "obj[IReceive]"},
             effects=[("got_message", ["side", "phase", "body"])]),
    Contract("wormhole/_mailbox.py:Mailbox.queue", props=[PROP], params={"phase": "str", "body": "bytes"},
             self_fields={"_pending_outbound": "dict[str,bytes]"}, modifies=["_pending_outbound"],
             ensures=[("pending-until-echoed", "phase in self._pending_outbound and self._pending_outbound[phase] == body"),
                      ("others-kept", "forall(lambda p: implies(p != phase, (p in self._pending_outbound) == "
                                      "(p in old(self._pending_outbound)) and implies(p in self._pending_outbound, "
                                      "self._pending_outbound[p] == old(self._pending_outbound)[p])), 'str')")]),
    Contract("wormhole/_mailbox.py:Mailbox.dequeue", props=[PROP], params={"phase": "str", "body": "bytes"},
             self_fields={"_pending_outbound": "dict[str,bytes]"}, modifies=["_pending_outbound"],
             ensures=[("echoed-phase-retired", "phase not in self._pending_outbound"),
                      ("only-that-phase", "forall(lambda p: implies(p != phase, (p in self._pending_outbound) == "
                                          "(p in old(self._pending_outbound))), 'str')")],
             note="a message leaves the re-send set only when the server echoes OUR message of that phase"),
    Contract("wormhole/_mailbox.py:Mailbox.RC_tx_add", props=[PROP], params={"phase": "str", "body": "bytes"},
             self_fields={"_RC": "obj[IRendezvousConnector]"},
             effects=[("tx_add", ["phase", "body"])]),
]


# ---------------------------------------------------------------------------------------------------------------
# The hops between the functions above, each verified THROUGH THE REAL TRANSITION TABLE of its machine (state set
# first, then the row's outputs in order, real bodies; an input without a row raises NoTransition as Automat does).
# A row that loses / gains an output, an output attached to the wrong state, or a body that passes something else
# on fails here.  The Mailbox side of add_message / rx_message_ours is C09's (same technique), run here too.
BOSS = "wormhole/_boss.py:Boss."
BOSS_FIELDS = {"__state": "state", "_next_tx_phase": "int", "_S": "obj[ISend]", "_rx_phases": "dict[int,bytes]",
               "_next_rx_phase": "int", "_W": "obj[IWormhole]"}
B_OPEN = "'S0_empty', 'S1_lonely', 'S2_happy'"
B_DONE = "'S3_closing', 'S4_closed'"
RX_KEPT = ("self._next_rx_phase == old(self._next_rx_phase) and forall(lambda k: (k in self._rx_phases) == "
           "(k in old(self._rx_phases)) and implies(k in self._rx_phases, self._rx_phases[k] == old(self._rx_phases)[k]))")
STATE_KEPT = ("state-kept", "state_index(self) == old(state_index(self))")

SEND_FIELDS = {"__state": "state", "_queue": QS, "_key": "bytes", "_side": "str", "_M": "obj[IMailbox]"}
ORDER_FIELDS = {"__state": "state", "_queue": QO, "_R": "obj[IReceive]", "_K": "obj[IKey]"}
RECV_FIELDS = {"__state": "state", "_key": "bytes", "_side": "str", "_S": "obj[ISend]", "_B": "obj[IBoss]"}
MB_FIELDS = {"__state": "state", "_pending_outbound": "dict[str,bytes]", "_mailbox": "opt[str]", "_mood": "opt[str]",
             "_side": "str", "_processed": "set[str]",
             "_RC": "obj[IRendezvousConnector]", "_N": "obj[INameplate]", "_O": "obj[IOrder]", "_T": "obj[ITerminator]"}
PROCESSED_KEPT = "forall(lambda p: (p in self._processed) == (p in old(self._processed)), 'str')"

MACHINE_CONTRACTS = [
    # ------------------------------------------------------------------ API -> numbering
    Contract(BOSS + "send", props=[PROP], params={"plaintext": "bytes"}, self_fields=BOSS_FIELDS,
             requires=["self._next_tx_phase >= 0"], modifies=["__state", "_next_tx_phase"],
             ensures=[("one-number-per-message-until-closing",
                       f"self._next_tx_phase == old(self._next_tx_phase) + ite(old(in_state(self, {B_OPEN})), 1, 0)"),
                      STATE_KEPT],
             internal_ensures=[
                 ("numbered-and-handed-to-Send-once-unchanged",
                  f"implies(old(in_state(self, {B_OPEN})), bcall_names() == ['send'] and "
                  "bcall_arg('send', 0, 0) == int_str(old(self._next_tx_phase)) and bcall_arg('send', 0, 1) == plaintext)"),
                 ("nothing-sent-once-closing", f"implies(old(in_state(self, {B_DONE})), len(bcall_names()) == 0)")],
             note="Boss.send in every state: S_send (by its contract) runs exactly in S0/S1/S2; after close() started the "
                  "message is dropped and no number is used up"),
    Contract(BOSS + "_got_phase", props=[PROP], params={"phase": "int", "plaintext": "bytes"}, self_fields=BOSS_FIELDS,
             requires=["self._next_rx_phase not in self._rx_phases"],
             raises_exactly={"NoTransition": "in_state(self, 'S0_empty', 'S1_lonely')"},
             modifies=["__state", "_rx_phases", "_next_rx_phase"],
             ensures=[("dropped-once-closing", f"implies(old(in_state(self, {B_DONE})), {RX_KEPT})"), STATE_KEPT],
             internal_ensures=[
                 ("reorder-buffer-runs-exactly-when-happy-with-this-phase-and-body",
                  "n_calls('Boss.W_received') == ite(old(in_state(self, 'S2_happy')), 1, 0) and "
                  "implies(old(in_state(self, 'S2_happy')), call_arg('Boss.W_received', 0, 1) == phase and "
                  "call_arg('Boss.W_received', 0, 2) == plaintext)"),
                 ("nothing-else-happens", "len(bcall_names()) == 0")],
             ensures_raise={"NoTransition": [("nothing-happened", "n_calls('Boss.W_received') == 0 and len(bcall_names()) == 0")]},
             note="W_received is applied through its contract (proved on the real loop in C02's module)"),
    BodyLemma("lemma:numeric_phase_reaches_the_reorder_buffer_once_unchanged", BOSS + "got_message", props=[PROP],
              params={"phase": "str", "plaintext": "bytes"}, self_fields=BOSS_FIELDS,
              requires=["is_numeric_phase(phase)", "self._next_rx_phase not in self._rx_phases",
                        "in_state(self, 'S2_happy', 'S3_closing', 'S4_closed')"],
              modifies=["__state", "_rx_phases", "_next_rx_phase"],
              ensures=[("exactly-one-W_received-with-the-decimal-value-and-the-same-plaintext-when-happy",
                        "n_calls('Boss.W_received') == ite(old(in_state(self, 'S2_happy')), 1, 0) and "
                        "implies(old(in_state(self, 'S2_happy')), call_arg('Boss.W_received', 0, 1) == decimal_value(phase) and "
                        "call_arg('Boss.W_received', 0, 2) == plaintext)"),
                       ("dropped-once-closing", f"implies(old(in_state(self, {B_DONE})), {RX_KEPT})"),
                       ("nothing-else-happens", "len(bcall_names()) == 0")],
              note="the real chain Boss.got_message -> _got_phase (real transition table) -> W_received (contract)"),
    # ------------------------------------------------------------------ Send: queue before the key, deliver after
    Contract("wormhole/_send.py:Send.send", props=[PROP], params={"phase": "str", "plaintext": "bytes"},
             self_fields=SEND_FIELDS, modifies=["__state", "_queue"],
             requires=["implies(in_state(self, 'S1_verified_key'), len(self._key) > 0)", "is_ascii(self._side)", "is_ascii(phase)"],
             ensures=[("queued-at-the-end-before-the-key", "implies(old(in_state(self, 'S0_no_key')), "
                                                          "self._queue == old(self._queue) + [(phase, plaintext)])"),
                      ("queue-untouched-after-the-key", "implies(old(in_state(self, 'S1_verified_key')), "
                                                        "self._queue == old(self._queue))"),
                      STATE_KEPT],
             internal_ensures=[
                 ("nothing-sent-before-the-key", "implies(old(in_state(self, 'S0_no_key')), len(bcall_names()) == 0)"),
                 ("sent-at-once-after-the-key-sealed-under-its-own-label",
                  "implies(old(in_state(self, 'S1_verified_key')), bcall_names() == ['add_message'] and "
                  "bcall_arg('add_message', 0, 0) == phase and "
                  "sealed(bcall_arg('add_message', 0, 1), phase_key(self._key, self._side, phase), plaintext))")],
             note="real bodies of queue / deliver / _encrypt_and_send through the table; key functions by contract"),
    Contract("wormhole/_send.py:Send.got_verified_key", props=[PROP], params={"key": "bytes"},
             self_fields=SEND_FIELDS, modifies=["__state", "_queue", "_key"],
             requires=["len(key) > 0", "is_ascii(self._side)",
                       "forall(lambda i: implies(0 <= i and i < len(self._queue), is_ascii(self._queue[i][0])))"],
             raises_exactly={"NoTransition": "in_state(self, 'S1_verified_key')"},
             ensures=[("key-recorded-and-queue-flushed", "self._key == key and len(self._queue) == 0"),
                      ("now-delivering-directly", "in_state(self, 'S1_verified_key')")],
             internal_ensures=[("flushed-by-drain-after-the-key-was-recorded",
                                "n_calls('Send.drain') == 1 and call_arg('Send.drain', 0, 0)._key == key")],
             note="record_key runs before drain (row order), so drain's contract (every queued message once, in order, each "
                  "under its own label, proved on the real loop) is applied with the verified key"),
    # ------------------------------------------------------------------ Mailbox: dedup on the way in
    Contract("wormhole/_mailbox.py:Mailbox.rx_message_theirs", props=[PROP],
             params={"side": "str", "phase": "str", "body": "bytes"}, self_fields=MB_FIELDS,
             modifies=["__state", "_processed"],
             raises_exactly={"NoTransition": "in_state(self, 'S0A', 'S0B', 'S1A', 'S2A', 'S3A')"},
             ensures=[("phase-remembered-while-open",
                       "implies(old(in_state(self, 'S2B')), forall(lambda p: (p in self._processed) == "
                       "(p in old(self._processed) or p == phase), 'str'))"),
                      ("untouched-once-closing", f"implies(not old(in_state(self, 'S2B')), {PROCESSED_KEPT})"), STATE_KEPT],
             internal_ensures=[
                 ("new-phase-forwarded-once-unchanged",
                  "implies(old(in_state(self, 'S2B')) and phase not in old(self._processed), "
                  "bcall_names() == ['release', 'got_message'] and bcall_arg('got_message', 0, 0) == side and "
                  "bcall_arg('got_message', 0, 1) == phase and bcall_arg('got_message', 0, 2) == body)"),
                 ("seen-phase-not-forwarded-again",
                  "implies(old(in_state(self, 'S2B')) and phase in old(self._processed), bcall_names() == ['release'])"),
                 ("nothing-forwarded-once-closing", "implies(not old(in_state(self, 'S2B')), len(bcall_names()) == 0)")],
             ensures_raise={"NoTransition": [("nothing-forwarded", "len(bcall_names()) == 0")]},
             note="exactly once: a phase string reaches Order at most once per Mailbox, whatever the server repeats"),
    # ------------------------------------------------------------------ Order: hold back until the PAKE, then FIFO
    Contract("wormhole/_order.py:Order.got_message", props=[PROP], params={"side": "str", "phase": "str", "body": "bytes"},
             self_fields=ORDER_FIELDS, modifies=["__state", "_queue"],
             raises_exactly={"NoTransition": "phase == 'pake' and in_state(self, 'S1_yes_pake')"},
             ensures=[("held-back-in-arrival-order-before-the-pake",
                       "implies(phase != 'pake' and old(in_state(self, 'S0_no_pake')), "
                       "self._queue == old(self._queue) + [(side, phase, body)] and in_state(self, 'S0_no_pake'))"),
                      ("queue-untouched-after-the-pake",
                       "implies(phase != 'pake' and old(in_state(self, 'S1_yes_pake')), self._queue == old(self._queue) and "
                       "in_state(self, 'S1_yes_pake'))"),
                      ("pake-flushes-the-queue", "implies(phase == 'pake', len(self._queue) == 0 and in_state(self, 'S1_yes_pake'))")],
             internal_ensures=[
                 ("nothing-forwarded-before-the-pake",
                  "implies(phase != 'pake' and old(in_state(self, 'S0_no_pake')), len(bcall_names()) == 0)"),
                 ("forwarded-once-unchanged-after-the-pake",
                  "implies(phase != 'pake' and old(in_state(self, 'S1_yes_pake')), bcall_names() == ['got_message'] and "
                  "bcall_arg('got_message', 0, 0) == side and bcall_arg('got_message', 0, 1) == phase and "
                  "bcall_arg('got_message', 0, 2) == body)"),
                 ("pake-goes-to-Key-then-the-held-back-messages-are-drained",
                  "implies(phase == 'pake', bcall_names() == ['got_pake'] and bcall_arg('got_pake', 0, 0) == body and "
                  "n_calls('Order.drain') == 1)")],
             ensures_raise={"NoTransition": [("nothing-forwarded", "len(bcall_names()) == 0")]},
             note="drain is applied through its contract (every held-back message forwarded once, in arrival order, proved on "
                  "the real loop); a second pake cannot arrive (the Mailbox forwards each phase string once)"),
    # ------------------------------------------------------------------ Receive: good message -> Boss, unchanged
    Contract("wormhole/_receive.py:Receive.got_message_good", props=[PROP], params={"phase": "str", "plaintext": "bytes"},
             self_fields=RECV_FIELDS, modifies=["__state"],
             requires=["len(self._key) == 32"],
             raises_exactly={"NoTransition": "in_state(self, 'S0_unknown_key')"},
             ensures=[("verified-unless-scared", "in_state(self, 'S2_verified_key') == (not old(in_state(self, 'S3_scared')))")],
             internal_ensures=[
                 ("handed-to-Boss-exactly-once-unchanged-unless-scared",
                  "bcalls('got_message') == ite(old(in_state(self, 'S3_scared')), 0, 1) and "
                  "implies(not old(in_state(self, 'S3_scared')), bcall_arg('got_message', 0, 0) == phase and "
                  "bcall_arg('got_message', 0, 1) == plaintext and bcall_names()[len(bcall_names()) - 1] == 'got_message')"),
                 ("first-good-message-makes-the-Boss-happy-before-it-is-delivered",
                  "implies(old(in_state(self, 'S1_unverified_key')), "
                  "bcall_names() == ['got_verified_key', 'happy', 'got_verifier', 'got_message'] and "
                  "bcall_arg('got_verified_key', 0, 0) == self._key)"),
                 ("later-good-messages-only-delivered", "implies(old(in_state(self, 'S2_verified_key')), bcall_names() == ['got_message'])"),
                 ("scared-delivers-nothing", "implies(old(in_state(self, 'S3_scared')), len(bcall_names()) == 0)")],
             ensures_raise={"NoTransition": [("nothing-delivered", "len(bcall_names()) == 0")]},
             note="after a bad message (S3_scared) nothing is ever delivered again; `happy` precedes the first delivery, so the "
                  "Boss is in S2_happy (or closing) when _got_phase arrives"),
    # ------------------------------------------------------------------ the API ends
    Contract("wormhole/wormhole.py:_DeferredWormhole.send_message", props=[PROP], params={"plaintext": "bytes"},
             self_fields={"_boss": "obj[IBoss]"}, effects=[("send", ["plaintext"])]),
    Contract("wormhole/wormhole.py:_DelegatedWormhole.send_message", props=[PROP], params={"plaintext": "bytes"},
             self_fields={"_boss": "obj[IBoss]"}, effects=[("send", ["plaintext"])]),
    Contract("wormhole/wormhole.py:_DelegatedWormhole.received", props=[PROP], params={"plaintext": "bytes"},
             self_fields={"_delegate": "obj[Delegate]"}, effects=[("wormhole_got_message", ["plaintext"])],
             note="delegated mode: each W.received becomes exactly one wormhole_got_message with the same bytes, synchronously "
                  "(so in the order of the reorder buffer)"),
]


def regf_machine():
    """registry for the contracts verified through the real transition tables: the tiny outputs (Send.queue/deliver,
    Order.queue/deliver, Mailbox.N_release_and_accept, ...) are executed, the loops (Send.drain, Order.drain,
    Boss.W_received) and the key functions are used through their contracts"""
    from pyvc.automat import AutomatSupport
    reg = regf(exclude=("wormhole/_send.py:Send.queue", "wormhole/_send.py:Send.deliver", "wormhole/_order.py:Order.queue",
                        "wormhole/_order.py:Order.deliver", "wormhole/_mailbox.py:Mailbox.N_release_and_accept",
                        "wormhole/_mailbox.py:Mailbox.queue", "wormhole/_mailbox.py:Mailbox.dequeue",
                        "wormhole/_mailbox.py:Mailbox.RC_tx_add", "wormhole/_boss.py:Boss.got_message",
                        "wormhole/_receive.py:Receive.got_message", "wormhole/_mailbox.py:Mailbox.rx_message"))
    register_classes(reg, ["wormhole/_boss.py", "wormhole/_send.py", "wormhole/_order.py", "wormhole/_receive.py",
                           "wormhole/_mailbox.py", "wormhole/wormhole.py"])
    reg.input_as_boundary = False
    reg.automat = AutomatSupport()
    reg.automat.notransition_raises = True
    for c in MACHINE_CONTRACTS:
        reg.contracts[c.target] = c
    sf = reg.spec_funcs
    sf["state_index"] = lambda it, o: VInt(it.force(o).fields["__state"].z)
    sf["n_calls"] = lambda it, suffix: VInt(sum(1 for e in it.ctx.trace if e[0] == "call" and e[1][0].endswith(it.concrete(suffix))))
    return reg


def regf(exclude=()):
    reg = c02.regf(exclude=("wormhole/_send.py:Send._encrypt_and_send",) + tuple(exclude))
    for c in CONTRACTS:
        if c.target not in exclude:
            reg.contracts[c.target] = c
    reg.spec_funcs["int_str"] = lambda it, n: VStr(int_to_str(n.z), "str")
    return reg


def tasks():
    mine = [ContractTask(c, regf) for c in CONTRACTS]
    shared = [t for t in c02.tasks() if t.contract.target.endswith(("Boss.W_received", "Mailbox.N_release_and_accept",
                                                                    "Mailbox.rx_message", "Boss.got_message",
                                                                    "Receive.got_message", "Send._encrypt_and_send"))]
    # get_message() hands the received messages to the application through SequenceObserver and the eventual
    # queue: C18's contracts on them (FIFO pairing, every hand-over goes through the queue) are part of "in order"
    from . import c18
    obs = [t for t in c18._f_tasks() if getattr(t, "contract", None) is not None and
           ("SequenceObserver." in t.contract.target or "EventualQueue." in t.contract.target or
            t.contract.target.endswith(("_DeferredWormhole.received", "_DeferredWormhole.get_message")))]
    machine = [ContractTask(c, regf_machine) for c in MACHINE_CONTRACTS]
    return mine + machine + shared + obs


TRUSTED = c02.TRUSTED
ASSUMPTIONS = [
    "the server stores what it was given and AEAD makes anything else undeliverable (C02); prefix-becomes-whole (liveness) is not decided",
    "Mailbox._drain (re-adding every pending message on a new connection) and the rows that attach these outputs are checked by "
    "the mailbox-cluster engine (post:C09:*:pending-resubmitted, C14 tables), not here",
    "composition lemma 'received is a prefix of sent' is argued from these contracts (numbering + FIFO queues + dedup + reorder "
    "buffer + label-bound keys); it is not a single machine-checked obligation",
]
