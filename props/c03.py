"""C03 - mailbox messages arrive in order, exactly once, unmodified.

Sender side: the k-th send_message is labelled phase str(k) and handed to the mailbox exactly
once, in order, sealed under its own label; it stays in _pending_outbound (and is re-added on
every new connection) until the server echoes it.  Receiver side: each phase passes the
Mailbox once, Order and Receive keep arrival order, the Boss hands phase n to the application
iff n is the next one.  The receiver-side reorder buffer, the dedup and the labelling of what
is sealed/opened are proved in C02's module (Boss.W_received, Mailbox.N_release_and_accept,
Mailbox.rx_message, Receive.got_message, Send._encrypt_and_send): those tasks are run here
too.  This module adds the numbering and the FIFO queues."""
import z3

from pyvc.contract import Contract
from pyvc.runner import ContractTask
from pyvc.values import *   # noqa
from pyvc.interp import int_to_str
from . import c02

PROP = "C03"

QS = "seq[tuple[str,bytes]]"
QO = "seq[tuple[str,str,bytes]]"

CONTRACTS = [
    Contract("wormhole/_boss.py:Boss.S_send", props=[PROP], params={"plaintext": "bytes"},
             self_fields={"_next_tx_phase": "int", "_S": "obj[ISend]"}, requires=["self._next_tx_phase >= 0"],
             modifies=["_next_tx_phase"],
             ensures=[("next-number-advances-by-one", "self._next_tx_phase == old(self._next_tx_phase) + 1")],
             effects=[("send", ["int_str(old(self._next_tx_phase))", "plaintext"])],
             note="the k-th send_message() is handed to Send exactly once, labelled with the decimal numeral of k, body unchanged"),
    Contract("wormhole/_boss.py:Boss._init_other_state", props=[PROP], params={}, self_fields={},
             ensures=[("numbering-starts-at-zero", "self._next_tx_phase == 0 and self._next_rx_phase == 0"),
                      ("reorder-buffer-starts-empty", "len(self._rx_phases) == 0"),
                      ("dilation-buffer-starts-empty-and-at-zero",
                       "self._next_rx_dilate_seqnum == 0 and len(self._rx_dilate_seqnums) == 0")],
             modifies=["_did_start_code", "_next_tx_phase", "_next_rx_phase", "_rx_phases", "_next_rx_dilate_seqnum",
                       "_rx_dilate_seqnums", "_result"],
             note="the application reorder buffer is a fresh object of its own (frame.no-aliasing): the contracts on W_received "
                  "and on the Dilator's buffer each speak about their own dict, so sharing one dict would let a dilate-N record "
                  "be delivered as application message N"),
    Contract("wormhole/_send.py:Send.queue", props=[PROP], params={"phase": "str", "plaintext": "bytes"},
             self_fields={"_queue": QS}, modifies=["_queue"],
             ensures=[("appended-at-the-end", "self._queue == old(self._queue) + [(phase, plaintext)]")]),
    Contract("wormhole/_send.py:Send.drain", props=[PROP], params={"key": "bytes"},
             self_fields={"_queue": QS, "_key": "bytes", "_side": "str", "_M": "obj[IMailbox]"}, modifies=["_queue"],
             requires=["len(self._key) > 0", "is_ascii(self._side)",
                       "forall(lambda i: implies(0 <= i and i < len(self._queue), is_ascii(self._queue[i][0])))"],
             ensures=[("queue-emptied", "len(self._queue) == 0")],
             internal_ensures=[("every-queued-message-sent-once-in-order",
                                "len(sent) == len(old(self._queue)) and forall(lambda j: implies(0 <= j and j < len(sent), "
                                "sent[j] == old(self._queue)[j]))")],
             loops={0: {"header": "for (phase, plaintext) in self._queue",
                        "ghost_init": {"sent": f'empty_seq("tuple[str,bytes]")'},
                        "ghost_update": {"sent": "sent + [(iter_bcall_arg('add_message', 0), plaintext)]"},
                        "body_ensures": ["iter_bcall_arg('add_message', 0) == at_entry(self._queue)[_i - 1][0]",
                                         "plaintext == at_entry(self._queue)[_i - 1][1]",
                                         "sealed(iter_bcall_arg('add_message', 1), phase_key(self._key, self._side, "
                                         "at_entry(self._queue)[_i - 1][0]), at_entry(self._queue)[_i - 1][1])"],
                        "invariant": ["self._queue == at_entry(self._queue)", "len(sent) == _i",
                                      "forall(lambda j: implies(0 <= j and j < _i, sent[j] == at_entry(self._queue)[j]))"]}},
             note="messages queued before the key was verified go out in the order they were queued, each exactly once, each "
                  "sealed under its own phase label (the real _encrypt_and_send body is executed in the loop)"),
    Contract("wormhole/_send.py:Send.deliver", props=[PROP], params={"phase": "str", "plaintext": "bytes"},
             self_fields={"_key": "bytes", "_side": "str", "_M": "obj[IMailbox]"},
             requires=["len(self._key) > 0", "is_ascii(self._side)", "is_ascii(phase)"],
             ensures=[("one-add_message-with-this-label", "bcall_names() == ['add_message'] and bcall_arg('add_message', 0, 0) == phase"),
                      ("sealed-under-its-own-label",
                       "sealed(bcall_arg('add_message', 0, 1), phase_key(self._key, self._side, phase), plaintext)")]),
    Contract("wormhole/_order.py:Order.queue", props=[PROP], params={"side": "str", "phase": "str", "body": "bytes"},
             self_fields={"_queue": QO}, modifies=["_queue"],
             ensures=[("appended-at-the-end", "self._queue == old(self._queue) + [(side, phase, body)]")]),
    Contract("wormhole/_order.py:Order.drain", props=[PROP], params={"side": "str", "phase": "str", "body": "bytes"},
             self_fields={"_queue": QO, "_R": "obj[IReceive]"}, modifies=["_queue"],
             ensures=[("queue-emptied", "len(self._queue) == 0")],
             internal_ensures=[("every-queued-message-forwarded-once-in-arrival-order",
                                "len(fwd) == len(old(self._queue)) and forall(lambda j: implies(0 <= j and j < len(fwd), "
                                "fwd[j] == old(self._queue)[j]))")],
             loops={0: {"header": "for (side, phase, body) in self._queue",
                        "ghost_init": {"fwd": 'empty_seq("tuple[str,str,bytes]")'},
                        "ghost_update": {"fwd": "fwd + [(iter_bcall_arg('got_message', 0), iter_bcall_arg('got_message', 1), "
                                                "iter_bcall_arg('got_message', 2))]"},
                        "body_ensures": ["iter_bcall_arg('got_message', 0) == at_entry(self._queue)[_i - 1][0]",
                                         "iter_bcall_arg('got_message', 1) == at_entry(self._queue)[_i - 1][1]",
                                         "iter_bcall_arg('got_message', 2) == at_entry(self._queue)[_i - 1][2]"],
                        "invariant": ["self._queue == at_entry(self._queue)", "len(fwd) == _i",
                                      "forall(lambda j: implies(0 <= j and j < _i, fwd[j] == at_entry(self._queue)[j]))"]}},
             note="messages that arrived before the PAKE are forwarded to Receive in arrival order, unmodified, once each"),
    Contract("wormhole/_order.py:Order.deliver", props=[PROP], params={"side": "str", "phase": "str", "body": "bytes"},
             self_fields={"_R": "obj[IReceive]"},
             effects=[("got_message", ["side", "phase", "body"])]),
    Contract("wormhole/_mailbox.py:Mailbox.queue", props=[PROP], params={"phase": "str", "body": "bytes"},
             self_fields={"_pending_outbound": "dict[str,bytes]"}, modifies=["_pending_outbound"],
             ensures=[("pending-until-echoed", "phase in self._pending_outbound and self._pending_outbound[phase] == body"),
                      ("others-kept", "forall(lambda p: implies(p != phase, (p in self._pending_outbound) == "
                                      "(p in old(self._pending_outbound)) and implies(p in self._pending_outbound, "
                                      "self._pending_outbound[p] == old(self._pending_outbound)[p])), 'str')")]),
    Contract("wormhole/_mailbox.py:Mailbox.dequeue", props=[PROP], params={"phase": "str", "body": "bytes"},
             self_fields={"_pending_outbound": "dict[str,bytes]"}, modifies=["_pending_outbound"],
             ensures=[("echoed-phase-retired", "phase not in self._pending_outbound"),
                      ("only-that-phase", "forall(lambda p: implies(p != phase, (p in self._pending_outbound) == "
                                          "(p in old(self._pending_outbound))), 'str')")],
             note="a message leaves the re-send set only when the server echoes OUR message of that phase"),
    Contract("wormhole/_mailbox.py:Mailbox.RC_tx_add", props=[PROP], params={"phase": "str", "body": "bytes"},
             self_fields={"_RC": "obj[IRendezvousConnector]"},
             effects=[("tx_add", ["phase", "body"])]),
]


def regf(exclude=()):
    reg = c02.regf(exclude=("wormhole/_send.py:Send._encrypt_and_send",) + tuple(exclude))
    for c in CONTRACTS:
        if c.target not in exclude:
            reg.contracts[c.target] = c
    reg.spec_funcs["int_str"] = lambda it, n: VStr(int_to_str(n.z), "str")
    return reg


def tasks():
    mine = [ContractTask(c, regf) for c in CONTRACTS]
    shared = [t for t in c02._f_tasks() if t.contract.target.endswith(("Boss.W_received", "Mailbox.N_release_and_accept",
                                                                    "Mailbox.rx_message", "Boss.got_message",
                                                                    "Receive.got_message", "Send._encrypt_and_send"))]
    # get_message() hands the received messages to the application through SequenceObserver and the eventual
    # queue: C18's contracts on them (FIFO pairing, every hand-over goes through the queue) are part of "in order"
    from . import c18
    obs = [t for t in c18._f_tasks() if getattr(t, "contract", None) is not None and
           ("SequenceObserver." in t.contract.target or "EventualQueue." in t.contract.target or
            t.contract.target.endswith(("_DeferredWormhole.received", "_DeferredWormhole.get_message")))]
    import os
    from pyvc.mrun import ClusterTask
    from .mailbox_ready import CLUSTER_READY
    cl = [] if (not CLUSTER_READY or os.environ.get("VERIF_NO_CLUSTER")) else \
        [ClusterTask("mailbox-cluster", "props.mailbox", "engine", select_m, "mailbox_history:search")]
    return mine + shared + obs + cl


def select_m(name):
    """C03's share of the machine-level obligations: a message stays in the re-send set until the server echoes it and is
    re-submitted on every new connection; each phase is handed on to Order once, with its labels unchanged"""
    return name.startswith("post:C03:") or name.endswith(":pending-resubmitted") or \
        name in ("post:C02:forwarded-phase-is-new", "post:C02:forwarded-phase-recorded", "post:C02:processed-never-shrinks",
                 "post:C02:labels-forwarded-unchanged", "post:C02:own-echo-never-forwarded")


TRUSTED = c02.TRUSTED
ASSUMPTIONS = [
    "the server stores what it was given and AEAD makes anything else undeliverable (C02); prefix-becomes-whole (liveness) is not decided",
    "Mailbox._drain (re-adding every pending message on a new connection) and the rows that attach these outputs are checked by "
    "the mailbox-cluster engine (post:C09:*:pending-resubmitted, C14 tables), not here",
    "composition lemma 'received is a prefix of sent' is argued from these contracts (numbering + FIFO queues + dedup + reorder "
    "buffer + label-bound keys); it is not a single machine-checked obligation",
]
