"""C03 - mailbox messages arrive in order, exactly once, unmodified.

Sender side: the k-th send_message is labelled phase str(k) and handed to the mailbox exactly
once, in order, sealed under its own label; it stays in _pending_outbound (and is re-added on
every new connection) until the server echoes it.  Receiver side: each phase passes the
Mailbox once, Order and Receive keep arrival order, the Boss hands phase n to the application
iff n is the next one.  The receiver-side reorder buffer, the dedup and the labelling of what
is sealed/opened are proved in C02's module (Boss.W_received, Mailbox.N_release_and_accept,
Mailbox.rx_message, Receive.got_message, Send._encrypt_and_send): those tasks are run here
too.  This module adds the numbering and the FIFO queues."""
import z3

from pyvc.contract import Contract
from pyvc.runner import ContractTask
from pyvc.values import *   # noqa
from pyvc.interp import int_to_str
from . import c02
from .common import register_classes
from .transit_lib import BodyLemma

PROP = "C03"

QS = "seq[tuple[str,bytes]]"
QO = "seq[tuple[str,str,bytes]]"

CONTRACTS = [
    Contract("wormhole/_boss.py:Boss.S_send", props=[PROP], params={"plaintext": "bytes"},
             self_fields={"_next_tx_phase": "int", "_S": "obj[ISend]"}, requires=["self._next_tx_phase >= 0"],
             modifies=["_next_tx_phase"],
             ensures=[("next-number-advances-by-one", "self._next_tx_phase == old(self._next_tx_phase) + 1")],
             effects=[("send", ["int_str(old(self._next_tx_phase))", "plaintext"])],
             note="the k-th send_message() is handed to Send exactly once, labelled with the decimal numeral of k, body unchanged"),
    Contract("wormhole/_boss.py:Boss._init_other_state", props=[PROP], params={}, self_fields={},
             ensures=[("numbering-starts-at-zero", "self._next_tx_phase == 0 and self._next_rx_phase == 0"),
                      ("reorder-buffer-starts-empty", "len(self._rx_phases) == 0"),
                      ("dilation-buffer-starts-empty-and-at-zero",
                       "self._next_rx_dilate_seqnum == 0 and len(self._rx_dilate_seqnums) == 0")],
             modifies=["_did_start_code", "_next_tx_phase", "_next_rx_phase", "_rx_phases", "_next_rx_dilate_seqnum",
                       "_rx_dilate_seqnums", "_result"],
             note="the application reorder buffer is a fresh object of its own (frame.no-aliasing): the contracts on W_received "
                  "and on the Dilator's buffer each speak about their own dict, so sharing one dict would let a dilate-N record "
                  "be delivered as application message N"),
    Contract("wormhole/_send.py:Send.queue", props=[PROP], params={"phase": "str", "plaintext": "bytes"},
             self_fields={"_queue": QS}, modifies=["_queue"],
             ensures=[("appended-at-the-end", "self._queue == old(self._queue) + [(phase, plaintext)]")]),
    Contract("wormhole/_send.py:Send.drain", props=[PROP], params={"key": "bytes"},
             self_fields={"_queue": QS, "_key": "bytes", "_side": "str", "_M": "obj[IMailbox]"}, modifies=["_queue"],
             requires=["len(self._key) > 0", "is_ascii(self._side)",
                       "forall(lambda i: implies(0 <= i and i < len(self._queue), is_ascii(self._queue[i][0])))"],
             ensures=[("queue-emptied", "len(self._queue) == 0")],
             internal_ensures=[("every-queued-message-sent-once-in-order",
                                "len(sent) == len(old(self._queue)) and forall(lambda j: implies(0 <= j and j < len(sent), "
                                "sent[j] == old(self._queue)[j]))")],
             loops={0: {"header": "for (phase, plaintext) in self._queue",
                        "ghost_init": {"sent": f'empty_seq("tuple[str,bytes]")'},
                        "ghost_update": {"sent": "sent + [(iter_bcall_arg('add_message', 0), plaintext)]"},
                        "body_ensures": ["iter_bcall_arg('add_message', 0) == at_entry(self._queue)[_i - 1][0]",
                                         "plaintext == at_entry(self._queue)[_i - 1][1]",
                                         "sealed(iter_bcall_arg('add_message', 1), phase_key(self._key, self._side, "
                                         "at_entry(self._queue)[_i - 1][0]), at_entry(self._queue)[_i - 1][1])"],
                        "invariant": ["self._queue == at_entry(self._queue)", "len(sent) == _i",
                                      "forall(lambda j: implies(0 <= j and j < _i, sent[j] == at_entry(self._queue)[j]))"]}},
             note="messages queued before the key was verified go out in the order they were queued, each exactly once, each "
                  "sealed under its own phase label (the real _encrypt_and_send body is executed in the loop)"),
    Contract("wormhole/_send.py:Send.deliver", props=[PROP], params={"phase": "str", "plaintext": "bytes"},
             self_fields={"_key": "bytes", "_side": "str", "_M": "obj[IMailbox]"},
             requires=["len(self._key) > 0", "is_ascii(self._side)", "is_ascii(phase)"],
             ensures=[("one-add_message-with-this-label", "bcall_names() == ['add_message'] and bcall_arg('add_message', 0, 0) == phase"),
                      ("sealed-under-its-own-label",
                       "sealed(bcall_arg('add_message', 0, 1), phase_key(self._key, self._side, phase), plaintext)")]),
    Contract("wormhole/_order.py:Order.queue", props=[PROP], params={"side": "str", "phase": "str", "body": "bytes"},
             self_fields={"_queue": QO}, modifies=["_queue"],
             ensures=[("appended-at-the-end", "self._queue == old(self._queue) + [(side, phase, body)]")]),
    Contract("wormhole/_order.py:Order.drain", props=[PROP], params={"side": "str", "phase": "str", "body": "bytes"},
             self_fields={"_queue": QO, "_R": "obj[IReceive]"}, modifies=["_queue"],
             ensures=[("queue-emptied", "len(self._queue) == 0")],
             internal_ensures=[("every-queued-message-forwarded-once-in-arrival-order",
                                "len(fwd) == len(old(self._queue)) and forall(lambda j: implies(0 <= j and j < len(fwd), "
                                "fwd[j] == old(self._queue)[j]))")],
             loops={0: {"header": "for (side, phase, body) in self._queue",
                        "ghost_init": {"fwd": 'empty_seq("tuple[str,str,bytes]")'},
                        "ghost_update": {"fwd": "fwd + [(iter_bcall_arg('got_message', 0), iter_bcall_arg('got_message', 1), "
                                                "iter_bcall_arg('got_message', 2))]"},
                        "body_ensures": ["iter_bcall_arg('got_message', 0) == at_entry(self._queue)[_i - 1][0]",
                                         "iter_bcall_arg('got_message', 1) == at_entry(self._queue)[_i - 1][1]",
                                         "iter_bcall_arg('got_message', 2) == at_entry(self._queue)[_i - 1][2]"],
                        "invariant": ["self._queue == at_entry(self._queue)", "len(fwd) == _i",
                                      "forall(lambda j: implies(0 <= j and j < _i, fwd[j] == at_entry(self._queue)[j]))"]}},
             note="messages that arrived before the PAKE are forwarded to Receive in arrival order, unmodified, once each"),
    Contract("wormhole/_order.py:Order.deliver", props=[PROP], params={"side": "str", "phase": "str", "body": "bytes"},
             self_fields={"_R": "obj[IReceive]"},
             effects=[("got_message", ["side", "phase", "body"])]),
    Contract("wormhole/_mailbox.py:Mailbox.queue", props=[PROP], params={"phase": "str", "body": "bytes"},
             self_fields={"_pending_outbound": "dict[str,bytes]"}, modifies=["_pending_outbound"],
             ensures=[("pending-until-echoed", "phase in self._pending_outbound and self._pending_outbound[phase] == body"),
                      ("others-kept", "forall(lambda p: implies(p != phase, (p in self._pending_outbound) == "
                                      "(p in old(self._pending_outbound)) and implies(p in self._pending_outbound, "
                                      "self._pending_outbound[p] == old(self._pending_outbound)[p])), 'str')")]),
    Contract("wormhole/_mailbox.py:Mailbox.dequeue", props=[PROP], params={"phase": "str", "body": "bytes"},
             self_fields={"_pending_outbound": "dict[str,bytes]"}, modifies=["_pending_outbound"],
             ensures=[("echoed-phase-retired", "phase not in self._pending_outbound"),
                      ("only-that-phase", "forall(lambda p: implies(p != phase, (p in self._pending_outbound) == "
                                          "(p in old(self._pending_outbound))), 'str')")],
             note="a message leaves the re-send set only when the server echoes OUR message of that phase"),
    Contract("wormhole/_mailbox.py:Mailbox.RC_tx_add", props=[PROP], params={"phase": "str", "body": "bytes"},
             self_fields={"_RC": "obj[IRendezvousConnector]"},
             effects=[("tx_add", ["phase", "body"])]),
]


# ---------------------------------------------------------------------------------------------------------------
# The hops between the functions above, each verified THROUGH THE REAL TRANSITION TABLE of its machine (state set
# first, then the row's outputs in order, real bodies; an input without a row raises NoTransition as Automat does).
# A row that loses / gains an output, an output attached to the wrong state, or a body that passes something else
# on fails here.  The Mailbox side of add_message / rx_message_ours (queue vs tx now, retire on echo) is verified the
# same way in C09's module (props/c09.py MACHINE_CONTRACTS).
BOSS = "wormhole/_boss.py:Boss."
BOSS_FIELDS = {"__state": "state", "_next_tx_phase": "int", "_S": "obj[ISend]", "_rx_phases": "dict[int,bytes]",
               "_next_rx_phase": "int", "_W": "obj[IWormhole]"}
B_OPEN = "'S0_empty', 'S1_lonely', 'S2_happy'"
B_DONE = "'S3_closing', 'S4_closed'"
RX_KEPT = ("self._next_rx_phase == old(self._next_rx_phase) and forall(lambda k: (k in self._rx_phases) == "
           "(k in old(self._rx_phases)) and implies(k in self._rx_phases, self._rx_phases[k] == old(self._rx_phases)[k]))")
STATE_KEPT = ("state-kept", "state_index(self) == old(state_index(self))")

SEND_FIELDS = {"__state": "state", "_queue": QS, "_key": "bytes", "_side": "str", "_M": "obj[IMailbox]"}
ORDER_FIELDS = {"__state": "state", "_queue": QO, "_R": "obj[IReceive]", "_K": "obj[IKey]"}
RECV_FIELDS = {"__state": "state", "_key": "bytes", "_side": "str", "_S": "obj[ISend]", "_B": "obj[IBoss]"}
MB_FIELDS = {"__state": "state", "_pending_outbound": "dict[str,bytes]", "_mailbox": "opt[str]", "_mood": "opt[str]",
             "_side": "str", "_processed": "set[str]",
             "_RC": "obj[IRendezvousConnector]", "_N": "obj[INameplate]", "_O": "obj[IOrder]", "_T": "obj[ITerminator]"}
PROCESSED_KEPT = "forall(lambda p: (p in self._processed) == (p in old(self._processed)), 'str')"

MACHINE_CONTRACTS = [
    # ------------------------------------------------------------------ API -> numbering
    Contract(BOSS + "send", props=[PROP], params={"plaintext": "bytes"}, self_fields=BOSS_FIELDS,
             requires=["self._next_tx_phase >= 0"], modifies=["__state", "_next_tx_phase"],
             ensures=[("one-number-per-message-until-closing",
                       f"self._next_tx_phase == old(self._next_tx_phase) + ite(old(in_state(self, {B_OPEN})), 1, 0)"),
                      STATE_KEPT],
             internal_ensures=[
                 ("numbered-and-handed-to-Send-once-unchanged",
                  f"implies(old(in_state(self, {B_OPEN})), bcall_names() == ['send'] and "
                  "bcall_arg('send', 0, 0) == int_str(old(self._next_tx_phase)) and bcall_arg('send', 0, 1) == plaintext)"),
                 ("nothing-sent-once-closing", f"implies(old(in_state(self, {B_DONE})), len(bcall_names()) == 0)")],
             note="Boss.send in every state: S_send (by its contract) runs exactly in S0/S1/S2; after close() started the "
                  "message is dropped and no number is used up"),
    Contract(BOSS + "_got_phase", props=[PROP], params={"phase": "int", "plaintext": "bytes"}, self_fields=BOSS_FIELDS,
             requires=["self._next_rx_phase not in self._rx_phases"],
             raises_exactly={"NoTransition": "in_state(self, 'S0_empty', 'S1_lonely')"},
             modifies=["__state", "_rx_phases", "_next_rx_phase"],
             ensures=[("dropped-once-closing", f"implies(old(in_state(self, {B_DONE})), {RX_KEPT})"), STATE_KEPT],
             internal_ensures=[
                 ("reorder-buffer-runs-exactly-when-happy-with-this-phase-and-body",
                  "n_calls('Boss.W_received') == ite(old(in_state(self, 'S2_happy')), 1, 0) and "
                  "implies(old(in_state(self, 'S2_happy')), call_arg('Boss.W_received', 0, 1) == phase and "
                  "call_arg('Boss.W_received', 0, 2) == plaintext)"),
                 ("nothing-else-happens", "len(bcall_names()) == 0")],
             ensures_raise={"NoTransition": [("nothing-happened", "n_calls('Boss.W_received') == 0 and len(bcall_names()) == 0")]},
             note="W_received is applied through its contract (proved on the real loop in C02's module)"),
    BodyLemma("lemma:numeric_phase_reaches_the_reorder_buffer_once_unchanged", BOSS + "got_message", props=[PROP],
              params={"phase": "str", "plaintext": "bytes"}, self_fields=BOSS_FIELDS,
              requires=["is_numeric_phase(phase)", "self._next_rx_phase not in self._rx_phases",
                        "in_state(self, 'S2_happy', 'S3_closing', 'S4_closed')"],
              modifies=["__state", "_rx_phases", "_next_rx_phase"],
              ensures=[("exactly-one-W_received-with-the-decimal-value-and-the-same-plaintext-when-happy",
                        "n_calls('Boss.W_received') == ite(old(in_state(self, 'S2_happy')), 1, 0) and "
                        "implies(old(in_state(self, 'S2_happy')), call_arg('Boss.W_received', 0, 1) == decimal_value(phase) and "
                        "call_arg('Boss.W_received', 0, 2) == plaintext)"),
                       ("dropped-once-closing", f"implies(old(in_state(self, {B_DONE})), {RX_KEPT})"),
                       ("nothing-else-happens", "len(bcall_names()) == 0")],
              note="the real chain Boss.got_message -> _got_phase (real transition table) -> W_received (contract)"),
    # ------------------------------------------------------------------ Send: queue before the key, deliver after
    Contract("wormhole/_send.py:Send.send", props=[PROP], params={"phase": "str", "plaintext": "bytes"},
             self_fields=SEND_FIELDS, modifies=["__state", "_queue"],
             requires=["implies(in_state(self, 'S1_verified_key'), len(self._key) > 0)", "is_ascii(self._side)", "is_ascii(phase)"],
             ensures=[("queued-at-the-end-before-the-key", "implies(old(in_state(self, 'S0_no_key')), "
                                                          "self._queue == old(self._queue) + [(phase, plaintext)])"),
                      ("queue-untouched-after-the-key", "implies(old(in_state(self, 'S1_verified_key')), "
                                                        "self._queue == old(self._queue))"),
                      STATE_KEPT],
             internal_ensures=[
                 ("nothing-sent-before-the-key", "implies(old(in_state(self, 'S0_no_key')), len(bcall_names()) == 0)"),
                 ("sent-at-once-after-the-key-exactly-once", "implies(old(in_state(self, 'S1_verified_key')), bcall_names() == ['add_message'])"),
                 ("sent-at-once-after-the-key-sealed-under-its-own-label",
                  "implies(old(in_state(self, 'S1_verified_key')) and bcalls('add_message') == 1, "
                  "bcall_arg('add_message', 0, 0) == phase and "
                  "sealed(bcall_arg('add_message', 0, 1), phase_key(self._key, self._side, phase), plaintext))")],
             note="real bodies of queue / deliver / _encrypt_and_send through the table; key functions by contract"),
    Contract("wormhole/_send.py:Send.got_verified_key", props=[PROP], params={"key": "bytes"},
             self_fields=SEND_FIELDS, modifies=["__state", "_queue", "_key"],
             requires=["len(key) > 0", "is_ascii(self._side)",
                       "forall(lambda i: implies(0 <= i and i < len(self._queue), is_ascii(self._queue[i][0])))"],
             raises_exactly={"NoTransition": "in_state(self, 'S1_verified_key')"},
             ensures=[("key-recorded-and-queue-flushed", "self._key == key and len(self._queue) == 0"),
                      ("now-delivering-directly", "in_state(self, 'S1_verified_key')")],
             internal_ensures=[("flushed-by-drain-after-the-key-was-recorded",
                                "n_calls('Send.drain') == 1 and call_arg('Send.drain', 0, 0)._key == key")],
             note="record_key runs before drain (row order), so drain's contract (every queued message once, in order, each "
                  "under its own label, proved on the real loop) is applied with the verified key"),
    # ------------------------------------------------------------------ Mailbox: dedup on the way in
    Contract("wormhole/_mailbox.py:Mailbox.rx_message_theirs", props=[PROP],
             params={"side": "str", "phase": "str", "body": "bytes"}, self_fields=MB_FIELDS,
             modifies=["__state", "_processed"],
             raises_exactly={"NoTransition": "in_state(self, 'S0A', 'S0B', 'S1A', 'S2A', 'S3A')"},
             ensures=[("phase-remembered-while-open",
                       "implies(old(in_state(self, 'S2B')), forall(lambda p: (p in self._processed) == "
                       "(p in old(self._processed) or p == phase), 'str'))"),
                      ("untouched-once-closing", f"implies(not old(in_state(self, 'S2B')), {PROCESSED_KEPT})"), STATE_KEPT],
             internal_ensures=[
                 ("new-phase-forwarded-once-unchanged",
                  "implies(old(in_state(self, 'S2B')) and phase not in old(self._processed), "
                  "bcall_names() == ['release', 'got_message'] and bcall_arg('got_message', 0, 0) == side and "
                  "bcall_arg('got_message', 0, 1) == phase and bcall_arg('got_message', 0, 2) == body)"),
                 ("seen-phase-not-forwarded-again",
                  "implies(old(in_state(self, 'S2B')) and phase in old(self._processed), bcall_names() == ['release'])"),
                 ("nothing-forwarded-once-closing", "implies(not old(in_state(self, 'S2B')), len(bcall_names()) == 0)")],
             ensures_raise={"NoTransition": [("nothing-forwarded", "len(bcall_names()) == 0")]},
             note="exactly once: a phase string reaches Order at most once per Mailbox, whatever the server repeats"),
    # ------------------------------------------------------------------ Order: hold back until the PAKE, then FIFO
    Contract("wormhole/_order.py:Order.got_message", props=[PROP], params={"side": "str", "phase": "str", "body": "bytes"},
             self_fields=ORDER_FIELDS, modifies=["__state", "_queue"],
             raises_exactly={"NoTransition": "phase == 'pake' and in_state(self, 'S1_yes_pake')"},
             ensures=[("held-back-in-arrival-order-before-the-pake",
                       "implies(phase != 'pake' and old(in_state(self, 'S0_no_pake')), "
                       "self._queue == old(self._queue) + [(side, phase, body)] and in_state(self, 'S0_no_pake'))"),
                      ("queue-untouched-after-the-pake",
                       "implies(phase != 'pake' and old(in_state(self, 'S1_yes_pake')), self._queue == old(self._queue) and "
                       "in_state(self, 'S1_yes_pake'))"),
                      ("pake-flushes-the-queue", "implies(phase == 'pake', len(self._queue) == 0 and in_state(self, 'S1_yes_pake'))")],
             internal_ensures=[
                 ("nothing-forwarded-before-the-pake",
                  "implies(phase != 'pake' and old(in_state(self, 'S0_no_pake')), len(bcall_names()) == 0)"),
                 ("forwarded-once-unchanged-after-the-pake",
                  "implies(phase != 'pake' and old(in_state(self, 'S1_yes_pake')), bcall_names() == ['got_message'] and "
                  "bcall_arg('got_message', 0, 0) == side and bcall_arg('got_message', 0, 1) == phase and "
                  "bcall_arg('got_message', 0, 2) == body)"),
                 ("pake-goes-to-Key-then-the-held-back-messages-are-drained",
                  "implies(phase == 'pake', bcall_names() == ['got_pake'] and bcall_arg('got_pake', 0, 0) == body and "
                  "n_calls('Order.drain') == 1)")],
             ensures_raise={"NoTransition": [("nothing-forwarded", "len(bcall_names()) == 0")]},
             note="drain is applied through its contract (every held-back message forwarded once, in arrival order, proved on "
                  "the real loop); a second pake cannot arrive (the Mailbox forwards each phase string once)"),
    # ------------------------------------------------------------------ Receive: good message -> Boss, unchanged
    Contract("wormhole/_receive.py:Receive.got_message_good", props=[PROP], params={"phase": "str", "plaintext": "bytes"},
             self_fields=RECV_FIELDS, modifies=["__state"],
             requires=["len(self._key) == 32"],
             raises_exactly={"NoTransition": "in_state(self, 'S0_unknown_key')"},
             ensures=[("verified-unless-scared", "in_state(self, 'S2_verified_key') == (not old(in_state(self, 'S3_scared')))")],
             internal_ensures=[
                 ("handed-to-Boss-exactly-once-unchanged-unless-scared",
                  "bcalls('got_message') == ite(old(in_state(self, 'S3_scared')), 0, 1) and "
                  "implies(not old(in_state(self, 'S3_scared')), bcall_arg('got_message', 0, 0) == phase and "
                  "bcall_arg('got_message', 0, 1) == plaintext and bcall_names()[len(bcall_names()) - 1] == 'got_message')"),
                 ("first-good-message-makes-the-Boss-happy-before-it-is-delivered",
                  "implies(old(in_state(self, 'S1_unverified_key')), "
                  "bcall_names() == ['got_verified_key', 'happy', 'got_verifier', 'got_message'] and "
                  "bcall_arg('got_verified_key', 0, 0) == self._key)"),
                 ("later-good-messages-only-delivered", "implies(old(in_state(self, 'S2_verified_key')), bcall_names() == ['got_message'])"),
                 ("scared-delivers-nothing", "implies(old(in_state(self, 'S3_scared')), len(bcall_names()) == 0)")],
             ensures_raise={"NoTransition": [("nothing-delivered", "len(bcall_names()) == 0")]},
             note="after a bad message (S3_scared) nothing is ever delivered again; `happy` precedes the first delivery, so the "
                  "Boss is in S2_happy (or closing) when _got_phase arrives"),
    # ------------------------------------------------------------------ the API ends
    Contract("wormhole/wormhole.py:_DeferredWormhole.send_message", props=[PROP], params={"plaintext": "bytes"},
             self_fields={"_boss": "obj[IBoss]"}, effects=[("send", ["plaintext"])]),
    Contract("wormhole/wormhole.py:_DelegatedWormhole.send_message", props=[PROP], params={"plaintext": "bytes"},
             self_fields={"_boss": "obj[IBoss]"}, effects=[("send", ["plaintext"])]),
    Contract("wormhole/wormhole.py:_DelegatedWormhole.received", props=[PROP], params={"plaintext": "bytes"},
             self_fields={"_delegate": "obj[Delegate]"}, effects=[("wormhole_got_message", ["plaintext"])],
             note="delegated mode: each W.received becomes exactly one wormhole_got_message with the same bytes, synchronously "
                  "(so in the order of the reorder buffer)"),
]


def regf_machine():
    """registry for the contracts verified through the real transition tables: the tiny outputs (Send.queue/deliver,
    Order.queue/deliver, Mailbox.N_release_and_accept, ...) are executed, the loops (Send.drain, Order.drain,
    Boss.W_received) and the key functions are used through their contracts"""
    from pyvc.automat import AutomatSupport
    reg = regf(exclude=("wormhole/_send.py:Send.queue", "wormhole/_send.py:Send.deliver", "wormhole/_order.py:Order.queue",
                        "wormhole/_order.py:Order.deliver", "wormhole/_mailbox.py:Mailbox.N_release_and_accept",
                        "wormhole/_mailbox.py:Mailbox.queue", "wormhole/_mailbox.py:Mailbox.dequeue",
                        "wormhole/_mailbox.py:Mailbox.RC_tx_add", "wormhole/_boss.py:Boss.got_message",
                        "wormhole/_receive.py:Receive.got_message", "wormhole/_mailbox.py:Mailbox.rx_message"))
    register_classes(reg, ["wormhole/_boss.py", "wormhole/_send.py", "wormhole/_order.py", "wormhole/_receive.py",
                           "wormhole/_mailbox.py", "wormhole/wormhole.py"])
    reg.input_as_boundary = False
    reg.automat = AutomatSupport()
    reg.automat.notransition_raises = True
    for c in MACHINE_CONTRACTS:
        reg.contracts[c.target] = c
    sf = reg.spec_funcs
    sf["state_index"] = lambda it, o: VInt(it.force(o).fields["__state"].z)
    sf["n_calls"] = lambda it, suffix: VInt(sum(1 for e in it.ctx.trace if e[0] == "call" and e[1][0].endswith(it.concrete(suffix))))
    return reg


# ---------------------------------------------------------------------------------------------------------------
# The composition, machine-checked.  Each lemma is a pure implication (its harness does nothing); its hypotheses are
# the ensures-clauses of the contracts above, LOOKED UP BY NAME in the contract objects and restated over explicit
# pre/post objects and ghost values by the substitutions given here (old(self.f) -> pre.f, self.f -> post.f, a trace
# term -> the ghost value that names it).  Weakening or renaming a clause in a contract therefore weakens / breaks the
# hypothesis and the lemma fails; nothing is re-typed.
def _find(target):
    for c in c02.CONTRACTS + CONTRACTS + MACHINE_CONTRACTS:
        if c.target.endswith(target):
            return c
    raise KeyError(target)


def imported(target, name, subst):
    """clause `name` of the contract of `target`, with the (ordered) textual substitutions applied"""
    c = _find(target)
    e = dict(c.ensures + c.internal_ensures)[name]           # KeyError: the clause was renamed / removed
    for a, b in subst:
        e = e.replace(a, b)
    return e


def imported_effect(target, k, names):
    """the k-th effect of the contract of `target` as equations between the ghost values `names` and its argument terms"""
    c = _find(target)
    meth, argx = c.effects[k]
    return [f"{n} == ({a})" for n, a in zip(names, argx)]


PRE_POST = [("old(self.", "(b0."), ("self.", "b1.")]
INV_RX = ("{b}._next_rx_phase >= 0 and {b}._next_rx_phase <= len(sent) and {b}._next_rx_phase not in {b}._rx_phases and "
          "forall(lambda k: implies(k in {b}._rx_phases and k >= {b}._next_rx_phase, "
          "k < len(sent) and {b}._rx_phases[k] == sent[k]))")
W_CLAUSES = ["gap-means-nothing-delivered", "counter-advances-by-deliveries", "delivered-in-phase-order-from-the-buffer",
             "delivered-came-from-the-buffer-or-are-this-message", "buffer-keeps-the-rest", "buffered-bodies-unmodified",
             "next-phase-not-buffered"]
K_LABEL = "phase_key(key, side, phase)"
RECV_SUBST = [("self._key", "key"), ("input_calls('got_message_good')", "n_good"), ("input_calls('got_message_bad')", "n_bad"),
              ("input_arg('got_message_good', 0, 0)", "g_phase"), ("input_arg('got_message_good', 0, 1)", "g_plain")]

LEMMAS = [
    Contract("lemma:kth_send_message_goes_out_once_under_label_k", props=[PROP], source_module="wormhole/_boss.py",
             params={"b0": "obj[Boss]", "b1": "obj[Boss]", "snd": "obj[Send]", "plaintext": "bytes", "sent": "seq[bytes]",
                     "s_phase": "str", "s_plain": "bytes", "a_phase": "str", "a_body": "bytes"},
             source_text="""
             def kth_send_message_goes_out_once_under_label_k(b0, b1, snd, plaintext, sent, s_phase, s_plain, a_phase, a_body):
                 return None
             """,
             requires=["b0._next_tx_phase == len(sent)",
                       imported("Boss.S_send", "next-number-advances-by-one", PRE_POST)] +
                      [e.replace("old(self.", "(b0.") for e in imported_effect("Boss.S_send", 0, ["s_phase", "s_plain"])] +
                      [imported("Send.send", "sent-at-once-after-the-key-sealed-under-its-own-label",
                                [("old(in_state(self, 'S1_verified_key'))", "True"), ("bcalls('add_message') == 1", "True"),
                                 ("bcall_arg('add_message', 0, 0)", "a_phase"), ("bcall_arg('add_message', 0, 1)", "a_body"),
                                 ("self.", "snd."), ("phase)", "s_phase)"), ("== phase", "== s_phase"),
                                 ("plaintext)", "s_plain)")])],
             ensures=[("label-is-the-decimal-numeral-of-its-position", "a_phase == int_str(len(sent))"),
                      ("sealed-under-that-label-with-the-senders-side-body-unchanged",
                       "sealed(a_body, phase_key(snd._key, snd._side, int_str(len(sent))), plaintext)"),
                      ("numbering-invariant-kept", "b1._next_tx_phase == len(sent + [plaintext])")],
             note="sender side, one send_message() in the steady state (key verified): Boss.S_send (number, effects) + Send.send "
                  "(deliver row): with `sent` the messages passed to send_message so far and _next_tx_phase == len(sent), the "
                  "message reaches the Mailbox labelled str(len(sent)), sealed for (our side, that label), unchanged"),
    Contract("lemma:accepted_numeric_message_is_the_peers_kth", props=[PROP], source_module="wormhole/_receive.py",
             params={"key": "bytes", "my_side": "str", "side": "str", "phase": "str", "body": "bytes", "sent": "seq[bytes]",
                     "n_good": "int", "n_bad": "int", "g_phase": "str", "g_plain": "bytes", "scared": "bool",
                     "n_bm": "int", "bm_phase": "str", "bm_plain": "bytes", "n_gp": "int", "gp_n": "int", "gp_plain": "bytes"},
             source_text="""
             def accepted_numeric_message_is_the_peers_kth(key, my_side, side, phase, body, sent, n_good, n_bad, g_phase, g_plain,
                                                           scared, n_bm, bm_phase, bm_plain, n_gp, gp_n, gp_plain):
                 return None
             """,
             requires=[
                 # what the Mailbox forwards is never our own side's (Mailbox.rx_message, C02) and is forwarded unchanged
                 "side != my_side",
                 # Receive.got_message (C02): decided by the key of the label the message claims
                 imported("Receive.got_message", "not-authentic-for-the-claimed-label-means-bad", RECV_SUBST),
                 imported("Receive.got_message", "authentic-means-good-with-that-plaintext", RECV_SUBST),
                 "n_good >= 0 and n_bad >= 0 and n_bm >= 0 and n_gp >= 0",
                 # Receive.got_message_good through the table: handed to the Boss at most once, unchanged
                 "n_bm <= n_good",
                 "implies(n_good == 1, " +
                 imported("Receive.got_message_good", "handed-to-Boss-exactly-once-unchanged-unless-scared",
                          [("bcalls('got_message')", "n_bm"), ("old(in_state(self, 'S3_scared'))", "scared"),
                           ("bcall_arg('got_message', 0, 0)", "bm_phase"), ("bcall_arg('got_message', 0, 1)", "bm_plain"),
                           (" and bcall_names()[len(bcall_names()) - 1] == 'got_message'", ""),
                           ("== phase", "== g_phase"), ("== plaintext", "== g_plain")]) + ")",
                 # Boss.got_message (C02): numeric phase -> _got_phase(decimal value, same plaintext); nothing else reaches it
                 "n_gp <= n_bm",
                 "implies(n_bm == 1, " +
                 imported("Boss.got_message", "numeric",
                          [("trace_order() == ['input:_got_phase']", "n_gp == 1"), ("input_arg('_got_phase', 0, 0)", "gp_n"),
                           ("input_arg('_got_phase', 0, 1)", "gp_plain"), ("(phase)", "(bm_phase)"), ("plaintext", "bm_plain")]) + ")",
                 "implies(n_bm == 1 and not is_numeric_phase(bm_phase), n_gp == 0)",
                 # AEAD + the sender lemma (ASSUMPTIONS): under the key of a label of another side only what that side's
                 # Send sealed for exactly this label authenticates, and that is (str(k), sent[k])
                 f"implies(sbox_valid({K_LABEL}, body) and is_numeric_phase(phase), phase == int_str(decimal_value(phase)) and "
                 f"decimal_value(phase) < len(sent) and sbox_open({K_LABEL}, body) == sent[decimal_value(phase)])"],
             ensures=[("what-reaches-the-reorder-buffer-is-the-peers-message-of-that-number",
                       "implies(n_gp == 1, 0 <= gp_n and gp_n < len(sent) and gp_plain == sent[gp_n])"),
                      ("a-forged-or-relabelled-body-reaches-nothing", f"implies(not sbox_valid({K_LABEL}, body), n_gp == 0)")],
             note="receiver side, one message handed on by the Mailbox: Receive.got_message + Receive.got_message_good + "
                  "Boss.got_message: if it reaches _got_phase(n, p) at all then p is unmodified sent[n]"),
    Contract("lemma:reorder_buffer_step_keeps_received_a_prefix_of_sent", props=[PROP], source_module="wormhole/_boss.py",
             params={"b0": "obj[Boss]", "b1": "obj[Boss]", "phase": "int", "plaintext": "bytes", "delivered": "seq[bytes]",
                     "sent": "seq[bytes]"},
             source_text="""
             def reorder_buffer_step_keeps_received_a_prefix_of_sent(b0, b1, phase, plaintext, delivered, sent):
                 return None
             """,
             requires=[INV_RX.format(b="b0"), "0 <= phase and phase < len(sent) and plaintext == sent[phase]"] +
                      [imported("Boss.W_received", n, PRE_POST) for n in W_CLAUSES],
             ensures=[("only-grows", "b1._next_rx_phase >= b0._next_rx_phase"),
                      ("application-got-exactly-the-next-sent-messages-in-order",
                       "b1._next_rx_phase == b0._next_rx_phase + len(delivered) and "
                       "forall(lambda j: implies(0 <= j and j < len(delivered), delivered[j] == sent[b0._next_rx_phase + j]))"),
                      ("invariant-kept.counter-within-sent",
                       "implies(len(delivered) > 0, delivered[len(delivered) - 1] == sent[b1._next_rx_phase - 1]) and "
                       "b1._next_rx_phase >= 0 and b1._next_rx_phase <= len(sent)"),
                      ("invariant-kept.next-phase-not-buffered", "b1._next_rx_phase not in b1._rx_phases"),
                      ("invariant-kept.buffer-holds-only-the-senders-messages-under-their-numbers",
                       "forall(lambda k: implies(k in b1._rx_phases and k >= b1._next_rx_phase, "
                       "k < len(sent) and b1._rx_phases[k] == sent[k]))")],
             note="the step invariant: if the application has received exactly sent[:m] (m == _next_rx_phase) and every buffered "
                  "phase >= m holds the sender's message of that number, then after W_received(n, sent[n]) for ANY n "
                  "(duplicate, old, out of order, far ahead) the application has received sent[:m'], m' >= m, the new "
                  "deliveries being sent[m:m'] in order, and the invariant holds again.  Hypotheses: every clause of "
                  "Boss.W_received's contract, by name"),
]
for _c in LEMMAS:
    _c.qf_feasibility = True


def regf_lemma():
    reg = regf()
    register_classes(reg, ["wormhole/_boss.py", "wormhole/_send.py"])
    reg.class_fields["Boss"] = {"_next_tx_phase": "int", "_rx_phases": "dict[int,bytes]", "_next_rx_phase": "int"}
    reg.class_fields["Send"] = {"_key": "bytes", "_side": "str"}
    return reg


def regf(exclude=()):
    reg = c02.regf(exclude=("wormhole/_send.py:Send._encrypt_and_send",) + tuple(exclude))
    for c in CONTRACTS:
        if c.target not in exclude:
            reg.contracts[c.target] = c
    reg.spec_funcs["int_str"] = lambda it, n: VStr(int_to_str(n.z), "str")
    return reg


def tasks():
    mine = [ContractTask(c, regf) for c in CONTRACTS]
    shared = [t for t in c02._f_tasks() if t.contract.target.endswith(("Boss.W_received", "Mailbox.N_release_and_accept",
                                                                    "Mailbox.rx_message", "Boss.got_message",
                                                                    "Receive.got_message", "Send._encrypt_and_send"))]
    # get_message() hands the received messages to the application through SequenceObserver and the eventual
    # queue: C18's contracts on them (FIFO pairing, every hand-over goes through the queue) are part of "in order"
    from . import c18
    obs = [t for t in c18._f_tasks() if getattr(t, "contract", None) is not None and
           ("SequenceObserver." in t.contract.target or "EventualQueue." in t.contract.target or
            t.contract.target.endswith(("_DeferredWormhole.received", "_DeferredWormhole.get_message")))]
    import os
    from pyvc.mrun import ClusterTask
    from .mailbox_ready import CLUSTER_READY
    cl = [] if (not CLUSTER_READY or os.environ.get("VERIF_NO_CLUSTER")) else \
        [ClusterTask("mailbox-cluster", "props.mailbox", "engine", select_m, "mailbox_history:search")]
    machine = [ContractTask(c, regf_machine) for c in MACHINE_CONTRACTS]
    lemmas = [ContractTask(c, regf_lemma) for c in LEMMAS]
    return mine + machine + lemmas + shared + obs + cl


def select_m(name):
    """C03's share of the machine-level obligations: a message stays in the re-send set until the server echoes it and is
    re-submitted on every new connection; each phase is handed on to Order once, with its labels unchanged"""
    return name.startswith("post:C03:") or name.endswith(":pending-resubmitted") or \
        name in ("post:C02:forwarded-phase-is-new", "post:C02:forwarded-phase-recorded", "post:C02:processed-never-shrinks",
                 "post:C02:labels-forwarded-unchanged", "post:C02:own-echo-never-forwarded")


TRUSTED = c02.TRUSTED
ASSUMPTIONS = [
    "the server stores what it was given and AEAD makes anything else undeliverable (C02); prefix-becomes-whole (liveness) is not decided",
    "Mailbox._drain (re-adding every pending message on a new connection) is proved in C09's module; that the rows of the mailbox "
    "cluster compose without an input arriving in a state that has no row (the NoTransition cases of the machine contracts "
    "here: Boss._got_phase in S0/S1, Order.got_message('pake') twice, Receive.got_message_good before a key, "
    "Mailbox.rx_message_theirs while disconnected) is the mailbox-cluster engine's business (C14 nodom:*), not decided here",
    "composition 'received is a prefix of sent' is machine-checked as three lemmas whose hypotheses are the contracts' clauses "
    "imported by name: lemma:kth_send_message_goes_out_once_under_label_k (sender: Boss.S_send + Send.send), "
    "lemma:accepted_numeric_message_is_the_peers_kth (Receive.got_message + Receive.got_message_good + Boss.got_message) and "
    "lemma:reorder_buffer_step_keeps_received_a_prefix_of_sent (step invariant over every clause of Boss.W_received, for ANY "
    "inbound phase number).  The hops between them are the machine contracts through the real tables (Mailbox.rx_message_theirs, "
    "Order.got_message, Receive.got_message_good, Boss._got_phase, lemma:numeric_phase_reaches_the_reorder_buffer_once_unchanged). "
    "What joins them and is NOT machine-checked: (a) the cryptographic link, stated as a hypothesis of the second lemma: a body that "
    "authenticates under phase_key(K, side, phase) for a side other than ours and a numeric phase was sealed by that side's Send "
    "for exactly that label, i.e. (by the first lemma) it is (str(k), sent[k]) - AEAD unforgeability plus 'only Send seals, and "
    "only under its own side'; (b) the induction over the sequence of inbound messages (each step is the lemma; the ghost "
    "'received so far' is the concatenation of the per-call `delivered` sequences); (c) that the step invariant is stable when the "
    "peer sends more (sent only grows at the end: immediate from its form); (d) queued-before-key sends (Send.queue + drain) reach "
    "the Mailbox in order under their own labels by Send.drain's contract - the sender lemma is stated for the steady state "
    "(deliver row)",
    "the relational lemmas restate trace terms of a clause (bcall_arg(..), input_arg(..), old(self.f)) as ghost values by textual "
    "substitution (props/c03.py: imported()); the substitution table is part of the trusted reading of the lemma",
    "not under contract: Boss.send -> Send.send -> Mailbox.add_message as ONE call chain (each hop is under contract: Boss.send, "
    "Send.send, and C09's Mailbox.add_message / rx_message_ours through the real table; the last two are run in C09's check)",
]
