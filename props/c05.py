"""C05 - `wormhole receive` writes only where it said it would, and never clobbers.

The filesystem is a *ghost* object `self._fs` (three sets of path strings: exists / isdir /
isfile) that the repository code never touches: os.path.exists/isdir/isfile read it,
os.remove/open/os.rename/zf.extract update it and leave a ("fs", op, args) event in the ghost
trace.  Contracts talk about the events (what was removed / opened / renamed / extracted /
chmod-ed, with which path) and about old(self._fs...) (what was there before).

POSIX only: os.path.join is *defined* (posixpath.join is three lines), basename is fully
characterised, abspath is uninterpreted with the axioms AX_* below (ground instances, each
cross-checked natively against posixpath by the uncounted task `posixpath-axioms`).
"""
import copy
import itertools
import time

import z3

from pyvc.contract import Contract
from pyvc.runner import ContractTask, FuncTask, ob
from pyvc.values import *   # noqa
from pyvc import values
from pyvc.values import J, OJ
from pyvc.models import uf
from pyvc.interp import decode_z3_string
from .common import make_registry, install_trace_funcs, register_classes

PROP = "C05"
RECV = "wormhole/cli/cmd_receive.py"

values.NT_DEFS.update({"ZipInfo": [("filename", "str"), ("external_attr", "int")]})


# ------------------------------------------------------------------ POSIX path theory
def S(x):
    return z3.StringVal(x)


SL = S("/")


def f_abspath():
    return uf("posix_abspath", StringS, StringS)


def f_basename():
    return uf("posix_basename", StringS, StringS)


def f_parent():
    """lexical parent of an absolute normalised path: normpath(join(p, '..'))"""
    return uf("posix_parent", StringS, StringS)


def z_join(a, b):
    """posixpath.join(a, b), exactly (its definition; more arguments fold from the left)"""
    return z3.If(z3.PrefixOf(SL, b), b,
                 z3.If(z3.Or(z3.Length(a) == 0, z3.SuffixOf(SL, a)), z3.Concat(a, b), z3.Concat(a, SL, b)))


def z_good(b):
    """a real single path component: non-empty, no separator, not a dot name"""
    return z3.And(b != S(""), z3.Not(z3.Contains(b, SL)), b != S("."), b != S(".."))


def AX_basename(p):
    """basename(p) has no '/', is the part of p after its last '/'"""
    r = f_basename()(p)
    return [z3.Not(z3.Contains(r, SL)), z3.SuffixOf(r, p),
            z3.Or(z3.Length(r) == z3.Length(p), z3.SubString(p, z3.Length(p) - z3.Length(r) - 1, 1) == SL)]


def AX_abspath(p):
    """abspath(p) is absolute, a fixed point of abspath, and has no trailing '/' (except the roots)"""
    A = f_abspath()
    r = A(p)
    return [z3.PrefixOf(SL, r), A(r) == r, z3.Implies(z3.SuffixOf(SL, r), z3.Or(r == SL, r == S("//")))]


def AX_abspath_join(d, b):
    """abspath(join(d, b)): a real component b is appended to abspath(d); '' and '.' give abspath(d)
    itself, '..' its lexical parent"""
    A = f_abspath()
    r, rd = A(z_join(d, b)), A(d)
    return [z3.Implies(z_good(b), r == z_join(rd, b)),
            z3.Implies(z3.Or(b == S(""), b == S(".")), r == rd),
            z3.Implies(b == S(".."), r == f_parent()(rd))]


def AX_parent(p):
    """the lexical parent of an absolute normalised path is absolute and normalised"""
    A = f_abspath()
    r = f_parent()(p)
    return [z3.Implies(A(p) == p, z3.And(A(r) == r, z3.PrefixOf(SL, r)))]


def path_facts_join(a, b):
    return AX_abspath(z_join(a, b)) + AX_abspath(a) + AX_abspath_join(a, b) + AX_parent(f_abspath()(a))


def fs_facts(fs, p):
    """POSIX filesystem facts, assumed of the ghost state at every path that is queried (they are
    preserved by the models of os.remove/open/os.rename below)"""
    ex, isd, isf = (fs.fields[k].z for k in ("exists", "isdir", "isfile"))
    par = f_parent()(p)
    return [z3.Implies(isd[p], ex[p]), z3.Implies(isf[p], z3.And(ex[p], z3.Not(isd[p]))),
            z3.Implies(z3.And(ex[p], f_abspath()(p) == p), z3.And(isd[par], ex[par])),
            isd[SL], ex[SL], isd[S("//")], ex[S("//")]]


def z_within(p, d):
    """p is the destination d, its temporary twin d + '.tmp', or strictly below d + '/'"""
    return z3.Or(p == d, p == z3.Concat(d, S(".tmp")), z_below(p, d))


def z_below(p, d):
    return z3.And(z3.PrefixOf(z3.Concat(d, SL), p), z3.Length(p) > z3.Length(d) + 1)


# ------------------------------------------------------------------ models of the library calls
def fs_of(it):
    fs = getattr(it.ctx, "fs", None)
    if fs is None:
        raise OutOfSubset("filesystem call without a bound ghost filesystem (self._fs)")
    return fs


def bind_fs(it, fr):
    cands = [fr.selfobj] + [v for v in fr.locals.values() if isinstance(v, VObj)]
    for o in cands:
        if isinstance(o, VObj) and isinstance(o.fields.get("_fs"), VObj):
            it.ctx.fs = o.fields["_fs"]
            a = o.fields.get("args")
            if isinstance(a, VObj):
                # aliases so that a counterexample carries the command-line options (read by replay/c05_replay.py)
                for k in ("cwd", "output_file", "accept_file"):
                    if k in a.fields:
                        fr.locals["_in_" + k] = a.fields[k]
            return
    raise OutOfSubset("no ghost filesystem in the pre-state")


def path_arg(it, v):
    """a str path argument of an os.* call; anything else is TypeError (os.fspath)"""
    v = it.force(v)
    if isinstance(v, VJson):
        v = it.json_narrow(v)
    if not (isinstance(v, VStr) and v.kind == "str"):
        it.raise_("TypeError", VStr("expected str, bytes or os.PathLike object"))
    return v


def sview(v):
    """spec-side view of a value as a str term (no forking; meaningless where it is not a str,
    and every clause guards that)"""
    if isinstance(v, VOpt):
        return sview(v.inner)
    if isinstance(v, VJson):
        return VStr(J.s(v.z), "str")
    if isinstance(v, VStr):
        return v
    raise OutOfSubset(f"path expression over {v!r}")


def assume_all(it, facts):
    for c in facts:
        it.ctx.assume(c)


def do_join(it, parts):
    r = parts[0].z
    for b in parts[1:]:
        assume_all(it, path_facts_join(r, b.z))
        r = z_join(r, b.z)
    return VStr(r, "str")


def do_abspath(it, p):
    assume_all(it, AX_abspath(p.z))
    return VStr(f_abspath()(p.z), "str")


def do_basename(it, p):
    assume_all(it, AX_basename(p.z))
    return VStr(f_basename()(p.z), "str")


def fs_event(it, op, *args):
    """one filesystem mutation: ("fs", op, args) for the clauses of this module, and the same call as a
    generic boundary event so that Contract.effects / bcalls() see it as well"""
    it.ctx.event("fs", op, list(args))
    it.ctx.event("bcall", "fs", op, list(args), {})


def may_fail(it, label, exc="OSError"):
    """the call may also fail for reasons outside the model (permissions, disk, ...): no effect then"""
    if it.ctx.choose([z3.BoolVal(True), z3.BoolVal(True)], label) == 1:
        it.raise_(exc, VStr(label))


def set_at(fs, kind, p, val):
    s = fs.fields[kind]
    s.z = z3.Store(s.z, p, z3.BoolVal(val) if isinstance(val, bool) else val)


def install_models(reg):
    em = reg.ext_models
    reg.ext_consts["os.sep"] = "/"
    reg.ext_consts["os.path.sep"] = "/"
    for e, b in (("EOFError", "Exception"), ("BadZipFile", "Exception"), ("zipfile.BadZipFile", "Exception"),
                 ("IsADirectoryError", "OSError"), ("PermissionError", "OSError")):
        reg.exc_bases.setdefault(e, b)
    reg.drop_calls = list(reg.drop_calls) + ["self.args.timing.add"]

    em["os.path.join"] = lambda it, args, kw: do_join(it, [path_arg(it, a) for a in args])
    em["os.path.abspath"] = lambda it, args, kw: do_abspath(it, path_arg(it, args[0]))
    em["os.path.basename"] = lambda it, args, kw: do_basename(it, path_arg(it, args[0]))
    em["os.path.dirname"] = lambda it, args, kw: VStr(uf("posix_dirname", StringS, StringS)(path_arg(it, args[0]).z), "str")
    # os.path.split(p) == (dirname(p), basename(p)); unicodedata.normalize: an uninterpreted function of (form, string)
    em["os.path.split"] = lambda it, args, kw: VTuple([
        VStr(uf("posix_dirname", StringS, StringS)(path_arg(it, args[0]).z), "str"), do_basename(it, path_arg(it, args[0]))])
    em["unicodedata.normalize"] = lambda it, args, kw: VStr(
        uf("unicode_normalize", StringS, StringS, StringS)(it.force(args[0]).z, sview(it.force(args[1])).z), "str")

    def query(kind):
        def f(it, args, kw):
            p = path_arg(it, args[0])
            fs = fs_of(it)
            assume_all(it, fs_facts(fs, p.z))
            return VBool(z3.Select(fs.fields[kind].z, p.z))
        return f

    em["os.path.exists"] = query("exists")
    em["os.path.isdir"] = query("isdir")
    em["os.path.isfile"] = query("isfile")

    def os_remove(it, args, kw):
        """unlink: fails on a directory or a missing path; otherwise the path is gone"""
        p = path_arg(it, args[0])
        fs = fs_of(it)
        assume_all(it, fs_facts(fs, p.z))
        ex, isd = fs.fields["exists"].z[p.z], fs.fields["isdir"].z[p.z]
        ok = z3.And(ex, z3.Not(isd))
        i = it.ctx.choose([ok, z3.Not(ok), ok], "os.remove")
        if i == 1:
            it.raise_("OSError", VStr("remove: no such file / is a directory"))
        if i == 2:
            it.raise_("PermissionError", VStr("remove"))
        fs_event(it, "remove", p)
        set_at(fs, "exists", p.z, False)
        set_at(fs, "isfile", p.z, False)
        return NONE

    em["os.remove"] = os_remove
    em["os.unlink"] = os_remove

    def rmtree(it, args, kw):
        p = path_arg(it, args[0])
        fs_event(it, "rmtree", p)
        havoc_fs(it)
        return NONE

    em["shutil.rmtree"] = rmtree

    def os_rename(it, args, kw):
        a, b = path_arg(it, args[0]), path_arg(it, args[1])
        fs = fs_of(it)
        may_fail(it, "os.rename")
        fs_event(it, "rename", a, b)
        for k in ("exists", "isdir", "isfile"):
            set_at(fs, k, b.z, fs.fields[k].z[a.z])
        for k in ("exists", "isdir", "isfile"):
            set_at(fs, k, a.z, False)
        return NONE

    em["os.rename"] = os_rename
    em["os.replace"] = os_rename

    def os_chmod(it, args, kw):
        p = path_arg(it, args[0])
        may_fail(it, "os.chmod")
        fs_event(it, "chmod", p, args[1] if len(args) > 1 else kw.get("mode", NONE))
        return NONE

    em["os.chmod"] = os_chmod

    def os_mkdir(it, args, kw):
        """mkdir / makedirs: creates the directory (and, for makedirs, missing parents): a write location"""
        p = path_arg(it, args[0])
        fs = fs_of(it)
        may_fail(it, "os.mkdir")
        fs_event(it, "mkdir", p)
        set_at(fs, "exists", p.z, True)
        set_at(fs, "isdir", p.z, True)
        return NONE

    em["os.mkdir"] = os_mkdir
    em["os.makedirs"] = os_mkdir

    def b_open(it, args, kw):
        p = path_arg(it, args[0])
        mode = it.concrete(it.force(args[1])) if len(args) > 1 else it.concrete(it.force(kw.get("mode", VStr("r"))))
        if not isinstance(mode, str):
            raise OutOfSubset("open() with a symbolic mode")
        may_fail(it, "open")
        f = VObj("File", {"name": p, "mode": VStr(mode), "_written": VStr(b"")})    # _written: ghost, bytes written through f
        if any(ch in mode for ch in "wax+"):
            fs = fs_of(it)
            it.ctx.assume(z3.Not(fs.fields["isdir"].z[p.z]))      # open() of a directory always fails
            fs_event(it, "open", p, VStr(mode))
            set_at(fs, "exists", p.z, True)
            set_at(fs, "isfile", p.z, True)
        else:
            it.ctx.event("fsread", "open", [p, VStr(mode)])
        return f

    em["builtins.open"] = b_open

    def statvfs(it, args, kw):
        path_arg(it, args[0])
        may_fail(it, "os.statvfs")
        return VObj("statvfs_result", {"f_frsize": it.fresh("int", "f_frsize"), "f_bfree": it.fresh("int", "f_bfree")})

    em["os.statvfs"] = statvfs

    def spooled(it, args, kw):
        return VObj("SpooledTemporaryFile", {"_written": VStr(b"")})

    em["tempfile.SpooledTemporaryFile"] = spooled

    def b_input(it, args, kw):
        may_fail(it, "input", "EOFError")
        s = it.fresh("str", "typed")
        it.ctx.event("input-line", s)
        return s

    em["builtins.input"] = b_input

    def naturalsize(it, args, kw):
        """humanize.naturalsize(value): float(value) first"""
        v = it.force(args[0])
        if isinstance(v, VJson):
            z = v.z
            i = it.ctx.choose([z3.Or(J.is_jint(z), J.is_jreal(z), J.is_jbool(z), J.is_jstr(z)), J.is_jstr(z),
                               z3.Or(J.is_jnull(z), J.is_jlist(z), J.is_jdict(z))], "naturalsize")
            if i == 1:
                it.raise_("ValueError", VStr("could not convert string to float"))
            if i == 2:
                it.raise_("TypeError", VStr("float() argument must be a string or a real number"))
        return it.fresh("str", "naturalsize")

    em["humanize.naturalsize"] = naturalsize

    def with_zipfile(it, item, fr):
        call = item.context_expr
        it.eval(call.args[0], fr)
        if it.ctx.choose([z3.BoolVal(True), z3.BoolVal(True)], "ZipFile()") == 1:
            it.raise_("BadZipFile", VStr("File is not a zip file"))
        zf = VObj("ZipFile", {"_infos": it.fresh("seq[nt[ZipInfo]]", "infolist")})
        if item.optional_vars is not None:
            it.assign(item.optional_vars, zf, fr)

    em["with:zipfile.ZipFile"] = with_zipfile

    def zf_infolist(it, recv, meth, args, kwargs, fr):
        return recv.fields["_infos"]

    def zf_extract(it, recv, meth, args, kwargs, fr):
        """ZipFile.extract(member, path): what it writes is the library's business (it sanitises the
        member name itself); recorded with both arguments, the ghost filesystem is havocked"""
        name = it.force(args[0])
        path = it.force(args[1] if len(args) > 1 else kwargs.get("path", NONE))
        if not isinstance(path, VStr):
            raise OutOfSubset("zf.extract without an explicit str path")
        may_fail(it, "zf.extract")
        fs_event(it, "extract", name, path)
        havoc_fs(it)
        return it.fresh("str", "extracted")

    reg.boundary["ZipFile.infolist"] = zf_infolist
    # zipfile.ZipInfo.is_dir(): the member's name ends with '/' (that is its definition in the library)
    reg.boundary["ZipInfo.is_dir"] = lambda it, recv, meth, args, kwargs, fr: VBool(
        z3.SuffixOf(z3.StringVal("/"), recv.items[recv.ntfields.index("filename")].z))
    reg.boundary["ZipFile.extract"] = zf_extract


def havoc_fs(it):
    fs = fs_of(it)
    for k in ("exists", "isdir", "isfile"):
        fs.fields[k].z = z3.Const(it.ctx.namer("fs_" + k), fs.fields[k].z.sort())


# ------------------------------------------------------------------ spec functions
def install_spec(reg):
    sf = reg.spec_funcs
    sf["pjoin"] = lambda it, *ps: do_join(it, [sview(p) for p in ps])
    sf["abspath"] = lambda it, p: do_abspath(it, sview(p))
    sf["basename"] = lambda it, p: do_basename(it, sview(p))
    sf["good_name"] = lambda it, b: VBool(z_good(sview(b).z))
    # pure connectives (no path forking, both sides always evaluated): for clauses whose consequent needs no guard
    sf["imp"] = lambda it, a, b: VBool(z3.Implies(it.truth(a), it.truth(b)))
    sf["falsy"] = lambda it, a: VBool(z3.Not(it.truth(a)))
    sf["truthy"] = lambda it, a: VBool(it.truth(a))
    sf["is_jstr"] = lambda it, x: VBool(J.is_jstr(x.z)) if isinstance(x, VJson) else VBool(isinstance(x, VStr))
    sf["jstr"] = lambda it, x: sview(x)
    sf["within"] = lambda it, p, d: VBool(z_within(sview(p).z, sview(d).z))
    sf["below"] = lambda it, p, d: VBool(z_below(sview(p).z, sview(d).z))
    sf["set_without"] = lambda it, s, x: VSet(z3.Store(s.z, sview(x).z, z3.BoolVal(False)), s.elem)
    sf["set_with"] = lambda it, s, x: VSet(z3.Store(s.z, sview(x).z, z3.BoolVal(True)), s.elem)

    def jfield(it, d, *keys):
        """d[k1][k2]... of a JSON value, as a pure term (unspecified where a key is missing)"""
        z = d.z
        for k in keys:
            z = OJ.v(z3.Select(J.d(z), z3.StringVal(it.concrete(k))))
        return VJson(z)

    sf["jfield"] = jfield

    def fs_wellformed_at(it, fs, p):
        return VBool(z3.And(fs_facts(fs, sview(p).z)))

    sf["fs_wellformed_at"] = fs_wellformed_at

    def evs(it, op=None):
        return [e[1] for e in it.ctx.trace if e[0] == "fs" and (op is None or e[1][0] == op)]

    sf["n_fs"] = lambda it, op=None: VInt(len(evs(it, it.concrete(op) if op is not None else None)))
    sf["fs_ops"] = lambda it: VList([VStr(e[0]) for e in evs(it)])

    def fs_arg(it, op, k, i):
        op, k, i = it.concrete(op), it.concrete(k), it.concrete(i)
        es = evs(it, op)
        if k >= len(es):
            return NONE          # the clause also counts the events, so it is false on this path
        return es[k][1][i]

    sf["fs_arg"] = fs_arg

    def fs_confined(it, dest):
        """every filesystem mutation so far (on this path) touches only dest, dest + '.tmp' or something
        strictly below dest + '/'; for zf.extract(name, path): path is dest and the nominal target
        abspath(join(path, name)) is strictly below it"""
        d = sview(dest).z
        cs = []
        for op, a in evs(it):
            if op in ("remove", "open", "chmod", "rmtree", "mkdir"):
                cs.append(z_within(a[0].z, d))
            elif op == "rename":
                cs += [z_within(a[0].z, d), z_within(a[1].z, d)]
            elif op == "extract":
                assume_all(it, path_facts_join(a[1].z, a[0].z))
                cs += [a[1].z == d, z_below(f_abspath()(z_join(a[1].z, a[0].z)), d)]
            else:
                cs.append(z3.BoolVal(False))
        return VBool(z3.And(cs + [z3.BoolVal(True)]))

    sf["fs_confined"] = fs_confined

    def fs_only(it, *ops):
        ops = {it.concrete(o) for o in ops}
        return VBool(all(op in ops for op, _ in evs(it)))

    sf["fs_only"] = fs_only

    def iter_fs_only(it, *ops):
        """the filesystem events of the current loop iteration (all of them outside a loop body) are of these kinds"""
        ops = {it.concrete(o) for o in ops}
        tr = it.ctx.trace
        marks = [i for i, e in enumerate(tr) if e[0] == "loop-body-start"]
        start = marks[-1] if marks else len(tr)
        return VBool(all(e[1][0] in ops for e in tr[start:] if e[0] == "fs"))

    sf["iter_fs_only"] = iter_fs_only

    def iter_evs(it):
        tr = it.ctx.trace
        marks = [i for i, e in enumerate(tr) if e[0] == "loop-body-start"]
        start = marks[-1] if marks else len(tr)
        return [e[1] for e in tr[start:] if e[0] == "fs"]

    sf["iter_fs_ops"] = lambda it: VList([VStr(e[0]) for e in iter_evs(it)])

    def iter_fs_arg(it, op, k, i):
        op, k, i = it.concrete(op), it.concrete(k), it.concrete(i)
        es = [e for e in iter_evs(it) if e[0] == op]
        if k >= len(es):
            return NONE
        return es[k][1][i]

    sf["iter_fs_arg"] = iter_fs_arg


# ------------------------------------------------------------------ contracts
B = "basename(jstr(destname))"
OUT = "abspath(pjoin(self.args.cwd, self.args.output_file))"
NO_OUT, HAS_OUT = "falsy(self.args.output_file)", "truthy(self.args.output_file)"
CWD_OK = ["abspath(self.args.cwd) in self._fs.isdir", "fs_wellformed_at(self._fs, abspath(self.args.cwd))"]
CWD_NOTE = "precondition: the working directory exists (and, POSIX, so does its lexical parent)"
SELF = {"args": "obj[Args]", "_fs": "obj[GhostFS]"}
SELF_D = dict(SELF, abs_destname="str")
NAME_NEEDED = f"({NO_OUT} or ({OUT} in self._fs.isdir))"
FS_MOD = [("self", "_fs", "exists"), ("self", "_fs", "isfile"), ("self", "_fs", "isdir")]
FS_FIELDS = ["_fs.exists", "_fs.isfile", "_fs.isdir"]
# the announced destination computed in the pre-state (used in raise conditions only)
DEST0 = (f"ite({HAS_OUT}, ite({OUT} in self._fs.isdir, abspath(pjoin(self.args.cwd, self.args.output_file, {B})), {OUT}), "
         f"abspath(pjoin(self.args.cwd, {B})))")
FNAME = "jfield(them_d, 'file', 'filename')"
DNAME = "jfield(them_d, 'directory', 'dirname')"
TARGET = "abspath(pjoin(extract_dir, info.filename))"
DEST_NORMAL = ("abspath(self.abs_destname) == self.abs_destname and self.abs_destname.startswith('/') "
               "and not self.abs_destname.endswith('/')")
OFFER_EXC = ["KeyError", "TypeError", "IndexError", "AttributeError", "ValueError"]
ENV_EXC = ["OSError", "EOFError"]


def dest_clauses(dest, name, strict):
    """the statement's three cases for the decided destination `dest`, given the offered name `name`.
    strict=False is _decide_destname on its own: with --output-file naming an existing directory and a
    dot name ('', '.', '..') it returns that directory (or its parent) when it does not delete - an
    *existing directory*, which _handle_file/_handle_directory then refuse to touch (proved there: strict=True)."""
    b = f"basename(jstr({name}))"
    old_isdir = "old(self._fs.isdir)"
    dir_case = f"good_name({b}) and {dest} == pjoin({OUT}, {b})"
    if not strict:
        dir_case = (f"ite(good_name({b}), {dest} == pjoin({OUT}, {b}), "
                    f"({dest} in {old_isdir}) and not self.args.accept_file)")
    return [
        ("no-output-file--direct-child-of-cwd-named-by-the-offers-basename",
         f"imp({NO_OUT}, good_name({b}) and {dest} == pjoin(abspath(self.args.cwd), {b}))"),
        ("output-file-not-an-existing-directory--exactly-that-path",
         f"imp({HAS_OUT} and not ({OUT} in {old_isdir}), {dest} == {OUT})"),
        ("output-file-is-an-existing-directory--direct-child-named-by-the-offers-basename",
         f"imp({HAS_OUT} and ({OUT} in {old_isdir}), {dir_case})"),
        ("no-output-file--destination-did-not-exist", f"imp({NO_OUT}, not ({dest} in old(self._fs.exists)))"),
    ]


def remove_rule(dest):
    return ("removes-at-most-the-destination-and-only-a-file-that-output-file-names",
            f"n_fs('remove') <= 1 and implies(n_fs('remove') == 1, fs_arg('remove', 0, 0) == {dest} and "
            f"({dest} in old(self._fs.isfile)) and not ({dest} in old(self._fs.isdir)) and {HAS_OUT})")


def raise_rule(name):
    """on every exceptional exit: nothing was opened/renamed/extracted; at most the announced file was removed"""
    b = f"basename(jstr({name}))"
    return ("nothing-written--at-most-the-announced-file-removed",
            "n_fs() == n_fs('remove') and n_fs('remove') <= 1 and implies(n_fs('remove') == 1, "
            f"fs_arg('remove', 0, 0) == self.abs_destname and (self.abs_destname in old(self._fs.isfile)) and {HAS_OUT} "
            f"and (self.abs_destname == {OUT} or (good_name({b}) and self.abs_destname == pjoin({OUT}, {b}))))")


def on_any_raise(excs, clauses):
    return {e: list(clauses) for e in excs}


def for_r(x):
    """a clause about `self` restated for the harness parameter `r`"""
    if isinstance(x, tuple):
        return (x[0], for_r(x[1]))
    return x.replace("self.", "r.")


HF_EXC = OFFER_EXC + ENV_EXC + ["TransferRejectedError"]
HD_EXC = HF_EXC + ["RespondError"]

# `ensures` are about values and the ghost filesystem (visible to callers); `internal_ensures` are about the
# ghost event trace of the call itself (checked on the callee side only)
CONTRACTS = [
    # ---------------------------------------------------------------- D1-D3
    Contract(f"{RECV}:Receiver._decide_destname", props=[PROP], params={"mode": "str", "destname": "json"},
             self_fields=SELF, requires=CWD_OK, pre_hook=bind_fs, modifies=FS_FIELDS, returns="str",
             raises_exactly={
                 "TypeError": f"not is_jstr(destname) and {NAME_NEEDED}",
                 # D2 (+ an existing directory is never replaced)
                 "TransferRejectedError": f"(is_jstr(destname) or not {NAME_NEEDED}) and ({DEST0} in self._fs.exists) and "
                                          f"({NO_OUT} or (self.args.accept_file and ({DEST0} in self._fs.isdir)))"},
             raises={"OSError": f"{HAS_OUT} and self.args.accept_file and ({DEST0} in self._fs.isfile)"},
             ensures=dest_clauses("result", "destname", strict=False) + [
                 ("with-accept-file-the-destination-is-now-free-of-files-and-directories",
                  "imp(self.args.accept_file, not (result in self._fs.isfile) and not (result in self._fs.isdir))"),
                 ("absolute-normalised", "abspath(result) == result and result.startswith('/')"),
                 ("directories-untouched", "self._fs.isdir == old(self._fs.isdir)")],
             internal_ensures=[
                 remove_rule("result"),
                 ("remove-only-with-accept-file", "implies(n_fs('remove') == 1, self.args.accept_file)"),
                 ("nothing-else-touched", "n_fs() == n_fs('remove')")],
             ensures_raise={"TransferRejectedError": [("nothing-touched", "n_fs() == 0")],
                            "TypeError": [("nothing-touched", "n_fs() == 0")],
                            "OSError": [("nothing-touched", "n_fs() == 0")]},
             note=CWD_NOTE),
    Contract(f"{RECV}:Receiver._remove_existing", props=[PROP], params={"path": "str"}, self_fields=SELF, pre_hook=bind_fs,
             modifies=FS_FIELDS,
             raises_exactly={"TransferRejectedError": "path in self._fs.isdir"},
             raises={"OSError": "path in self._fs.isfile"},
             ensures=[("ghost-exists-file-gone", "imp(path in old(self._fs.isfile), "
                                                 "self._fs.exists == set_without(old(self._fs.exists), path))"),
                      ("ghost-exists-otherwise-unchanged", "imp(not (path in old(self._fs.isfile)), "
                                                           "self._fs.exists == old(self._fs.exists))"),
                      ("directories-untouched", "self._fs.isdir == old(self._fs.isdir)")],
             internal_ensures=[
                 ("removes-exactly-that-path-iff-it-is-a-file",
                  "ite(path in old(self._fs.isfile), fs_ops() == ['remove'] and fs_arg('remove', 0, 0) == path, n_fs() == 0)")],
             ensures_raise={"TransferRejectedError": [("a-directory-is-never-removed", "n_fs() == 0")],
                            "OSError": [("nothing-touched", "n_fs() == 0")]}),
    Contract(f"{RECV}:Receiver._ask_permission", props=[PROP], params={}, self_fields=SELF_D, pre_hook=bind_fs,
             modifies=FS_FIELDS,
             raises={"TransferRejectedError": "not self.args.accept_file", "OSError": "not self.args.accept_file",
                     "EOFError": "not self.args.accept_file"},
             ensures=[("asked--destination-is-no-directory",
                       "imp(not self.args.accept_file, not (self.abs_destname in old(self._fs.isdir)) and "
                       "not (self.abs_destname in self._fs.isfile))"),
                      ("directories-untouched", "self._fs.isdir == old(self._fs.isdir)")],
             internal_ensures=[
                 ("removes-at-most-the-destination-file-after-consent",
                  "n_fs() == n_fs('remove') and n_fs('remove') <= 1 and implies(n_fs('remove') == 1, "
                  "fs_arg('remove', 0, 0) == self.abs_destname and (self.abs_destname in old(self._fs.isfile)) "
                  "and not self.args.accept_file)")],
             ensures_raise={e: [("nothing-touched", "n_fs() == 0")] for e in ("TransferRejectedError", "OSError", "EOFError")},
             loops={0: {"header": "True and (not self.args.accept_file)", "modifies": FS_MOD,
                        "invariant": ["self._fs.exists == at_entry(self._fs.exists)", "self._fs.isfile == at_entry(self._fs.isfile)",
                                      "self._fs.isdir == at_entry(self._fs.isdir)"]}},
             note="no iteration of the prompt loop completes (break or raise), so the invariant is the entry state"),

    # ---------------------------------------------------------------- D4: what gets opened / renamed / extracted
    Contract(f"{RECV}:Receiver._handle_file", props=[PROP], params={"them_d": "json"}, self_fields=SELF, requires=CWD_OK,
             pre_hook=bind_fs, raises={e: None for e in HF_EXC}, returns="obj[File]",
             modifies=["abs_destname", "xfersize"] + FS_FIELDS,
             ensures=dest_clauses("self.abs_destname", FNAME, strict=True) + [
                 ("the-returned-file-is-destination-dot-tmp", "result.name == self.abs_destname + '.tmp'"),
                 ("nothing-written-to-it-yet", "result._written == b''"),
                 ("an-existing-directory-is-never-the-destination", "not (self.abs_destname in old(self._fs.isdir))"),
                 ("directories-untouched", "self._fs.isdir == old(self._fs.isdir)")],
             internal_ensures=[
                 ("opens-exactly-destination-dot-tmp-for-writing",
                  "n_fs('open') == 1 and fs_arg('open', 0, 0) == self.abs_destname + '.tmp' and fs_arg('open', 0, 1) == 'wb' "
                  "and result.name == fs_arg('open', 0, 0)"),
                 remove_rule("self.abs_destname"),
                 ("nothing-else-touched", "fs_ops() == ['open'] or fs_ops() == ['remove', 'open']"),
                 ("confined", "fs_confined(self.abs_destname)")],
             ensures_raise=on_any_raise(HF_EXC, [raise_rule(FNAME)]),
             note=CWD_NOTE + "; them_d is the peer's offer: any JSON value"),
    Contract(f"{RECV}:Receiver._handle_directory", props=[PROP], params={"them_d": "json"}, self_fields=SELF, requires=CWD_OK,
             pre_hook=bind_fs, raises={e: None for e in HD_EXC}, returns="obj[SpooledTemporaryFile]",
             modifies=["abs_destname", "xfersize"] + FS_FIELDS,
             ensures=dest_clauses("self.abs_destname", DNAME, strict=True) + [
                 ("an-existing-directory-is-never-the-destination", "not (self.abs_destname in old(self._fs.isdir))"),
                 ("destination-is-absolute-normalised-without-trailing-separator", DEST_NORMAL),
                 ("nothing-written-to-the-spool-yet", "result._written == b''"),
                 ("directories-untouched", "self._fs.isdir == old(self._fs.isdir)")],
             internal_ensures=[
                 remove_rule("self.abs_destname"),
                 ("nothing-else-touched-nothing-opened", "fs_ops() == [] or fs_ops() == ['remove']")],
             ensures_raise=on_any_raise(HD_EXC, [raise_rule(DNAME)]),
             note=CWD_NOTE),
    Contract(f"{RECV}:Receiver._write_file", props=[PROP], params={"f": "obj[File]"}, self_fields=SELF_D, pre_hook=bind_fs,
             modifies=FS_FIELDS, raises={"OSError": None},
             effects=[("close", []), ("rename", ["f.name", "self.abs_destname"])],
             internal_ensures=[("one-rename-of-the-open-file-onto-the-destination",
                                "fs_ops() == ['rename'] and fs_arg('rename', 0, 0) == f.name and fs_arg('rename', 0, 1) == self.abs_destname")],
             ensures_raise={"OSError": [("nothing-touched", "n_fs() == 0")]}),
    Contract(f"{RECV}:Receiver._extract_file", props=[PROP],
             params={"zf": "obj[ZipFile]", "info": "nt[ZipInfo]", "extract_dir": "str"}, self_fields=SELF, pre_hook=bind_fs,
             modifies=FS_FIELDS,
             requires=["extract_dir.startswith('/') and not extract_dir.endswith('/')"],
             raises_exactly={"ValueError": f"not {TARGET}.startswith(extract_dir + '/')"}, raises={"OSError": None},
             ensures=[("extract-reached-only-for-a-target-strictly-below-extract-dir", f"below({TARGET}, extract_dir)")],
             internal_ensures=[
                 ("extract-into-extract-dir-then-chmod-of-that-target",
                  "fs_ops() == ['extract', 'chmod'] and fs_arg('extract', 0, 0) == info.filename and "
                  f"fs_arg('extract', 0, 1) == extract_dir and fs_arg('chmod', 0, 0) == {TARGET}")],
             ensures_raise={"ValueError": [("nothing-touched", "n_fs() == 0")],
                            "OSError": [("confined", "fs_confined(extract_dir) and fs_only('extract')")]},
             note="the CVE-0.24 shape: the separator is part of the prefix test"),
    Contract(f"{RECV}:Receiver._write_directory", props=[PROP], params={"f": "obj[SpooledTemporaryFile]"}, self_fields=SELF_D,
             pre_hook=bind_fs, requires=[DEST_NORMAL], modifies=FS_FIELDS,
             raises={"ValueError": None, "OSError": None, "BadZipFile": None},
             internal_ensures=[("every-member-lands-strictly-below-the-destination",
                                "fs_confined(self.abs_destname) and fs_only('extract', 'chmod')")],
             ensures_raise=on_any_raise(["ValueError", "OSError", "BadZipFile"],
                                        [("confined", "fs_confined(self.abs_destname) and fs_only('extract', 'chmod')")]),
             loops={0: {"header": "for info in zf.infolist()", "modifies": FS_MOD,
                        "invariant": ["fs_confined(self.abs_destname)", "iter_fs_only('extract', 'chmod')"],
                        # C04: the tree produced is the tree that was sent: EVERY member of the archive (files and the
                        # explicit entries of empty directories alike) is unpacked, once, into the announced destination
                        "body_ensures": ["iter_fs_ops() == ['extract', 'chmod'] and iter_fs_arg('extract', 0, 0) == info.filename and "
                                         "iter_fs_arg('extract', 0, 1) == self.abs_destname"]}},
             note="the invariant is over the ghost event trace: events before the loop at entry, plus those of the iteration "
                  "when it is re-established; the exit path carries the events before and after the loop"),
    # ---------------------------------------------------------------- composition (callees by contract only)
    Contract("lemma:receive_file", props=[PROP], source_module=RECV, params={"r": "obj[Receiver]", "them_d": "json"},
             source_text="""
             def receive_file(r, them_d):
                 f = r._handle_file(them_d)
                 r._write_file(f)
                 return f
             """,
             pre_hook=bind_fs, requires=[for_r(x) for x in CWD_OK], raises={e: None for e in HF_EXC},
             ensures=[for_r(x) for x in dest_clauses("self.abs_destname", FNAME, strict=True)] + [
                 ("the-temporary-file-is-what-gets-renamed-onto-the-announced-destination",
                  "bcalls('rename') == 1 and bcall_arg('rename', 0, 0) == r.abs_destname + '.tmp' and "
                  "bcall_arg('rename', 0, 1) == r.abs_destname")],
             ensures_raise=on_any_raise(HF_EXC, [("no-final-file", "bcalls('rename') == 0")]),
             note="over the contracts of _handle_file and _write_file: the file that is opened is dest.tmp and that is the "
                  "one renamed onto dest; on any failure no rename happened"),
    Contract("lemma:receive_directory", props=[PROP], source_module=RECV, params={"r": "obj[Receiver]", "them_d": "json"},
             source_text="""
             def receive_directory(r, them_d):
                 f = r._handle_directory(them_d)
                 r._write_directory(f)
             """,
             pre_hook=bind_fs, requires=[for_r(x) for x in CWD_OK],
             raises={e: None for e in HD_EXC + ["BadZipFile"]},
             ensures=[for_r(x) for x in dest_clauses("self.abs_destname", DNAME, strict=True)],
             note="over the contracts of _handle_directory and _write_directory: what the first establishes about the "
                  "destination (absolute, normalised, no trailing separator) is what the second requires for confinement"),
]

for _c in CONTRACTS:
    if not _c.target.startswith("lemma:"):
        _c.replay = {"driver": "c05_replay:run"}

HELPERS = {f"{RECV}:Receiver._decide_destname", f"{RECV}:Receiver._remove_existing", f"{RECV}:Receiver._ask_permission",
           f"{RECV}:Receiver._extract_file"}


def regf(modular=False):
    reg = make_registry()
    install_trace_funcs(reg)
    register_classes(reg, ["wormhole/errors.py", RECV])
    install_models(reg)
    install_spec(reg)
    reg.class_fields["GhostFS"] = {"exists": "set[str]", "isdir": "set[str]", "isfile": "set[str]"}
    reg.class_fields["Args"] = {"cwd": "str", "output_file": "opt[str]", "accept_file": "bool", "hide_progress": "bool",
                                "stderr": "obj[Stream]", "stdout": "obj[Stream]", "timing": "obj[Timing]"}
    reg.class_fields["Receiver"] = {"args": "obj[Args]", "_fs": "obj[GhostFS]", "abs_destname": "str", "xfersize": "json"}
    reg.class_fields["File"] = {"name": "str", "_written": "bytes"}
    reg.class_fields["ZipFile"] = {"_infos": "seq[nt[ZipInfo]]"}
    reg.class_fields["SpooledTemporaryFile"] = {"_written": "bytes"}
    for c in CONTRACTS:
        # the small helpers are *inlined* at their call sites inside Receiver (their filesystem events must be seen
        # by the caller's clauses); each is still verified on its own against its own contract.  The lemmas use
        # _handle_file/_handle_directory/_write_file/_write_directory by contract only.
        c2 = copy.copy(c)
        c2.inline = c.target in HELPERS or not modular
        reg.contracts[c.target] = c2
    return reg


def regf_modular():
    return regf(modular=True)


# ------------------------------------------------------------------ bounded native cross-check of the axioms
def nat_eval(t, native):
    """evaluate a ground z3 term, interpreting the uninterpreted posix_* functions by CPython's posixpath"""
    t = z3.simplify(t)
    if z3.is_app(t) and t.num_args() > 0:
        kids = [nat_eval(c, native) for c in t.children()]
        name = t.decl().name()
        if name in native:
            if not z3.is_string_value(kids[0]):
                raise ValueError(f"argument of {name} did not reduce: {kids[0]}")
            return z3.StringVal(native[name](decode_z3_string(kids[0].as_string())))
        return z3.simplify(t.decl()(*kids))
    return t


def axiom_crosscheck(tier, seed):
    """each axiom generator AX_*(...) is instantiated with concrete strings and evaluated with the real
    posixpath functions in place of the uninterpreted symbols (several process working directories)"""
    import os
    import posixpath
    import random
    t0 = time.time()
    rnd = random.Random(seed)
    paths = set()
    for n in (1, 2, 3):
        for combo in itertools.product(["", ".", "..", "a", "bb", "~", "c.d"], repeat=n):
            for lead in ("", "/", "//", "///"):
                for trail in ("", "/"):
                    paths.add(lead + "/".join(combo) + trail)
    paths = sorted(paths)
    rnd.shuffle(paths)
    paths = paths[:110] + ["", "/", "//", "///", ".", "..", "../..", "/..", "//..", "a/../..", "/a/b/../../..", "~/.ssh/authorized_keys"]
    names = ["", ".", "..", "a", "b.txt", "..a", "...", " ", "~", "a/b", "/etc/passwd", "../x", "x/", "/"]
    results = {}

    def check(axname, facts, witness):
        st = results.setdefault(axname, {"n": 0, "bad": None})
        for k, f in enumerate(facts):
            st["n"] += 1
            v = nat_eval(f, native)
            if not z3.is_true(v) and st["bad"] is None:
                st["bad"] = f"{witness} clause {k}: {v}"

    real_getcwd = os.getcwd
    try:
        for cwd in ("/", "/home/u", "/tmp/x y"):
            os.getcwd = lambda cwd=cwd: cwd
            native = {"posix_abspath": posixpath.abspath, "posix_basename": posixpath.basename,
                      "posix_parent": lambda p: posixpath.normpath(posixpath.join(p, ".."))}
            for p in paths:
                check("AX_basename", AX_basename(S(p)), f"p={p!r} cwd={cwd!r}")
                check("AX_abspath", AX_abspath(S(p)), f"p={p!r} cwd={cwd!r}")
                check("AX_parent", AX_parent(S(posixpath.abspath(p))), f"p={posixpath.abspath(p)!r}")
                # the definition of join used by the encoding against the real one (2 and 3 arguments)
                for b in names:
                    st = results.setdefault("z_join == posixpath.join", {"n": 0, "bad": None})
                    st["n"] += 1
                    got = z3.simplify(z_join(S(p), S(b)))
                    if decode_z3_string(got.as_string()) != posixpath.join(p, b) and st["bad"] is None:
                        st["bad"] = f"join({p!r}, {b!r})"
                    check("AX_abspath_join", AX_abspath_join(S(p), S(b)), f"d={p!r} b={b!r} cwd={cwd!r}")
    finally:
        os.getcwd = real_getcwd
    obs = []
    for axname, st in results.items():
        obs.append(ob(f"posixpath-axioms.{axname}", "discharged" if st["bad"] is None else "failed", "evaluation", 0.0, False,
                      None, {"kind": "axiom-crosscheck", "src": axname, "definite": True}, smt_hash=axname,
                      detail=f"{st['n']} ground instances evaluated against posixpath" if st["bad"] is None else st["bad"]))
    return {"obligations": obs, "info": {"target": None, "paths": 1, "wall": round(time.time() - t0, 3)}}


def tasks():
    out = [ContractTask(c, regf_modular if c.target.startswith("lemma:") else regf) for c in CONTRACTS]
    out.append(FuncTask("posixpath-axioms", axiom_crosscheck, counted=False, kind="bounded-crosscheck"))
    return out


TRUSTED = [
    "z3/cvc5", "pyvc semantics of the Python subset (DESIGN 2.2), JSON sort for offer fields",
    "POSIX only (os.sep == '/'): os.path.join is encoded by its definition; Windows paths are not covered",
    "AX_basename: basename(p) contains no '/', is a suffix of p, and is all of p or preceded by '/' (= its definition)",
    "AX_abspath: abspath(p) starts with '/', abspath(abspath(p)) == abspath(p), no trailing '/' except '/' and '//'; "
    "abspath depends on the path only (the process working directory does not change during a call)",
    "AX_abspath_join: for b without '/', b not in {'', '.', '..'}: abspath(join(d, b)) == join(abspath(d), b); "
    "abspath(join(d, '')) == abspath(join(d, '.')) == abspath(d); abspath(join(d, '..')) == parent(abspath(d))",
    "AX_parent: parent(p) = normpath(join(p, '..')) of an absolute normalised path is absolute and normalised",
    "each AX_* is evaluated on a few thousand concrete instances against CPython's posixpath in the uncounted task "
    "'posixpath-axioms' (bounded cross-check, not a proof)",
    "filesystem facts assumed of the ghost state at every queried path: isdir(p) => exists(p); isfile(p) => exists(p) and "
    "not isdir(p); an existing absolute normalised path has an existing directory as lexical parent; '/' and '//' are directories",
    "os.remove(p): fails unless p exists and is not a directory, otherwise p is gone; may also fail (no effect); "
    "open(p, 'wb') creates/truncates the regular file p or fails; os.rename(a, b) moves a onto b or fails; "
    "os.chmod / os.statvfs / input() may fail; ZipFile.extract(name, path) is recorded with both arguments and the "
    "ghost filesystem is havocked (what zipfile writes for a name that passed the check is the library's business)",
    "humanize.naturalsize, repr, str formatting: return some str or raise TypeError/ValueError",
]
ASSUMPTIONS = [
    "the working directory exists and is a directory (args.cwd is os.getcwd())",
    "no other process changes the filesystem between the checks and the writes (symlink races are out of scope)",
    "the anonymous tempfile.SpooledTemporaryFile used for an incoming zip archive has no name in the filesystem and is "
    "not counted as a write location",
    "_decide_destname on its own: with --output-file naming an existing directory, a dot name ('', '.', '..') and no "
    "--accept-file it returns an existing directory (the output directory or its parent); _handle_file/_handle_directory "
    "are proved never to open/return in that case (the prompt path refuses existing directories)",
    "the loop invariant of _write_directory is stated over the ghost event trace (events before the loop, plus those of "
    "the current iteration); the exit path carries only the events outside the loop",
]
