"""C16 - the Leader replaces a silent peer connection and never drops a responsive one.

(a) TrafficTimer (the real Automat table): a ghost counter `missed` (interval expiries since the
    last traffic / (re)arming while connected) is tied to the machine state by the coupling
    invariant `tt_inv`; every input is a contract over the ghost counter: on_reconnect is
    invoked exactly on the expiry that makes it the second in a row, traffic resets, nothing is
    signalled without a connection, timing is (re)armed on connection and after a single expiry.
(b) Manager timer arithmetic over a ghost clock: reactor.callLater / DelayedCall.delay / reset /
    cancel are boundary handlers on obj[Reactor] / obj[DelayedCall] with ghost fields
    (now, npending / deadline, pending, func); floats are reals.  Lemma harnesses run the real
    Manager methods together with the real TrafficTimer table and fire the ghost timer.
(c) ping bookkeeping (send_ping / handle_pong), arming on connection (Leader only), cancelling
    on loss / abandon / stop."""
import z3

from pyvc.contract import Contract
from pyvc.runner import ContractTask
from pyvc.automat import AutomatSupport
from pyvc.values import *   # noqa
from pyvc import values, source
from .common import make_registry, install_trace_funcs, register_classes

PROP = "C16"
MGR = "wormhole/_dilation/manager.py"

values.NT_DEFS.update({
    "KCM": [], "Ping": [("ping_id", "bytes")], "Pong": [("ping_id", "bytes")],
    "Ack": [("resp_seqnum", "int")],
})


# ------------------------------------------------------------------ boundary models
def opaque_callback(name):
    """a callable handed in from outside (TrafficTimer.on_reconnect / start_timer, a ping's
    on_pong): calling it is a boundary event carrying the callable and its arguments"""
    def h(it, f, args, kwargs):
        it.ctx.event("bcall", "callback", name, [f] + list(args), dict(kwargs))
        return NONE
    return h


def reactor_seconds(it, recv, meth, args, kwargs, fr):
    return recv.fields["now"]


def reactor_callLater(it, recv, meth, args, kwargs, fr):
    """IReactorTime.callLater(t, f): a new pending DelayedCall due at now + t"""
    t = it.force(args[0])
    dc = VObj("DelayedCall", {"deadline": VReal(it._real(recv.fields["now"]) + it._real(t)), "pending": VBool(True),
                              "func": args[1], "reactor": recv})
    recv.fields["npending"] = VInt(recv.fields["npending"].z + 1)
    it.ctx.event("bcall", "Reactor", "callLater", [t, args[1], dc], {})
    return dc


def _need_pending(it, dc, meth):
    """Twisted: delay/reset/cancel on a call that already ran or was cancelled raises
    AlreadyCalled / AlreadyCancelled"""
    it.ctx.prove(dc.fields["pending"].z, f"DelayedCall.{meth}.still-pending",
                 {"kind": "call-requires", "src": f"DelayedCall.{meth}() only on a call that is still pending "
                                                   "(else AlreadyCalled/AlreadyCancelled)"})
    it.ctx.assume(dc.fields["pending"].z)


def dc_delay(it, recv, meth, args, kwargs, fr):
    """DelayedCall.delay(s): the deadline moves to (currently scheduled time) + s"""
    _need_pending(it, recv, meth)
    s = it.force(args[0])
    recv.fields["deadline"] = VReal(it._real(recv.fields["deadline"]) + it._real(s))
    it.ctx.event("bcall", "DelayedCall", "delay", [s, recv], {})
    return NONE


def dc_reset(it, recv, meth, args, kwargs, fr):
    """DelayedCall.reset(s): the deadline moves to now + s"""
    _need_pending(it, recv, meth)
    s = it.force(args[0])
    recv.fields["deadline"] = VReal(it._real(recv.fields["reactor"].fields["now"]) + it._real(s))
    it.ctx.event("bcall", "DelayedCall", "reset", [s, recv], {})
    return NONE


def dc_cancel(it, recv, meth, args, kwargs, fr):
    _need_pending(it, recv, meth)
    recv.fields["pending"] = VBool(False)
    r = recv.fields["reactor"]
    r.fields["npending"] = VInt(r.fields["npending"].z - 1)
    it.ctx.event("bcall", "DelayedCall", "cancel", [recv], {})
    return NONE


def new_connector(it, cls, args, kwargs):
    """Connector(...) is a collaborator here (its own machine is C17's business)"""
    o = VObj("ConnectorB", {})
    it.ctx.event("bcall", "ConnectorB", "__init__", list(args), dict(kwargs))
    return o


def fire_timer(it, dc):
    """ghost reactor step used by the lemma harnesses: the pending call `dc` becomes due: the clock
    advances to its deadline and its function runs (the real closure given to callLater)"""
    dc = it.force(dc)
    if dc is NONE:
        it.ctx.prove(False, "fire_timer.a-timer-is-pending", {"kind": "harness", "definite": True,
                                                              "src": "an interval timer is pending at this point"})
        from pyvc.ctx import PathEnd
        raise PathEnd("no timer to fire")
    it.ctx.prove(dc.fields["pending"].z, "fire_timer.a-timer-is-pending",
                 {"kind": "harness", "src": "an interval timer is pending at this point"})
    it.ctx.assume(dc.fields["pending"].z)
    r = dc.fields["reactor"]
    it.ctx.assume(it._real(dc.fields["deadline"]) >= it._real(r.fields["now"]))
    dc.fields["pending"] = VBool(False)
    r.fields["npending"] = VInt(r.fields["npending"].z - 1)
    r.fields["now"] = VReal(it._real(dc.fields["deadline"]))
    it.ctx.event("fire", dc)
    return it.call(dc.fields["func"], [], {}, None)


MANAGER_FIELDS = {"_timer": "opt[obj[DelayedCall]]", "_reactor": "obj[Reactor]", "_ping_interval": "real",
                  "_traffic": "obj[TrafficTimer]", "_connection": "opt[obj[ConnectionB]]",
                  "_pings_outstanding": "dict[bytes,tuple[opt[opaque[on_pong]],real]]", "_outbound": "obj[OutboundB]"}


def _bound(it, obj, name):
    fd = source.find_func(f"{MGR}:Manager.{name}")
    return VFunc(fd, obj, None, name)


def wire(it, mgr):
    """what Manager/TrafficTimer construction establishes: the TrafficTimer's two callbacks are the
    Manager's own _signal_reconnect / _send_ping_reset_timer; a pending _timer belongs to _reactor"""
    tt = mgr.fields.get("_traffic")
    if isinstance(tt, VOpt):
        tt = tt.inner
    if isinstance(tt, VObj):
        tt.fields["on_reconnect"] = _bound(it, mgr, "_signal_reconnect")
        tt.fields["start_timer"] = _bound(it, mgr, "_send_ping_reset_timer")
    tm = mgr.fields.get("_timer")
    if isinstance(tm, VOpt):
        tm = tm.inner
    if isinstance(tm, VObj) and "_reactor" in mgr.fields:
        tm.fields["reactor"] = mgr.fields["_reactor"]


def wire_self(it, fr):
    wire(it, fr.locals["self"])


def wire_mgr(it, fr):
    wire(it, fr.locals["mgr"])


def role_hook(it, fr):
    """_my_role is None (before PLEASE), LEADER or FOLLOWER"""
    i = it.ctx.choose([z3.BoolVal(True)] * 3, "role")
    fr.locals["self"].fields["_my_role"] = [NONE, _role(it.reg, "LEADER"), _role(it.reg, "FOLLOWER")][i]
    wire(it, fr.locals["self"])


def _role(reg, name):
    return reg.role_objs.setdefault(name, VObj("_Role", {"_which": VStr(name)}))


def regf(exclude=()):
    reg = make_registry()
    install_trace_funcs(reg)
    register_classes(reg, ["wormhole/errors.py", MGR])
    reg.automat = AutomatSupport()
    for c in CONTRACTS:
        if c.target not in exclude:
            reg.contracts[c.target] = c
    reg.role_objs = {}
    reg.ext_models["global:wormhole/_dilation/roles.py:LEADER"] = lambda it: _role(it.reg, "LEADER")
    reg.ext_models["global:wormhole/_dilation/roles.py:FOLLOWER"] = lambda it: _role(it.reg, "FOLLOWER")
    reg.ext_models["call_opaque:on_reconnect"] = opaque_callback("on_reconnect")
    reg.ext_models["call_opaque:start_timer"] = opaque_callback("start_timer")
    reg.ext_models["call_opaque:on_pong"] = opaque_callback("on_pong")
    reg.class_fields["TrafficTimer"] = {"__state": "state", "on_reconnect": "opaque[on_reconnect]",
                                        "start_timer": "opaque[start_timer]"}
    reg.class_fields["Reactor"] = {"now": "real", "npending": "int"}
    reg.class_fields["DelayedCall"] = {"deadline": "real", "pending": "bool"}
    reg.class_fields["Manager"] = dict(MANAGER_FIELDS)
    reg.boundary["Reactor.seconds"] = reactor_seconds
    reg.boundary["Reactor.callLater"] = reactor_callLater
    reg.boundary["DelayedCall.delay"] = dc_delay
    reg.boundary["DelayedCall.reset"] = dc_reset
    reg.boundary["DelayedCall.cancel"] = dc_cancel
    reg.func_models["wormhole/util.py:dict_to_bytes"] = lambda it, args, kwargs, fr: it.fresh("bytes", "json_bytes")
    reg.ext_models["new:Connector"] = new_connector
    # status reporting is not part of this property (dropped syntax, listed in ASSUMPTIONS)
    reg.drop_calls = list(reg.drop_calls) + ["self._peer_saw_ping", "self._maybe_send_status"]
    sf = reg.spec_funcs
    sf["fire_timer"] = fire_timer

    def tt_inv(it, tt, conn, missed):
        """coupling invariant of the ghost counter and the TrafficTimer state"""
        tt = it.force(tt)
        m = it.reg.automat.machine_of(it.reg.repo_classes["TrafficTimer"])
        st = tt.fields["__state"].z
        conn, missed = it.force(conn), it.force(missed)
        cz = conn.z if isinstance(conn, VBool) else it.truth(conn)
        return VBool(z3.And(
            (st == m.index("no_connection")) == z3.Not(cz),
            (st == m.index("connected")) == z3.And(cz, missed.z == 0),
            (st == m.index("idle_traffic")) == z3.And(cz, missed.z == 1),
            z3.Implies(z3.Not(cz), missed.z == 0), missed.z >= 0, missed.z <= 1))

    sf["tt_inv"] = tt_inv

    def n_calls(it, suffix):
        suffix = it.concrete(suffix)
        return VInt(sum(1 for e in it.ctx.trace if e[0] == "call" and e[1][0].endswith(suffix)))

    sf["n_calls"] = n_calls

    def call_arg(it, suffix, k, i):
        """argument i (0 = self) of the k-th call, by contract, of the function named suffix"""
        suffix, k, i = it.concrete(suffix), it.concrete(k), it.concrete(i)
        evs = [e for e in it.ctx.trace if e[0] == "call" and e[1][0].endswith(suffix)]
        if k >= len(evs):
            it.ctx.prove(False, f"call_arg.{suffix}.was-called", {"kind": "harness", "definite": True})
            from pyvc.ctx import PathEnd
            raise PathEnd("no such call")
        return evs[k][1][1][i]

    sf["call_arg"] = call_arg

    def timer_ok(it, mgr):
        """Manager timer invariant: _timer is None and nothing is pending, or _timer is the one
        pending call (whose deadline has not passed)"""
        mgr = it.force(mgr)
        tm = mgr.fields["_timer"]
        r = mgr.fields["_reactor"]
        npend = r.fields["npending"].z

        def pend(o):
            return z3.And(o.fields["pending"].z, npend == 1,
                          it._real(o.fields["deadline"]) >= it._real(r.fields["now"]))
        if tm is NONE:
            return VBool(npend == 0)
        if isinstance(tm, VOpt):
            return VBool(z3.If(tm.isnone, npend == 0, pend(tm.inner)))
        return VBool(pend(tm))

    sf["timer_ok"] = timer_ok

    def no_timer(it, mgr):
        mgr = it.force(mgr)
        tm = mgr.fields["_timer"]
        npend = mgr.fields["_reactor"].fields["npending"].z
        if tm is NONE:
            return VBool(npend == 0)
        if isinstance(tm, VOpt):
            return VBool(z3.And(tm.isnone, npend == 0))
        return VBool(False)

    sf["no_timer"] = no_timer

    def wired(it, mgr):
        """the TrafficTimer (if any) calls back into this very Manager"""
        mgr = it.force(mgr)
        tt = mgr.fields.get("_traffic")
        conds = []

        def one(o):
            ok = True
            for fld, nm in (("on_reconnect", "_signal_reconnect"), ("start_timer", "_send_ping_reset_timer")):
                f = o.fields.get(fld)
                ok = ok and isinstance(f, VFunc) and f.bound is mgr and f.name == nm
            return z3.BoolVal(bool(ok))
        if tt is NONE or tt is None:
            return VBool(True)
        if isinstance(tt, VOpt):
            return VBool(z3.Or(tt.isnone, one(tt.inner)))
        return VBool(one(tt))

    sf["wired"] = wired
    return reg


def regf_inline_timer():
    """for the harnesses: _send_ping_reset_timer / _signal_reconnect are executed, not replaced by
    their contracts"""
    return regf(exclude=(f"{MGR}:Manager._send_ping_reset_timer", f"{MGR}:Manager._signal_reconnect"))


TT = f"{MGR}:TrafficTimer"
M = f"{MGR}:Manager"
TT_FIELDS = {"__state": "state", "on_reconnect": "opaque[on_reconnect]", "start_timer": "opaque[start_timer]"}
GHOST = {"conn": "bool", "missed": "int"}
PINGS = "dict[bytes,tuple[opt[opaque[on_pong]],real]]"
TIMER_FIELDS = {"_timer": "opt[obj[DelayedCall]]", "_reactor": "obj[Reactor]"}

CONN_FIELDS = dict(TIMER_FIELDS, __state="state", _my_role="none", _ping_interval="real", _traffic="opt[obj[TrafficTimer]]",
                   _connection="opt[obj[ConnectionB]]", _inbound="obj[InboundB]", _outbound="obj[OutboundB]",
                   _made_first_connection="bool", _main_channel="obj[ObserverB]", _pings_outstanding=PINGS)
LOST_FIELDS = dict(TIMER_FIELDS, __state="state", _my_role="none", _traffic="opt[obj[TrafficTimer]]",
                   _connection="opt[obj[ConnectionB]]", _inbound="obj[InboundB]", _outbound="obj[OutboundB]",
                   _next_dilation_generation="int", _S="obj[SendB]", _dilation_key="opt[bytes]",
                   _transit_relay_location="opt[str]", _eventual_queue="obj[EventualQueueB]", _cooperator="obj[CooperatorB]",
                   _no_listen="bool", _my_side="str", _debug_stall_connector="bool", _stopped="obj[ObserverB]",
                   _connector="obj[ConnectorB]")

CONTRACTS = [
    # ---------------------------------------------------------------- (a) TrafficTimer
    Contract(f"{TT}.got_connection", props=[PROP], params={}, self_fields=TT_FIELDS, ghost=GHOST, modifies=["__state"],
             requires=["tt_inv(self, conn, missed)", "not conn"],
             ensures=[("armed-once", "bcalls('start_timer') == 1 and len(bcall_names()) == 1"),
                      ("counter-starts-at-zero", "tt_inv(self, True, 0)")],
             note="only legal without a connection (the Manager calls it from connector_connection_made); arms the timer"),
    Contract(f"{TT}.lost_connection", props=[PROP], params={}, self_fields=TT_FIELDS, ghost=GHOST, modifies=["__state"],
             requires=["tt_inv(self, conn, missed)", "conn"],
             ensures=[("nothing-signalled", "len(bcall_names()) == 0"),
                      ("monitoring-stops", "tt_inv(self, False, 0)")]),
    Contract(f"{TT}.traffic_seen", props=[PROP], params={}, self_fields=TT_FIELDS, ghost=GHOST, modifies=["__state"],
             requires=["tt_inv(self, conn, missed)", "conn"],
             ensures=[("never-reconnects", "bcalls('on_reconnect') == 0"),
                      ("counter-reset", "tt_inv(self, True, 0)"),
                      ("rearmed-when-nothing-was-missed", "implies(missed == 0, bcalls('start_timer') == 1 and len(bcall_names()) == 1)"),
                      ("running-timer-kept-after-a-miss", "implies(missed == 1, len(bcall_names()) == 0)")]),
    Contract(f"{TT}.interval_elapsed", props=[PROP], params={}, self_fields=TT_FIELDS, ghost=GHOST, modifies=["__state"],
             requires=["tt_inv(self, conn, missed)"],
             ensures=[("reconnect-exactly-on-second-miss",
                       "bcalls('on_reconnect') == ite(conn and missed + 1 == 2, 1, 0)"),
                      ("nothing-signalled-without-connection", "implies(not conn, bcalls('on_reconnect') == 0)"),
                      ("rearmed-after-single-miss", "implies(conn and missed == 0, bcalls('start_timer') == 1 and len(bcall_names()) == 1)"),
                      ("only-the-reconnect-on-second-miss", "implies(conn and missed == 1, len(bcall_names()) == 1)"),
                      ("counter", "tt_inv(self, conn, ite(conn and missed == 0, 1, 0))")],
             note="second expiry in a row: on_reconnect once, counter starts over (state connected, no timer re-armed: "
                  "the Manager's _signal_reconnect drops the connection)"),

    # ---------------------------------------------------------------- (b) timer arithmetic
    Contract(f"{M}._send_ping_reset_timer", props=[PROP], params={},
             self_fields=dict(TIMER_FIELDS, _ping_interval="real", _pings_outstanding=PINGS, _outbound="obj[OutboundB]"),
             pre_hook=wire_self,
             modifies=["_timer", "_timer.deadline", "_timer.pending", "_reactor.npending", "_pings_outstanding"],
             requires=["self._ping_interval > 0", "timer_ok(self)"],
             raises={"AssertionError": None},
             ensures=[("exactly-one-timer-pending", "self._timer is not None and self._timer.pending and "
                                                    "self._reactor.npending == 1"),
                      ("deadline-within-one-interval", "self._timer.deadline <= self._reactor.now + self._ping_interval"),
                      ("not-before-one-interval", "self._timer.deadline >= self._reactor.now + self._ping_interval"),
                      ("clock-untouched", "self._reactor.now == old(self._reactor.now)")],
             internal_ensures=[("one-ping-sent", "n_calls('send_ping') == 1 and len(call_arg('send_ping', 0, 1)) == 4"),
                               ("fresh-timer-iff-none-was-running",
                                "bcalls('callLater') == ite(old(self._timer) is None, 1, 0) and bcalls('cancel') == 0")],
             replay={"driver": "c16_replay:send_ping_reset_timer"},
             note="AssertionError: os.urandom(4) collided with an outstanding ping id (send_ping's duplicate check)"),
    Contract(f"{M}._signal_reconnect", props=[PROP], params={}, self_fields={"_connection": "opt[obj[ConnectionB]]"},
             inline=True,
             ensures=[("drops-the-connection", "implies(self._connection is not None, bcalls('disconnect') == 1 and "
                                               "len(bcall_names()) == 1)"),
                      ("nothing-without-connection", "implies(self._connection is None, len(bcall_names()) == 0)")]),
    Contract("lemma:timer_expiry", props=[PROP], source_module=MGR, params={"mgr": "obj[Manager]"}, pre_hook=wire_mgr,
             source_text="""
             def timer_expiry(mgr):
                 mgr._send_ping_reset_timer()        # real code: ping + callLater(interval, timer_expired)
                 fire_timer(mgr._timer)              # ghost: the call becomes due, the real closure runs
             """,
             requires=["mgr._ping_interval > 0", "no_timer(mgr)"],
             raises={"AssertionError": None},
             ensures=[("told-the-traffic-timer-once", "input_calls('interval_elapsed') == 1"),
                      ("rearmed-unless-second-miss",
                       "implies(not old(in_state(mgr._traffic, 'idle_traffic')), mgr._timer is not None and "
                       "mgr._timer.pending and mgr._reactor.npending == 1 and "
                       "mgr._timer.deadline == mgr._reactor.now + mgr._ping_interval and bcalls('callLater') == 2)"),
                      ("second-miss-drops-the-connection",
                       "implies(old(in_state(mgr._traffic, 'idle_traffic')), no_timer(mgr) and "
                       "bcalls('disconnect') == ite(mgr._connection is None, 0, 1))"),
                      ("expired-exactly-one-interval-after-arming",
                       "mgr._reactor.now == old(mgr._reactor.now) + mgr._ping_interval")],
             note="timer_expired clears _timer before interval_elapsed: otherwise begin_timing would delay() a call "
                  "that already ran (obligation DelayedCall.delay.still-pending)"),
    Contract("lemma:pong_callback", props=[PROP], source_module=MGR, params={"mgr": "obj[Manager]"}, pre_hook=wire_mgr,
             source_text="""
             def pong_callback(mgr):
                 mgr._send_ping_reset_timer()
                 cb = call_arg("send_ping", 0, 2)    # the on_pong callable registered for the new ping
                 n = input_calls("traffic_seen")
                 cb(0.25)
                 return input_calls("traffic_seen") - n
             """,
             requires=["mgr._ping_interval > 0", "timer_ok(mgr)", "in_state(mgr._traffic, 'connected', 'idle_traffic')"],
             raises={"AssertionError": None},
             ensures=[("answered-ping-counts-as-traffic-once", "result == 1"),
                      ("counter-reset", "in_state(mgr._traffic, 'connected')")]),
    Contract("lemma:two_answered_pings_then_silence", props=[PROP], source_module=MGR, params={"mgr": "obj[Manager]"},
             pre_hook=wire_mgr,
             source_text="""
             def two_answered_pings_then_silence(mgr):
                 mgr._traffic.got_connection()       # Leader got a connection: ping #1, timer armed
                 mgr._traffic.traffic_seen()         # pong #1 (sends ping #2)
                 mgr._traffic.traffic_seen()         # pong #2 (sends ping #3), the last answered ping
                 t_last_pong = mgr._reactor.seconds()
                 fire_timer(mgr._timer)              # the peer is silent from here on
                 fire_timer(mgr._timer)
                 return t_last_pong
             """,
             requires=["mgr._ping_interval > 0", "no_timer(mgr)", "in_state(mgr._traffic, 'no_connection')",
                       "mgr._connection is not None"],
             raises={"AssertionError": None},
             ensures=[("dropped-on-second-expiry", "bcalls('disconnect') == 1"),
                      ("under-three-ping-intervals", "mgr._reactor.now < result + 3 * mgr._ping_interval")],
             replay={"driver": "c16_replay:two_answered_pings_then_silence"},
             note="the statement's bound, end to end over the real Manager + TrafficTimer code and the ghost clock"),

    # ---------------------------------------------------------------- (c) pings, arming, cancelling
    Contract(f"{M}.send_ping", props=[PROP], params={"ping_id": "bytes", "on_pong": "opt[opaque[on_pong]]"},
             self_fields={"_pings_outstanding": PINGS, "_reactor": "obj[Reactor]", "_outbound": "obj[OutboundB]"},
             modifies=["_pings_outstanding"],
             raises_exactly={"AssertionError": "ping_id in self._pings_outstanding"},
             ensures=[("registered", "ping_id in self._pings_outstanding"),
                      ("others-kept", "forall(lambda k: implies(k != ping_id, (k in self._pings_outstanding) == "
                                      "(k in old(self._pings_outstanding))), 'bytes')")],
             internal_ensures=[("callback-and-time-stored", "self._pings_outstanding[ping_id] == (on_pong, self._reactor.now)"),
                               ("other-entries-kept", "forall(lambda k: implies(k != ping_id and k in self._pings_outstanding, "
                                                      "self._pings_outstanding[k] == old(self._pings_outstanding)[k]), 'bytes')")],
             effects=[("send_if_connected", ["Ping(ping_id)"])]),
    Contract(f"{M}.handle_pong", props=[PROP], params={"ping_id": "bytes"},
             self_fields={"_pings_outstanding": PINGS, "_reactor": "obj[Reactor]", "_traffic": "opt[obj[TrafficTimer]]"},
             modifies=["_pings_outstanding"],
             ensures=[("unknown-id-is-not-traffic",
                       "implies(ping_id not in old(self._pings_outstanding), len(bcall_names()) == 0 and "
                       "input_calls('traffic_seen') == 0 and "
                       "forall(lambda k: (k in self._pings_outstanding) == (k in old(self._pings_outstanding)), 'bytes'))"),
                      ("outstanding-id-runs-its-callback-once",
                       "implies(ping_id in old(self._pings_outstanding) and old(self._pings_outstanding)[ping_id][0] is not None, "
                       "bcalls('on_pong') == 1 and len(bcall_names()) == 1 and "
                       "bcall_arg('on_pong', 0, 0) == old(self._pings_outstanding)[ping_id][0] and "
                       "bcall_arg('on_pong', 0, 1) == self._reactor.now - old(self._pings_outstanding)[ping_id][1])"),
                      ("no-callback-registered", "implies(ping_id in old(self._pings_outstanding) and "
                                                 "old(self._pings_outstanding)[ping_id][0] is None, len(bcall_names()) == 0)"),
                      ("id-retired", "ping_id not in self._pings_outstanding"),
                      ("others-kept", "forall(lambda k: implies(k != ping_id, (k in self._pings_outstanding) == "
                                      "(k in old(self._pings_outstanding))), 'bytes')")],
             note="a second pong for the same id finds it retired: counted once"),
    Contract(f"{M}.connector_connection_made", props=[PROP], params={"c": "obj[ConnectionB]"},
             self_fields=dict(CONN_FIELDS), pre_hook=role_hook,
             modifies=["__state", "_traffic", "_timer", "_connection", "_made_first_connection", "_pings_outstanding"],
             requires=["in_state(self, 'CONNECTING')", "self._ping_interval > 0", "no_timer(self)", "self._connection is None",
                       "implies(self._traffic is not None, in_state(self._traffic, 'no_connection'))"],
             raises={"AssertionError": None},
             ensures=[("leader-starts-monitoring",
                       "implies(self._my_role is LEADER, self._traffic is not None and in_state(self._traffic, 'connected') "
                       "and self._timer is not None and self._timer.pending and self._reactor.npending == 1 and "
                       "self._timer.deadline == self._reactor.now + self._ping_interval and "
                       "n_calls('_send_ping_reset_timer') == 1)"),
                      ("follower-does-not-monitor",
                       "implies(self._my_role is not LEADER, no_timer(self) and n_calls('_send_ping_reset_timer') == 0 and "
                       "input_calls('got_connection') == 0 and (self._traffic is None) == (old(self._traffic) is None))"),
                      ("connection-in-use", "self._connection is c and in_state(self, 'CONNECTED')"),
                      ("traffic-timer-calls-back-into-this-manager", "wired(self)")],
             note="CONNECTING is the only state with a connection_made row; no connection / no timer / TrafficTimer idle "
                  "there is the Manager invariant re-established by connector_connection_lost and stop below"),
    Contract(f"{M}.connector_connection_lost", props=[PROP], params={}, self_fields=dict(LOST_FIELDS), pre_hook=role_hook,
             modifies=["__state", "_timer", "_connection", "_next_dilation_generation", "_connector"],
             requires=["timer_ok(self)", "self._connection is not None", "self._my_role is not None",
                       "implies(self._traffic is not None, in_state(self._traffic, 'connected', 'idle_traffic'))",
                       "implies(self._my_role is LEADER, in_state(self, 'CONNECTED', 'STOPPING'))",
                       "implies(self._my_role is not LEADER, in_state(self, 'CONNECTED', 'ABANDONING', 'STOPPING'))",
                       "not self._debug_stall_connector"],
             raises={"AssertionError": "self._dilation_key is None"},
             ensures=[("monitoring-stops", "no_timer(self) and implies(self._traffic is not None, "
                                           "in_state(self._traffic, 'no_connection'))"),
                      ("pending-timer-cancelled", "bcalls('cancel') == ite(old(self._timer) is None, 0, 1)"),
                      ("never-signals-reconnect", "bcalls('disconnect') == 0"),
                      ("connection-forgotten", "self._connection is None"),
                      ("left-the-connected-states", "in_state(self, 'FLUSHING', 'LONELY', 'CONNECTING', 'STOPPED')")],
             note="a row exists for connection_lost_leader in CONNECTED/STOPPING and for connection_lost_follower in "
                  "CONNECTED/ABANDONING/STOPPING (ABANDONING is only entered by a Follower, on the Leader's RECONNECT)"),
    Contract(f"{M}._stop_using_connection", props=[PROP], params={},
             self_fields=dict(TIMER_FIELDS, _connection="opt[obj[ConnectionB]]", _inbound="obj[InboundB]",
                              _outbound="obj[OutboundB]"),
             pre_hook=wire_self, modifies=["_timer", "_connection"], requires=["timer_ok(self)"], inline=True,
             ensures=[("no-timer-left", "no_timer(self)"),
                      ("pending-timer-cancelled", "bcalls('cancel') == ite(old(self._timer) is None, 0, 1)"),
                      ("connection-forgotten", "self._connection is None and bcalls('stop_using_connection') == 2")]),
    Contract(f"{M}.abandon_connection", props=[PROP], params={},
             self_fields=dict(TIMER_FIELDS, _connection="opt[obj[ConnectionB]]"),
             pre_hook=wire_self, modifies=["_timer"], requires=["timer_ok(self)", "self._connection is not None"],
             inline=True,
             ensures=[("no-timer-left", "no_timer(self)"),
                      ("pending-timer-cancelled", "bcalls('cancel') == ite(old(self._timer) is None, 0, 1)"),
                      ("disconnect-requested", "bcalls('disconnect') == 1")]),
    Contract(f"{M}.stop", props=[PROP], params={},
             self_fields=dict(TIMER_FIELDS, __state="state", _connection="opt[obj[ConnectionB]]",
                              _connector="obj[ConnectorB]", _stopped="obj[ObserverB]"),
             pre_hook=wire_self, modifies=["__state", "_timer"],
             requires=["not in_state(self, 'STOPPING', 'STOPPED')", "timer_ok(self)",
                       "implies(in_state(self, 'WAITING', 'WANTING', 'CONNECTING', 'FLUSHING', 'LONELY'), "
                       "no_timer(self) and self._connection is None)",
                       "implies(in_state(self, 'ABANDONING'), no_timer(self))",
                       "implies(in_state(self, 'CONNECTED', 'ABANDONING'), self._connection is not None)"],
             ensures=[("no-timer-pending-after-stop", "no_timer(self)"),
                      ("still-no-connection-when-stopped", "implies(in_state(self, 'STOPPED'), self._connection is None)")],
             note="stop() is delivered once (Terminator enters S_stoppingD once), so never in STOPPING/STOPPED; "
                  "ABANDONING is a Follower state (entered on the Leader's RECONNECT) and a Follower never arms a timer "
                  "(connector_connection_made.follower-does-not-monitor), hence the ABANDONING precondition"),
]


def tasks():
    out = []
    for c in CONTRACTS:
        out.append(ContractTask(c, regf_inline_timer if c.target.startswith("lemma:") else regf))
    # a ping only probes the peer if it really goes out: Outbound.send_if_connected (under contract with C10/C15's Outbound
    # model) hands every control record to the current connection, whatever the flow-control state
    from .common import shared_tasks
    out += shared_tasks("c16", "c10", ("Outbound.send_if_connected",))
    return out


TRUSTED = ["z3/cvc5", "pyvc semantics of the Python subset", "Automat dispatch semantics (pyvc/automat.py)",
           "IReactorTime/DelayedCall model: callLater(t) is due at now+t; delay(s) moves the deadline to scheduled+s; "
           "reset(s) to now+s; cancel/delay/reset need a pending call; a pending call's deadline has not passed "
           "(read from twisted/internet/base.py)",
           "floats are reals", "os.urandom(n): n fresh bytes"]
ASSUMPTIONS = ["pong arrival is the peer's business (not decided here)",
               "status reporting (_peer_saw_ping, _maybe_send_status) is dropped syntax",
               "os.urandom(4) colliding with an outstanding ping id makes send_ping raise AssertionError: allowed as an "
               "outcome of _send_ping_reset_timer (probability <= outstanding * 2**-32)"]
