"""C06 - Transit delivers exactly the records sent, or drops the connection."""
import z3
from pyvc.contract import Contract
from pyvc.runner import ContractTask
from pyvc.values import *   # noqa
from .transit_lib import make_transit_registry, BodyLemma, T_PY, TRUSTED_LIB, DEFERRED

PROP = "C06"
T = T_PY + ":"

# pre-state of a Connection (only the fields a function touches are listed in its contract)
F_STATE = {"state": "str"}
F_BUF = {"buf": "bytes"}
F_RX = {"next_receive_nonce": "int", "receive_box": "obj[SecretBox]"}
F_TX = {"send_nonce": "int", "send_box": "obj[SecretBox]", "transport": "obj[Transport]"}
F_QUEUES = {"_inbound_records": "seq[bytes]", "_waiting_reads": f"seq[{DEFERRED}]"}
F_CONSUMER = {"_consumer": "opt[obj[Consumer]]", "_consumer_bytes_written": "int",
              "_consumer_bytes_expected": "opt[int]", "_consumer_deferred": f"opt[{DEFERRED}]"}
F_NEG = {"_negotiation_d": f"opt[{DEFERRED}]", "_error": "opt[obj[Exception]]"}
M_CONSUMER = list(F_CONSUMER)
M_QUEUES = list(F_QUEUES)

# class invariant of the consumer fields (connectConsumer sets both, disconnectConsumer clears both)
INV_CONSUMER = "self._consumer_bytes_expected is None or self._consumer_deferred is not None"

R = "self._inbound_records"
W = "self._waiting_reads"
# FIFO hand-out, stated by cases (which queue is the shorter one) so that no slice bound is a conditional term
DELIVER_ENSURES = [
    ("records-run-out-first", f"implies(len(old({R})) <= len(old({W})), len({R}) == 0 and {W} == old({W})[len(old({R})):])"),
    ("reads-run-out-first", f"implies(len(old({W})) <= len(old({R})), len({W}) == 0 and {R} == old({R})[len(old({W})):])"),
]

CONTRACTS = [
    # ------------------------------------------------------------------ sender side
    Contract(T + "Connection.send_record", props=[PROP], params={"record": "bytes"}, self_fields=dict(F_TX),
             requires=["self.send_nonce >= 0", "len(record) < 2**32 - 40"],
             raises_exactly={"AssertionError": "self.send_nonce >= 2**192"},
             modifies=["send_nonce"],
             ensures=[("nonce-used-once", "self.send_nonce == old(self.send_nonce) + 1")],
             internal_ensures=[("one-encryption", "n_events('box.encrypt') == 1"),
                               ("nonce-is-the-counter", "event_arg('box.encrypt', 0, 2) == be_enc(old(self.send_nonce), 24) and "
                                                        "event_arg('box.encrypt', 0, 1) == record")],
             effects=[("write", ["be_enc(len(record) + 40, 4)"]),
                      ("write", ["sbox_ct(self.send_box.key, be_enc(old(self.send_nonce), 24), record)"])],
             ensures_raise={"AssertionError": [("nothing-written", "len(bcall_names()) == 0"),
                                               ("counter-kept", "self.send_nonce == old(self.send_nonce)")]},
             note="the k-th record goes out as be4(len(c)) then c = nonce ++ body, nonce = 24-byte big-endian k, under the send key; "
                  "exactly two transport writes, in that order; the counter moves by exactly one"),
    # ------------------------------------------------------------------ receiver side
    Contract(T + "Connection._decrypt_record", props=[PROP], params={"encrypted": "bytes"}, self_fields=dict(F_RX),
             modifies=["next_receive_nonce"], returns="bytes",
             raises_exactly={"ValueError": "len(encrypted) == 0",
                             "BadNonce": "len(encrypted) > 0 and be_value(encrypted[:24]) != self.next_receive_nonce",
                             "CryptoError": "len(encrypted) > 0 and be_value(encrypted[:24]) == self.next_receive_nonce and "
                                            "not sbox_valid(self.receive_box.key, encrypted)"},
             ensures=[("nonce-is-the-expected-counter", "be_value(encrypted[:24]) == old(self.next_receive_nonce)"),
                      ("counter-advances-by-one", "self.next_receive_nonce == old(self.next_receive_nonce) + 1"),
                      ("authentic-under-the-receive-key", "sbox_valid(self.receive_box.key, encrypted)"),
                      ("result-is-the-decryption", "result == sbox_open(self.receive_box.key, encrypted) and "
                       "encrypted == sbox_ct(self.receive_box.key, encrypted[:24], result)")],
             ensures_raise={"BadNonce": [("counter-kept", "self.next_receive_nonce == old(self.next_receive_nonce)")],
                            "ValueError": [("counter-kept", "self.next_receive_nonce == old(self.next_receive_nonce)")]},
             note="a plaintext comes out only if the 24-byte prefix is exactly the expected counter and the box authenticates; "
                  "a replayed, reordered, dropped or forged frame raises (BadNonce / CryptoError), an empty frame ValueError"),
    Contract(T + "Connection._deliverRecords", props=[PROP], params={}, self_fields=dict(F_QUEUES), modifies=M_QUEUES,
             ensures=DELIVER_ENSURES,
             internal_ensures=[("fifo-pairs-fired", f"old({R}) == gr + {R} and old({W}) == gd + {W} and len(gr) == len(gd)")],
             loops={0: {"header": "self._inbound_records and self._waiting_reads",
                        "ghost_init": {"gr": "empty_seq('bytes')", "gd": f"empty_seq('{DEFERRED}')"},
                        "ghost_update": {"gr": "gr + [r]", "gd": "gd + [d]"},
                        "invariant": [f"at_entry({R}) == gr + {R}", f"at_entry({W}) == gd + {W}", "len(gr) == len(gd)"],
                        "body_ensures": ["iter_bcall_names() == ['callback']",
                                         f"iter_bcall_arg('callback', 0, 0) == at_iter({W})[0]",
                                         f"iter_bcall_arg('callback', 0, 1) == at_iter({R})[0]",
                                         f"r == at_iter({R})[0] and d == at_iter({W})[0]",
                                         f"{R} == at_iter({R})[1:] and {W} == at_iter({W})[1:]"]}},
             note="ghost gr/gd: records delivered / reads fired so far; the i-th oldest record goes to the i-th oldest read, "
                  "exactly one callback per pair, until one queue is empty"),
    Contract(T + "Connection.recordReceived", props=[PROP], params={"record": "bytes"},
             self_fields={**F_QUEUES, **F_CONSUMER}, requires=[INV_CONSUMER], modifies=M_QUEUES + M_CONSUMER,
             ensures=[("consumer-mode-keeps-queues", f"implies(old(self._consumer) is not None, {R} == old({R}) and {W} == old({W}))"),
                      ("queued-behind-earlier-records--reads-left-over",
                       f"implies(old(self._consumer) is None and len(old({R})) + 1 <= len(old({W})), "
                       f"len({R}) == 0 and {W} == old({W})[len(old({R})) + 1:])"),
                      ("queued-behind-earlier-records--records-left-over",
                       f"implies(old(self._consumer) is None and len(old({W})) <= len(old({R})) + 1, "
                       f"len({W}) == 0 and {R} == (old({R}) + [record])[len(old({W})):])"),
                      ("consumer-invariant-kept", INV_CONSUMER)],
             internal_ensures=[
                 ("consumer-gets-exactly-this-record-first",
                  "implies(old(self._consumer) is not None, bcall_names()[0] == 'write' and bcall_arg('write', 0, 0) == record "
                  "and bcalls('write') == 1 and n_calls('_deliverRecords') == 0)"),
                 ("consumer-byte-count", "implies(old(self._consumer) is not None and self._consumer is not None, "
                                         "self._consumer_bytes_written == old(self._consumer_bytes_written) + len(record))"),
                 ("queue-mode-writes-nothing", "implies(old(self._consumer) is None, len(bcall_names()) == 0 and "
                                               "n_calls('_deliverRecords') == 1)")],
             note="a record is either written to the attached consumer (once, whole) or appended behind all earlier undelivered "
                  "records and handed out FIFO by _deliverRecords (by contract)"),
    Contract(T + "Connection.receive_record", props=[PROP], params={}, self_fields=dict(F_QUEUES), modifies=M_QUEUES,
             returns=DEFERRED,
             ensures=[("read-queued-behind-earlier-reads--records-left-over",
                       f"implies(len(old({W})) + 1 <= len(old({R})), len({W}) == 0 and {R} == old({R})[len(old({W})) + 1:])"),
                      ("read-queued-behind-earlier-reads--reads-left-over",
                       f"implies(len(old({R})) <= len(old({W})) + 1, len({R}) == 0 and "
                       f"{W} == (old({W}) + [result])[len(old({R})):])")],
             internal_ensures=[("a-new-deferred", "n_events('new-deferred') == 1 and result == event_arg('new-deferred', 0, 0)")]),
    Contract(T + "Connection.close", props=[PROP], params={}, self_fields={**F_QUEUES, "transport": "obj[Transport]"},
             modifies=["_waiting_reads"],
             ensures=[("no-read-left-waiting", f"len({W}) == 0")],
             internal_ensures=[("every-waiting-read-failed-once-in-order", f"gd == old({W})"),
                               ("connection-dropped-once", "bcall_names() == ['loseConnection']")],
             loops={0: {"header": "self._waiting_reads",
                        "ghost_init": {"gd": f"empty_seq('{DEFERRED}')"}, "ghost_update": {"gd": "gd + [iter_bcall_arg('errback', 0, 0)]"},
                        "invariant": [f"at_entry({W}) == gd + {W}"],
                        "body_ensures": ["iter_bcall_names() == ['errback']",
                                         f"iter_bcall_arg('errback', 0, 0) == at_iter({W})[0]",
                                         "exc_class(iter_bcall_arg('errback', 0, 1)) == 'error.ConnectionClosed'",
                                         f"{W} == at_iter({W})[1:]"]}},
             note="ghost gd: the reads errbacked so far; each iteration errbacks exactly the oldest waiting read, once"),
    Contract(T + "Connection.connectionLost", props=[PROP], params={"reason": "none"},
             self_fields={**F_QUEUES, **F_NEG, "_consumer_deferred": f"opt[{DEFERRED}]"},
             modifies=["_waiting_reads", "_negotiation_d"],
             ensures=[("no-read-left-waiting", f"len({W}) == 0"), ("negotiation-deferred-consumed", "self._negotiation_d is None")],
             internal_ensures=[
                 ("every-waiting-read-failed-once-in-order", f"gd == old({W})"),
                 ("timer-cancelled-first", "bcall_names()[0] == 'setTimeout' and bcall_arg('setTimeout', 0, 0) is None"),
                 ("pending-negotiation-fails-once",
                  "implies(old(self._negotiation_d) is not None, bcalls('errback') >= 1 and "
                  "bcall_arg('errback', 0, 0) == old(self._negotiation_d) and "
                  "implies(old(self._error) is not None, bcall_arg('errback', 0, 1) is old(self._error)) and "
                  "implies(old(self._error) is None, exc_class(bcall_arg('errback', 0, 1)) == 'BadHandshake'))"),
                 ("pending-consumer-fails-once",
                  "implies(self._consumer_deferred is not None, "
                  "last_bcall_arg('errback', 0) == self._consumer_deferred and "
                  "exc_class(last_bcall_arg('errback', 1)) == 'error.ConnectionClosed')"),
                 ("nothing-else-fired",
                  "bcalls('errback') == ite(old(self._negotiation_d) is not None, 1, 0) + ite(self._consumer_deferred is not None, 1, 0) "
                  "and len(bcall_names()) == 1 + bcalls('errback')")],
             loops={0: {"header": "self._waiting_reads",
                        "ghost_init": {"gd": f"empty_seq('{DEFERRED}')"}, "ghost_update": {"gd": "gd + [iter_bcall_arg('errback', 0, 0)]"},
                        "invariant": [f"at_entry({W}) == gd + {W}"],
                        "body_ensures": ["iter_bcall_names() == ['errback']",
                                         f"iter_bcall_arg('errback', 0, 0) == at_iter({W})[0]",
                                         "exc_class(iter_bcall_arg('errback', 0, 1)) == 'error.ConnectionClosed'",
                                         f"{W} == at_iter({W})[1:]"]}},
             note="pending reads fail (each once, oldest first), a still-pending negotiation fails with the recorded error, a "
                  "pending consumer Deferred fails"),
    Contract(T + "Connection.dataReceivedRECORDS", props=[PROP], params={},
             self_fields={**F_BUF, **F_RX, **F_QUEUES, **F_CONSUMER},
             requires=[INV_CONSUMER],
             modifies=["buf", "next_receive_nonce"] + M_QUEUES + M_CONSUMER,
             raises={"BadNonce": None, "CryptoError": None, "ValueError": None},
             ensures=[("remainder-holds-no-complete-frame",
                       "len(self.buf) < 4 or len(self.buf) < 4 + be_value(self.buf[:4])"),
                      ("remainder-is-a-suffix-of-the-input", "old(self.buf).endswith(self.buf)"),
                      ("consumer-invariant-kept", INV_CONSUMER)],
             internal_ensures=[("consumed-whole-frames-only", "old(self.buf) == consumed + self.buf"),
                               ("one-nonce-per-delivered-record", "self.next_receive_nonce == old(self.next_receive_nonce) + n"),
                               ("nothing-in-this-iteration", "iter_n_calls('_decrypt_record') == 0 and iter_n_calls('recordReceived') == 0")],
             ensures_raise={"BadNonce": [("failing-frame-not-delivered", "iter_n_calls('recordReceived') == 0")],
                            "CryptoError": [("failing-frame-not-delivered", "iter_n_calls('recordReceived') == 0")],
                            "ValueError": [("failing-frame-not-delivered", "iter_n_calls('recordReceived') == 0")]},
             loops={0: {"header": "True",
                        "ghost_init": {"consumed": "b''", "n": "0"},
                        "ghost_update": {"consumed": "consumed + at_iter(self.buf)[:4 + length]", "n": "n + 1"},
                        "invariant": ["at_entry(self.buf) == consumed + self.buf",
                                      "self.next_receive_nonce == at_entry(self.next_receive_nonce) + n", "n >= 0",
                                      INV_CONSUMER],
                        "body_ensures": [
                            "length == be_value(at_iter(self.buf)[:4]) and len(at_iter(self.buf)) >= 4 + length",
                            "at_iter(self.buf) == at_iter(self.buf)[:4] + encrypted + self.buf",
                            "len(encrypted) == length",
                            "call_order_iter() == ['_decrypt_record', 'recordReceived']",
                            "iter_call_arg('_decrypt_record', 0, 1) == encrypted",
                            "iter_call_arg('recordReceived', 0, 1) == iter_call_result('_decrypt_record', 0)",
                            "record == iter_call_result('_decrypt_record', 0)"]}},
             note="ghost consumed/n: bytes consumed and records delivered so far in this call.  Record boundaries are a function "
                  "of the byte stream alone (4-byte big-endian length, then exactly that many bytes); every complete frame is "
                  "handed whole to _decrypt_record and its plaintext, unchanged, to recordReceived, in stream order; the loop "
                  "stops only when the remainder is not a complete frame"),
    Contract(T + "Connection.dataReceived", props=[PROP], params={"data": "bytes"},
             self_fields={**F_STATE, **F_BUF, **F_RX, **F_QUEUES, **F_CONSUMER, **F_NEG, "transport": "obj[Transport]",
                          "owner": "obj[Common]", "send_nonce": "int", "send_box": "obj[SecretBox]"},
             modifies=list(F_STATE) + list(F_BUF) + ["next_receive_nonce", "receive_box", "send_nonce", "send_box"] + M_QUEUES
             + M_CONSUMER + list(F_NEG),
             raises={"Exception": None},
             internal_ensures=[
                 ("handshake-failure-drops-the-connection",
                  "implies(n_returns('_dataReceived') == 0, self.state == 'hung up' and bcall_names() == ['setTimeout', 'loseConnection'] "
                  "and bcall_arg('setTimeout', 0, 0) is None and self._error is not None)"),
                 ("no-spurious-hangup", "implies(n_returns('_dataReceived') == 1, len(bcall_names()) == 0)"),
                 ("one-pass", "n_calls('_dataReceived') == 1 and call_arg('_dataReceived', 0, 1) == data")],
             ensures_raise={"Exception": [
                 ("any-exception-drops-the-connection", "self.state == 'hung up'"),
                 ("transport-closed-once-timer-cancelled",
                  "bcall_names() == ['setTimeout', 'loseConnection'] and bcall_arg('setTimeout', 0, 0) is None"),
                 ("error-recorded", "self._error is not None"),
                 ("was-raised-by-the-state-machine", "n_calls('_dataReceived') == 1 and n_returns('_dataReceived') == 0")]},
             note="_dataReceived is used through an over-approximating contract (may raise anything, may modify every field): "
                  "whatever it raises (BadNonce, CryptoError, ValueError, BadHandshake, ...) the connection is dropped exactly once "
                  "and the state becomes 'hung up'; only BadHandshake is swallowed"),
    Contract(T + "Connection.connectConsumer", props=[PROP], params={"consumer": "obj[Consumer]", "expected": "opt[int]"},
             self_fields={**F_QUEUES, **F_CONSUMER}, modifies=M_QUEUES + M_CONSUMER, returns=f"opt[{DEFERRED}]",
             raises_exactly={"RuntimeError": "self._consumer is not None"},
             ensures=[("a-deferred-is-returned-iff-a-byte-count-is-expected", "(result is None) == (expected is None)"),
                      ("queued-records-drained-before-live-ones", f"self._consumer is None or len({R}) == 0"),
                      ("reads-untouched", f"{W} == old({W})"),
                      ("consumer-invariant-kept", INV_CONSUMER)],
             internal_ensures=[("drained-in-queue-order", f"old({R}) == gw + {R}"),
                               ("producer-registered-before-any-write", "bcall_names()[0] == 'registerProducer'"),
                               ("deferred-iff-expected", "(d is None) == (expected is None)")],
             loops={0: {"header": "self._consumer and self._inbound_records",
                        "ghost_init": {"gw": "empty_seq('bytes')"}, "ghost_update": {"gw": "gw + [r]"},
                        "invariant": [f"at_entry({R}) == gw + {R}", INV_CONSUMER, f"{W} == at_entry({W})",
                                      "(d is None) == (expected is None)"],
                        "body_ensures": ["iter_bcall_names()[0] == 'write'",
                                         f"iter_bcall_arg('write', 0, 0) == at_iter({R})[0]",
                                         f"r == at_iter({R})[0] and {R} == at_iter({R})[1:]"]}},
             note="consumer mode keeps the order: records that were queued before the consumer was attached are written to it "
                  "first, oldest first, one write each (ghost gw); only then do live records go to it directly (recordReceived)"),
    BodyLemma("lemma:consumer_attach_keeps_order_when_the_producer_is_resumed_at_once", T + "Connection.connectConsumer",
              props=[PROP], params={"consumer": "obj[Consumer]", "expected": "opt[int]"},
              self_fields={**F_QUEUES, **F_CONSUMER}, modifies=M_QUEUES + M_CONSUMER,
              requires=["self._consumer is None", f"len({W}) == 0", INV_CONSUMER],
              internal_ensures=[("every-record-queued-at-attach-time-is-written-before-any-live-one",
                                 f"old({R}) + reentered() == gw + {R}")],
              loops={0: {"header": "self._consumer and self._inbound_records",
                         "ghost_init": {"gw": "empty_seq('bytes')", "w0": "bcalls('write')"},
                         "ghost_update": {"gw": "gw + [r]"},
                         "invariant": [f"at_entry({R}) == gw + {R}", INV_CONSUMER, f"{W} == at_entry({W})",
                                       "w0 == ite(expected == 0, 1, 0)"],
                         "body_ensures": ["iter_bcall_names()[0] == 'write'",
                                          f"iter_bcall_arg('write', 0, 0) == at_iter({R})[0]",
                                          f"r == at_iter({R})[0] and {R} == at_iter({R})[1:]"]}},
              note="the ordering hazard the code comments on: consumer.registerProducer() may synchronously resume the producer, "
                   "the transport may then deliver a chunk, and recordReceived() runs re-entrantly (modelled: zero or one live "
                   "record arrives during registerProducer; recordReceived/_writeToConsumer are executed, not summarised). "
                   "Nothing may reach the consumer before the drain loop except the zero-length kick for expected == 0 (w0)"),

    # ------------------------------------------------------------------ consumer plumbing: file sink, detach, pass-throughs
    Contract(T + "Connection._writeToConsumer", props=[PROP], params={"record": "bytes"},
             self_fields=dict(F_CONSUMER), requires=["self._consumer is not None", INV_CONSUMER], modifies=M_CONSUMER,
             ensures=[("byte-count-advances-by-the-record", "self._consumer_bytes_written == old(self._consumer_bytes_written) + len(record)"),
                      ("never-detached-without-an-expected-count",
                       "implies(old(self._consumer_bytes_expected) is None, self._consumer is not None)"),
                      ("detached-exactly-when-the-expected-count-is-reached",
                       "implies(old(self._consumer_bytes_expected) is not None, (self._consumer is None) == "
                       "(old(self._consumer_bytes_written) + len(record) >= old(self._consumer_bytes_expected)))"),
                      ("detaching-clears-target-and-deferred-together",
                       "implies(self._consumer is None, self._consumer_bytes_expected is None and self._consumer_deferred is None)"),
                      ("still-attached-keeps-target-and-deferred",
                       "implies(self._consumer is not None, self._consumer is old(self._consumer) and "
                       "self._consumer_bytes_expected == old(self._consumer_bytes_expected) and "
                       "self._consumer_deferred == old(self._consumer_deferred))")],
             internal_ensures=[
                 ("record-written-whole-exactly-once-first",
                  "bcalls('write') == 1 and bcall_names()[0] == 'write' and bcall_arg('write', 0, 0) == record"),
                 ("reaching-the-count-unregisters-then-fires-the-deferred-with-the-byte-count",
                  "implies(self._consumer is None, bcall_names() == ['write', 'unregisterProducer', 'callback'] and "
                  "bcall_arg('callback', 0, 0) == old(self._consumer_deferred) and "
                  "bcall_arg('callback', 0, 1) == old(self._consumer_bytes_written) + len(record))"),
                 ("otherwise-nothing-else", "implies(self._consumer is not None, bcall_names() == ['write'])")],
             note="disconnectConsumer is used through its contract (below)"),
    Contract(T + "Connection.disconnectConsumer", props=[PROP], params={}, self_fields=dict(F_CONSUMER),
             raises_exactly={"AttributeError": "self._consumer is None"},
             modifies=["_consumer", "_consumer_bytes_expected", "_consumer_deferred"],
             ensures=[("consumer-fields-reset", "self._consumer is None and self._consumer_bytes_expected is None and "
                                                "self._consumer_deferred is None")],
             effects=[("unregisterProducer", [])],
             ensures_raise={"AttributeError": [("nothing-touched", "len(bcall_names()) == 0 and self._consumer_bytes_expected == "
                                                "old(self._consumer_bytes_expected) and self._consumer_deferred == old(self._consumer_deferred)")]},
             note="also the application's call after connectConsumer(expected=None): the consumer is unregistered exactly once and "
                  "all three consumer fields are cleared together (the byte counter is kept: frame), so later records queue again"),
    Contract(T + "Connection.writeToFile", props=[PROP],
             params={"f": "obj[File]", "expected": "opt[int]", "progress": "opt[obj[ProgressFn]]", "hasher": "opt[obj[HasherFn]]"},
             self_fields={**F_QUEUES, **F_CONSUMER}, modifies=M_QUEUES + M_CONSUMER, returns=f"opt[{DEFERRED}]",
             raises_exactly={"RuntimeError": "self._consumer is not None"},
             ensures=[("a-deferred-is-returned-iff-a-byte-count-is-expected", "(result is None) == (expected is None)")],
             internal_ensures=[
                 ("one-FileConsumer-over-exactly-these-collaborators-is-attached-for-expected-bytes",
                  "n_calls('connectConsumer') == 1 and call_arg('connectConsumer', 0, 2) == expected and "
                  "exc_class(call_arg('connectConsumer', 0, 1)) == 'FileConsumer' and "
                  "call_arg('connectConsumer', 0, 1)._f is f and call_arg('connectConsumer', 0, 1)._progress is progress and "
                  "call_arg('connectConsumer', 0, 1)._hasher is hasher and call_arg('connectConsumer', 0, 1)._producer is None"),
                 ("its-result-is-returned", "result is iter_call_result('connectConsumer', 0)"),
                 ("nothing-written-here", "len(bcall_names()) == 0")],
             ensures_raise={"RuntimeError": [("nothing-written", "len(bcall_names()) == 0")]},
             note="connectConsumer by contract; FileConsumer.__init__ is executed"),
    Contract(T + "FileConsumer.write", props=[PROP], params={"bytes": "bytes"},
             self_fields={"_f": "obj[File]", "_progress": "opt[obj[ProgressFn]]", "_hasher": "opt[obj[HasherFn]]",
                          "_producer": "opt[obj[Connection]]"},
             internal_ensures=[
                 ("exactly-these-bytes-written-to-the-file-once-first",
                  "bcalls('write') == 1 and bcall_names()[0] == 'write' and bcall_arg('write', 0, 0) == bytes"),
                 ("progress-told-the-length-once-iff-given",
                  "fcalls('ProgressFn') == ite(self._progress is None, 0, 1) and "
                  "implies(self._progress is not None, fcall_arg('ProgressFn', 0, 0) == len(bytes))"),
                 ("hasher-fed-the-same-bytes-once-iff-given",
                  "fcalls('HasherFn') == ite(self._hasher is None, 0, 1) and "
                  "implies(self._hasher is not None, fcall_arg('HasherFn', 0, 0) == bytes)"),
                 ("nothing-else", "len(bcall_names()) == 1 + fcalls('ProgressFn') + fcalls('HasherFn')")],
             note="the file receives each record's bytes exactly once, in call order (one write per call, and "
                  "_writeToConsumer / the drain loop call it in record order); the hash is over the same bytes"),
    Contract(T + "FileConsumer.registerProducer", props=[PROP], params={"producer": "obj[Connection]", "streaming": "bool"},
             self_fields={"_producer": "opt[obj[Connection]]"}, modifies=["_producer"],
             raises_exactly={"AssertionError": "self._producer is not None or not streaming"},
             ensures=[("producer-recorded", "self._producer is producer")], effects=[]),
    Contract(T + "FileConsumer.unregisterProducer", props=[PROP], params={},
             self_fields={"_producer": "opt[obj[Connection]]"}, modifies=["_producer"],
             raises_exactly={"AssertionError": "self._producer is None"},
             ensures=[("producer-forgotten", "self._producer is None")], effects=[]),
    Contract(T + "Connection.registerProducer", props=[PROP], params={"producer": "obj[Producer]", "streaming": "bool"},
             self_fields={"transport": "obj[Transport]"},
             raises_exactly={"AssertionError": "not self.transport.is_consumer"},
             effects=[("registerProducer", ["producer", "streaming"])],
             ensures_raise={"AssertionError": [("nothing-forwarded", "len(bcall_names()) == 0")]}),
    Contract(T + "Connection.unregisterProducer", props=[PROP], params={}, self_fields={"transport": "obj[Transport]"},
             effects=[("unregisterProducer", [])]),
    Contract(T + "Connection.stopProducing", props=[PROP], params={}, self_fields={"transport": "obj[Transport]"},
             effects=[("stopProducing", [])]),
    Contract(T + "Connection.pauseProducing", props=[PROP], params={}, self_fields={"transport": "obj[Transport]"},
             effects=[("pauseProducing", [])]),
    Contract(T + "Connection.resumeProducing", props=[PROP], params={}, self_fields={"transport": "obj[Transport]"},
             effects=[("resumeProducing", [])]),
    Contract(T + "Connection.write", props=[PROP], params={"data": "bytes"}, self_fields=dict(F_TX),
             requires=["self.send_nonce >= 0", "len(data) < 2**32 - 40"],
             raises_exactly={"AssertionError": "self.send_nonce >= 2**192"}, modifies=["send_nonce"],
             ensures=[("nonce-used-once", "self.send_nonce == old(self.send_nonce) + 1")],
             internal_ensures=[("one-record-per-write-same-bytes", "n_calls('send_record') == 1 and call_arg('send_record', 0, 1) == data")],
             note="IConsumer.write on the sending side (a FileSender writes to the Connection): one record per write; the bytes "
                  "on the wire are send_record's effects (by contract)"),
    # ------------------------------------------------------------------ keys: one per direction, same on both ends
    Contract(T + "Common._sender_record_key", props=[PROP], params={}, self_fields={"is_sender": "bool", "_transit_key": "bytes"},
             returns="bytes", raises_exactly={"AssertionError": "len(self._transit_key) == 0"},
             ensures=[("hkdf-of-transit-key-and-role",
                       "result == hkdf(self._transit_key, 32, ite(self.is_sender, b'transit_record_sender_key', "
                       "b'transit_record_receiver_key'))"),
                      ("secretbox-key-size", "len(result) == 32")]),
    Contract(T + "Common._receiver_record_key", props=[PROP], params={}, self_fields={"is_sender": "bool", "_transit_key": "bytes"},
             returns="bytes", raises_exactly={"AssertionError": "len(self._transit_key) == 0"},
             ensures=[("hkdf-of-transit-key-and-opposite-role",
                       "result == hkdf(self._transit_key, 32, ite(self.is_sender, b'transit_record_receiver_key', "
                       "b'transit_record_sender_key'))"),
                      ("secretbox-key-size", "len(result) == 32")]),
    Contract("lemma:record_keys_cross_match", props=[PROP], source_module=T_PY,
             params={"s": "obj[Common]", "r": "obj[Common]"},
             source_text="""
             def record_keys_cross_match(s, r):
                 return (s._sender_record_key(), r._receiver_record_key(), r._sender_record_key(), s._receiver_record_key())
             """,
             requires=["s.is_sender and not r.is_sender", "s._transit_key == r._transit_key", "len(s._transit_key) > 0"],
             ensures=[("sender-to-receiver-direction-shares-one-key", "result[0] == result[1]"),
                      ("receiver-to-sender-direction-shares-one-key", "result[2] == result[3]"),
                      ("the-two-directions-use-different-keys", "result[0] != result[2]")],
             note="over the two key functions' contracts; 'different keys' uses the HKDF idealisation (injective in info): a frame "
                  "reflected back to its sender is encrypted under the other direction's key"),
    Contract(T + "Connection._negotiationSuccessful", props=[PROP], params={},
             self_fields={**F_STATE, **F_RX, "send_nonce": "int", "send_box": "obj[SecretBox]", "owner": "obj[Common]",
                          "_negotiation_d": f"opt[{DEFERRED}]"},
             requires=["self._negotiation_d is not None"],
             raises_exactly={"AssertionError": "len(self.owner._transit_key) == 0"},
             modifies=["state", "send_box", "send_nonce", "receive_box", "next_receive_nonce", "_negotiation_d"],
             ensures=[("records-state", "self.state == 'records'"),
                      ("both-counters-start-at-zero", "self.send_nonce == 0 and self.next_receive_nonce == 0"),
                      ("negotiation-deferred-consumed", "self._negotiation_d is None")],
             internal_ensures=[
                 ("send-box-uses-the-send-direction-key", "self.send_box.key == call_result('_sender_record_key')"),
                 ("receive-box-uses-the-receive-direction-key", "self.receive_box.key == call_result('_receiver_record_key')")],
             effects=[("setTimeout", ["None"]), ("callback", ["old(self._negotiation_d)", "self"])],
             note="entering 'records': fresh boxes keyed by the owner's two direction keys, both nonce counters 0, the negotiation "
                  "Deferred fired exactly once with this connection"),
    # ------------------------------------------------------------------ sender frame vs receiver parser
    BodyLemma("lemma:frame_roundtrip", T + "Connection.dataReceivedRECORDS", props=[PROP], params={},
              self_fields={**F_BUF, **F_RX, **F_QUEUES, **F_CONSUMER}, ghost={"c": "bytes", "rest": "bytes"},
              requires=[INV_CONSUMER, "len(c) < 2**32", "self.buf == be_enc(len(c), 4) + c + rest"],
              raises={"BadNonce": None, "CryptoError": None, "ValueError": None},
              modifies=["buf", "next_receive_nonce"] + M_QUEUES + M_CONSUMER,
              ensures=[("first-frame-is-exactly-what-was-written", "k >= 1 and first == c and after_first == rest")],
              ensures_raise={e: [("first-frame-is-exactly-what-was-written",
                                  "implies(k == 0, call_arg('_decrypt_record', 0, 1) == c) and implies(k >= 1, first == c and after_first == rest)")]
                             for e in ("BadNonce", "CryptoError", "ValueError")},
              loops={0: {"ghost_init": {"k": "0", "first": "b''", "after_first": "b''"},
                         "ghost_update": {"first": "ite(k == 0, encrypted, first)", "after_first": "ite(k == 0, self.buf, after_first)",
                                          "k": "k + 1"},
                         "invariant": ["k >= 0", "implies(k == 0, self.buf == at_entry(self.buf))",
                                       "implies(k >= 1, first == at_entry(self.buf)[4:4 + be_value(at_entry(self.buf)[:4])] and "
                                       "after_first == at_entry(self.buf)[4 + be_value(at_entry(self.buf)[:4]):])",
                                       INV_CONSUMER]}},
              note="real loop body, specialised precondition: the buffer starts with what send_record's contract says it writes "
                   "for a ciphertext c (be4(len(c)) then c), followed by anything.  The first frame handed to _decrypt_record is "
                   "exactly c and exactly `rest` is left for the following frames"),
    BodyLemma("lemma:frame_incomplete", T + "Connection.dataReceivedRECORDS", props=[PROP], params={},
              self_fields={**F_BUF, **F_RX, **F_QUEUES, **F_CONSUMER}, ghost={"c": "bytes", "cut": "int"},
              requires=[INV_CONSUMER, "len(c) < 2**32", "0 <= cut and cut < 4 + len(c)",
                        "self.buf == (be_enc(len(c), 4) + c)[:cut]"],
              modifies=["buf", "next_receive_nonce"] + M_QUEUES + M_CONSUMER,   # the loop head havocs them; see the clause
              ensures=[("nothing-delivered-nothing-consumed", "self.buf == old(self.buf) and n_calls('_decrypt_record') == 0 and "
                                                              "n_calls('recordReceived') == 0")],
              loops={0: {"invariant": ["self.buf == at_entry(self.buf)"], "body_ensures": ["False"]}},
              note="any proper prefix of a frame yields no record and stays buffered (fragmentation never surfaces a truncated record)"),
    Contract("lemma:honest_record_is_accepted_unchanged", props=[PROP], source_module=T_PY,
             params={"rx": "obj[Connection]", "n": "int", "record": "bytes"},
             source_text="""
             def honest_record_is_accepted_unchanged(rx, n, record):
                 c = sbox_ct(rx.receive_box.key, be_enc(n, 24), record)   # what send_record's contract writes for counter n
                 return rx._decrypt_record(c)
             """,
             requires=["0 <= n and n < 2**192", "rx.next_receive_nonce == n"],
             ensures=[("same-plaintext", "result == record"), ("counter-advanced", "rx.next_receive_nonce == n + 1")],
             note="sender contract + receiver contract + SecretBox correctness: the frame body that send_record writes for its "
                  "k-th record is accepted by a receiver whose counter is k and whose receive key is the sender's send key, and "
                  "decrypts to exactly that record (no exception is allowed here)"),
    Contract("lemma:out_of_order_record_is_rejected", props=[PROP], source_module=T_PY,
             params={"rx": "obj[Connection]", "m": "int", "record": "bytes"},
             source_text="""
             def out_of_order_record_is_rejected(rx, m, record):
                 c = sbox_ct(rx.receive_box.key, be_enc(m, 24), record)   # a genuine frame, but not the next one
                 try:
                     rx._decrypt_record(c)
                 except BadNonce:
                     return True
                 return False
             """,
             requires=["0 <= m and m < 2**192", "rx.next_receive_nonce != m"],
             ensures=[("always-rejected", "result"), ("counter-kept", "rx.next_receive_nonce == old(rx.next_receive_nonce)")],
             note="a replayed, duplicated, skipped-over or swapped genuine frame (counter m instead of the expected one) raises "
                  "BadNonce and is not decrypted"),
    # ------------------------------------------------------------------ the state machine once established / dropped
    BodyLemma("lemma:hung_up_is_silent", T + "Connection._dataReceived", props=[PROP], params={"data": "bytes"},
              self_fields={**F_STATE, **F_BUF, **F_RX, **F_QUEUES, **F_CONSUMER, **F_NEG, "transport": "obj[Transport]",
                           "owner": "obj[Common]", "send_nonce": "int", "send_box": "obj[SecretBox]"},
              requires=["self.state == 'hung up'"], modifies=["buf"],
              ensures=[("nothing-parsed-nothing-delivered", "len(call_order()) == 0 and len(bcall_names()) == 0 and "
                                                            "n_events('box.decrypt') == 0")],
              note="after any failure (state 'hung up') further bytes are only buffered: no frame is parsed, no record decrypted or "
                   "delivered, nothing written; every field but buf is proved unchanged (frame)"),
    BodyLemma("lemma:records_state_parses_frames", T + "Connection._dataReceived", props=[PROP], params={"data": "bytes"},
              self_fields={**F_STATE, **F_BUF, **F_RX, **F_QUEUES, **F_CONSUMER, **F_NEG, "transport": "obj[Transport]",
                           "owner": "obj[Common]", "send_nonce": "int", "send_box": "obj[SecretBox]"},
              requires=["self.state == 'records'", INV_CONSUMER],
              modifies=["buf", "next_receive_nonce"] + M_QUEUES + M_CONSUMER,
              raises={"BadNonce": None, "CryptoError": None, "ValueError": None},
              ensures=[("only-the-frame-parser-runs", "call_order() == ['dataReceivedRECORDS'] and len(bcall_names()) == 0"),
                       ("new-bytes-appended-to-the-stream-then-whole-frames-consumed",
                        "(old(self.buf) + data).endswith(self.buf) and "
                        "(len(self.buf) < 4 or len(self.buf) < 4 + be_value(self.buf[:4]))"),
                       ("still-established", "self.state == 'records'")],
              note="in state 'records' every chunk is appended to the buffer and the frame parser (by contract) runs on the whole "
                   "buffer: chunking of the TCP stream is invisible to it"),
]


# ---------------------------------------------------------------------------------------------------------------
# The induction over the stream, machine-checked.  One step = one complete frame at the head of the unconsumed
# stream (lemma:frame_incomplete covers "no complete frame yet": nothing delivered, nothing consumed; the
# dataReceivedRECORDS loop invariant chains the steps within a chunk, lemma:records_state_parses_frames across chunks).
# The hypotheses are clauses of the verified contracts / lemmas above, looked up BY NAME and restated over ghost
# values by the substitutions given here; a weakened or renamed clause breaks the lemma.
def _c6(target):
    for c in CONTRACTS:
        if c.target.endswith(target):
            return c
    raise KeyError(target)


def _sub(e, subst):
    import re as _re
    for a, b in subst:
        e = _re.sub(a, b, e)
    return e


def clause6(target, name, subst):
    c = _c6(target)
    return _sub(dict(c.ensures + c.internal_ensures)[name], subst)


def body_clause6(target, text, subst):
    c = _c6(target)
    assert text in c.loops[0]["body_ensures"], f"{target}: loop body clause no longer stated: {text}"
    return _sub(text, subst)


def lemma_as_hypothesis(target, req_subst, ens_subst):
    """a verified lemma as an implication: all its requires => all its ensures"""
    c = _c6(target)
    return "implies(" + " and ".join("(" + _sub(r, req_subst) + ")" for r in c.requires) + ", " + \
        " and ".join("(" + _sub(e, ens_subst) + ")" for _, e in c.ensures) + ")"


_SR = _c6("Connection.send_record")
_W0 = _sub(_SR.effects[0][1][0], [(r"\brecord\b", "recs[j]")])
_W1 = _sub(_SR.effects[1][1][0], [(r"self\.send_box\.key", "key"), (r"old\(self\.send_nonce\)", "j"), (r"\brecord\b", "recs[j]")])
_INV = "0 <= {k} and {k} <= len(recs) and len({d}) == {k} and forall(lambda i: implies(0 <= i and i < {k}, {d}[i] == recs[i]))"

CONTRACTS.append(Contract(
    "lemma:stream_induction_step", props=[PROP], source_module=T_PY,
    params={"recs": "seq[bytes]", "key": "bytes", "j": "int", "w0": "bytes", "w1": "bytes", "rest": "bytes", "first": "bytes",
            "after_first": "bytes", "k0": "int", "k1": "int", "d0": "seq[bytes]", "d1": "seq[bytes]", "plain": "bytes",
            "rejected": "bool", "n_rr": "int", "handed": "bytes"},
    source_text="""
    def stream_induction_step(recs, key, j, w0, w1, rest, first, after_first, k0, k1, d0, d1, plain, rejected, n_rr, handed):
        return None
    """,
    requires=[
        # induction hypothesis: after the stream consumed so far exactly recs[:k0] were delivered, in order; counter == k0
        _INV.format(k="k0", d="d0"),
        # the next bytes of the stream are what the sender's j-th send_record wrote (its effects, by name), then anything
        "0 <= j and j < len(recs) and j < 2**192 and len(recs[j]) < 2**32 - 40",
        f"w0 == ({_W0})", f"w1 == ({_W1})",
        # lemma:frame_roundtrip (real loop body): such a buffer yields exactly that frame and leaves exactly the rest
        lemma_as_hypothesis("lemma:frame_roundtrip",
                            [(r"self\._consumer_bytes_expected is None or self\._consumer_deferred is not None", "True"),
                             (r"self\.buf", "(w0 + w1 + rest)"), (r"\bc\b", "w1")],
                            [(r"k >= 1 and ", ""), (r"\bc\b", "w1")]),
        # the frame handed to _decrypt_record is that first frame; its result is what recordReceived gets (loop body clauses)
        # lemma:honest_record_is_accepted_unchanged / lemma:out_of_order_record_is_rejected, instantiated at this frame
        "implies(first == w1, " +
        lemma_as_hypothesis("lemma:honest_record_is_accepted_unchanged",
                            [(r"\bn\b", "j"), (r"rx\.next_receive_nonce", "k0")],
                            [(r"\bresult\b", "(not rejected and plain)"), (r"\brecord\b", "recs[j]"), (r"\bn\b", "j"),
                             (r"rx\.next_receive_nonce", "k1")]).replace("(not rejected and plain) == recs[j]",
                                                                        "not rejected and plain == recs[j]") + ")",
        "implies(first == w1, " +
        lemma_as_hypothesis("lemma:out_of_order_record_is_rejected",
                            [(r"\bm\b", "j"), (r"rx\.next_receive_nonce", "k0")],
                            [(r"\bresult\b", "rejected"), (r"old\(rx\.next_receive_nonce\)", "k0"),
                             (r"rx\.next_receive_nonce", "k1")]) + ")",
        # dataReceivedRECORDS: an accepted frame's plaintext goes to recordReceived exactly once, unchanged; a rejected
        # one is not delivered (ensures_raise) - d1 is the ghost list of records handed to recordReceived
        "implies(not rejected, n_rr == 1 and " +
        body_clause6("Connection.dataReceivedRECORDS", "iter_call_arg('recordReceived', 0, 1) == iter_call_result('_decrypt_record', 0)",
                     [(r"iter_call_arg\('recordReceived', 0, 1\)", "handed"), (r"iter_call_result\('_decrypt_record', 0\)", "plain")]) + ")",
        "implies(rejected, " + _sub(dict(_c6("Connection.dataReceivedRECORDS").ensures_raise["BadNonce"])["failing-frame-not-delivered"],
                                    [(r"iter_n_calls\('recordReceived'\)", "n_rr")]) + ")",
        "implies(n_rr == 1, d1 == d0 + [handed])", "implies(n_rr == 0, d1 == d0)"],
    ensures=[("the-written-bytes-are-a-frame-of-the-parser", "len(w1) == len(recs[j]) + 40 and w0 == be_enc(len(w1), 4) and len(w1) < 2**32"),
             ("the-next-record-in-order-is-delivered-unchanged", "implies(j == k0, d1 == d0 + [recs[k0]] and k1 == k0 + 1)"),
             ("anything-else-is-rejected-and-nothing-is-delivered", "implies(j != k0, rejected and d1 == d0 and k1 == k0)"),
             ("induction-hypothesis-re-established.count", "0 <= k1 and k1 <= len(recs) and len(d1) == k1 and k1 >= k0"),
             ("induction-hypothesis-re-established.delivered-are-the-first-k-sent-in-order",
              "forall(lambda i: implies(0 <= i and i < k1, d1[i] == recs[i]))")],
    note="inductive step of 'k-th record received == k-th record sent': whichever genuine frame comes next (the expected one, "
         "a duplicate, a skipped-ahead or an older one), afterwards the delivered list is again exactly recs[:k1], k1 >= k0; "
         "a rejected frame raises, and dataReceived (any-exception-drops-the-connection) then hangs up, after which "
         "lemma:hung_up_is_silent applies.  A frame that is not genuine at all fails _decrypt_record (CryptoError / BadNonce "
         "by its raises_exactly) the same way"))
CONTRACTS[-1].qf_feasibility = True


ALL_CONN_FIELDS = ["state", "buf", "next_receive_nonce", "receive_box", "send_nonce", "send_box", "_negotiation_d", "_error"] \
    + M_QUEUES + M_CONSUMER

# over-approximation of Connection._dataReceived (its precise contract is C07's): any outcome, any field
ANY_DATA_RECEIVED = Contract(T + "Connection._dataReceived", params={"data": "bytes"}, modifies=ALL_CONN_FIELDS,
                             raises={"BadHandshake": None, "Exception": None},
                             note="sound for any implementation that touches only these fields of self")


def regf(exclude=()):
    reg = make_transit_registry(CONTRACTS + [ANY_DATA_RECEIVED], exclude)
    reg.class_fields["Connection"] = dict(F_RX)
    sf = reg.spec_funcs

    def exc_class(it, x):
        x = it.force(x)
        return VStr(x.cls if isinstance(x, VObj) else "?")

    sf["exc_class"] = exc_class

    def call_order_iter(it):
        tr = it.ctx.trace
        start = max([i for i, e in enumerate(tr) if e[0] == "loop-body-start"] + [-1])
        return VList([VStr(e[1][0].split(".")[-1]) for e in tr[start + 1:] if e[0] == "call"])

    sf["call_order_iter"] = call_order_iter

    # callables handed in by the application (progress / hasher): calling one is a boundary event ("bcall", <type name>, "__call__")
    def _fcalls(it, cls):
        cls = it.concrete(cls)
        return [e for e in it.ctx.trace if e[0] == "bcall" and e[1][0] == cls and e[1][1] == "__call__"]

    sf["fcalls"] = lambda it, cls: VInt(len(_fcalls(it, cls)))

    def fcall_arg(it, cls, k, i):
        evs = _fcalls(it, cls)
        k, i = it.concrete(k), it.concrete(i)
        return evs[k][1][2][i] if k < len(evs) else NONE

    sf["fcall_arg"] = fcall_arg
    # IConsumer.providedBy(transport): a fact about the transport object (ghost field), nothing the Connection decides
    reg.class_fields["Transport"] = {"is_consumer": "bool"}
    reg.ext_models["twisted.internet.interfaces.IConsumer.providedBy"] = \
        lambda it, args, kw: it.force(it.force(args[0]).fields["is_consumer"])
    return reg


REENTRANT = "lemma:consumer_attach_keeps_order_when_the_producer_is_resumed_at_once"


def regf_reentrant():
    """registerProducer() of the consumer resumes the producer at once: a live record may be received re-entrantly"""
    reg = regf(exclude=(T + "Connection.recordReceived", T + "Connection._writeToConsumer",
                        T + "Connection.disconnectConsumer"))

    def register_producer(it, recv, meth, args, kwargs, fr):
        it.ctx.event("bcall", recv.cls if isinstance(recv, VObj) else "?", meth, list(args), dict(kwargs))
        producer = it.force(args[0])
        if it.ctx.choose([z3.BoolVal(True), z3.BoolVal(True)], "producer-resumed-at-once") == 1:
            r = it.fresh("bytes", "live_record")
            it.ctx.event("reentered", r)
            it.call(it.getattr(producer, "recordReceived"), [r], {})
        return NONE

    reg.boundary["Consumer.registerProducer"] = register_producer

    def reentered(it):
        rs = [e[1][0] for e in it.ctx.trace if e[0] == "reentered"]
        return VSeq(to_z3(VList(rs), parse_type("seq[bytes]")), "bytes")

    reg.spec_funcs["reentered"] = reentered
    return reg


# contracts added after the callers below were verified with the real bodies of _writeToConsumer / disconnectConsumer
# inlined: those callers keep executing the real bodies (regf_inline); the new contracts are verified on their own and
# used modularly by the new callers (_writeToConsumer -> disconnectConsumer, writeToFile -> connectConsumer)
LEAF = (T + "Connection._writeToConsumer", T + "Connection.disconnectConsumer")


def regf_inline():
    return regf(exclude=LEAF)


def tasks():
    new = set(LEAF) | {T + "Connection.writeToFile", T + "Connection.write"}
    from pyvc.runner import FuncTask
    from .transit_lib import be_definitional_task
    return [ContractTask(c, regf_reentrant if c.target == REENTRANT else (regf if c.target in new else regf_inline))
            for c in CONTRACTS] + [FuncTask("be-definitional", be_definitional_task, True, "lemma")]


TRUSTED = TRUSTED_LIB
ASSUMPTIONS = [
    "SecretBox is an ideal AEAD (INT-CTXT): 'authentic under the receive key' is the model predicate sbox_valid; that a party "
    "without the key cannot produce a valid ciphertext is the cryptographic assumption, not something proved here",
    "HKDF idealisation (injective in info) is used only by lemma:record_keys_cross_match.the-two-directions-use-different-keys",
    "Deferred.callback/errback run no code that re-enters the Connection synchronously (an application callback that calls "
    "receive_record()/close() from inside a firing Deferred is outside the model); transport.write keeps call order; TCP is in-order",
    "preconditions taken as class invariants: send_nonce >= 0; a consumer with a byte target also has its Deferred "
    "(_consumer_bytes_expected is None or _consumer_deferred is not None); no dataReceived after connectionLost",
    "send_record is verified for len(record) < 2**32 - 40 only: for 2**32-40 <= len(record) < 2**32 the code's own assert passes "
    "but the 4-byte length field overflows (unhexlify('%08x' % len) raises binascii.Error after the nonce was consumed); "
    "reproduced natively with a length-faking bytes subclass, reported, not a C06 violation (nothing is sent)",
    "end-to-end composition (k-th record received == k-th record sent for a whole stream): the inductive step is "
    "lemma:stream_induction_step, machine-checked, with hypotheses imported by name from send_record.effects, "
    "lemma:frame_roundtrip, lemma:honest_record_is_accepted_unchanged / out_of_order_record_is_rejected and the "
    "dataReceivedRECORDS loop-body / ensures_raise clauses (textual substitution of trace terms by ghost values: clause6 / "
    "lemma_as_hypothesis in props/c06.py, part of the trusted reading).  Still argued, not one obligation: the outer induction "
    "over the frames of the stream (its steps are chained by the dataReceivedRECORDS loop invariant within a chunk and by "
    "lemma:records_state_parses_frames / frame_incomplete across chunks), and the hand-over from 'handed to recordReceived in "
    "order' to 'obtained by the application in order' (recordReceived / _deliverRecords / receive_record FIFO contracts, "
    "_writeToConsumer / FileConsumer.write for consumer mode)",
    "_dataReceived is used by dataReceived through an over-approximating contract (any exception, any field); its precise "
    "contract is verified under C07",
    "FileConsumer.write: the file object, the progress callable and the hasher callable are boundaries (recorded calls); that "
    "f.write() stores the bytes is the file's business.  Connection.registerProducer: whether the transport provides IConsumer is "
    "a ghost fact about the transport (zope providedBy is not executed)",
    "not under contract: Connection.__init__ / connectionMade / startNegotiation / _cancel / the handshake states (C07), "
    "the Transit* factories; application callbacks run by Deferred.callback (see the re-entrancy assumption above)",
]
