"""C06 - Transit delivers exactly the records sent, or drops the connection."""
from pyvc.contract import Contract
from pyvc.runner import ContractTask
from pyvc.values import *   # noqa
from .transit_lib import make_transit_registry, BodyLemma, T_PY, TRUSTED_LIB, DEFERRED

PROP = "C06"
T = T_PY + ":"

# pre-state of a Connection (only the fields a function touches are listed in its contract)
F_STATE = {"state": "str"}
F_BUF = {"buf": "bytes"}
F_RX = {"next_receive_nonce": "int", "receive_box": "obj[SecretBox]"}
F_TX = {"send_nonce": "int", "send_box": "obj[SecretBox]", "transport": "obj[Transport]"}
F_QUEUES = {"_inbound_records": "seq[bytes]", "_waiting_reads": f"seq[{DEFERRED}]"}
F_CONSUMER = {"_consumer": "opt[obj[Consumer]]", "_consumer_bytes_written": "int",
              "_consumer_bytes_expected": "opt[int]", "_consumer_deferred": f"opt[{DEFERRED}]"}
F_NEG = {"_negotiation_d": f"opt[{DEFERRED}]", "_error": "opt[obj[Exception]]"}
M_CONSUMER = list(F_CONSUMER)
M_QUEUES = list(F_QUEUES)

# class invariant of the consumer fields (connectConsumer sets both, disconnectConsumer clears both)
INV_CONSUMER = "self._consumer_bytes_expected is None or self._consumer_deferred is not None"

R = "self._inbound_records"
W = "self._waiting_reads"
# FIFO hand-out, stated by cases (which queue is the shorter one) so that no slice bound is a conditional term
DELIVER_ENSURES = [
    ("records-run-out-first", f"implies(len(old({R})) <= len(old({W})), len({R}) == 0 and {W} == old({W})[len(old({R})):])"),
    ("reads-run-out-first", f"implies(len(old({W})) <= len(old({R})), len({W}) == 0 and {R} == old({R})[len(old({W})):])"),
]

CONTRACTS = [
    # ------------------------------------------------------------------ sender side
    Contract(T + "Connection.send_record", props=[PROP], params={"record": "bytes"}, self_fields=dict(F_TX),
             requires=["self.send_nonce >= 0", "len(record) < 2**32 - 40"],
             raises_exactly={"AssertionError": "self.send_nonce >= 2**192"},
             modifies=["send_nonce"],
             ensures=[("nonce-used-once", "self.send_nonce == old(self.send_nonce) + 1")],
             internal_ensures=[("one-encryption", "n_events('box.encrypt') == 1"),
                               ("nonce-is-the-counter", "nonce == be_enc(old(self.send_nonce), 24)")],
             effects=[("write", ["be_enc(len(record) + 40, 4)"]),
                      ("write", ["sbox_ct(self.send_box.key, be_enc(old(self.send_nonce), 24), record)"])],
             ensures_raise={"AssertionError": [("nothing-written", "len(bcall_names()) == 0"),
                                               ("counter-kept", "self.send_nonce == old(self.send_nonce)")]},
             note="the k-th record goes out as be4(len(c)) then c = nonce ++ body, nonce = 24-byte big-endian k, under the send key; "
                  "exactly two transport writes, in that order; the counter moves by exactly one"),
    # ------------------------------------------------------------------ receiver side
    Contract(T + "Connection._decrypt_record", props=[PROP], params={"encrypted": "bytes"}, self_fields=dict(F_RX),
             modifies=["next_receive_nonce"], returns="bytes",
             raises_exactly={"ValueError": "len(encrypted) == 0",
                             "BadNonce": "len(encrypted) > 0 and be_value(encrypted[:24]) != self.next_receive_nonce",
                             "CryptoError": "len(encrypted) > 0 and be_value(encrypted[:24]) == self.next_receive_nonce and "
                                            "not sbox_valid(self.receive_box.key, encrypted)"},
             ensures=[("nonce-is-the-expected-counter", "be_value(encrypted[:24]) == old(self.next_receive_nonce)"),
                      ("counter-advances-by-one", "self.next_receive_nonce == old(self.next_receive_nonce) + 1"),
                      ("authentic-under-the-receive-key", "sbox_valid(self.receive_box.key, encrypted)"),
                      ("result-is-the-decryption", "result == sbox_open(self.receive_box.key, encrypted) and "
                       "encrypted == sbox_ct(self.receive_box.key, encrypted[:24], result)")],
             ensures_raise={"BadNonce": [("counter-kept", "self.next_receive_nonce == old(self.next_receive_nonce)")],
                            "ValueError": [("counter-kept", "self.next_receive_nonce == old(self.next_receive_nonce)")]},
             note="a plaintext comes out only if the 24-byte prefix is exactly the expected counter and the box authenticates; "
                  "a replayed, reordered, dropped or forged frame raises (BadNonce / CryptoError), an empty frame ValueError"),
    Contract(T + "Connection._deliverRecords", props=[PROP], params={}, self_fields=dict(F_QUEUES), modifies=M_QUEUES,
             ensures=DELIVER_ENSURES,
             internal_ensures=[("fifo-pairs-fired", f"old({R}) == gr + {R} and old({W}) == gd + {W} and len(gr) == len(gd)")],
             loops={0: {"header": "self._inbound_records and self._waiting_reads",
                        "ghost_init": {"gr": "empty_seq('bytes')", "gd": f"empty_seq('{DEFERRED}')"},
                        "ghost_update": {"gr": "gr + [r]", "gd": "gd + [d]"},
                        "invariant": [f"at_entry({R}) == gr + {R}", f"at_entry({W}) == gd + {W}", "len(gr) == len(gd)"],
                        "body_ensures": ["iter_bcall_names() == ['callback']",
                                         f"iter_bcall_arg('callback', 0, 0) == at_iter({W})[0]",
                                         f"iter_bcall_arg('callback', 0, 1) == at_iter({R})[0]",
                                         f"r == at_iter({R})[0] and d == at_iter({W})[0]",
                                         f"{R} == at_iter({R})[1:] and {W} == at_iter({W})[1:]"]}},
             note="ghost gr/gd: records delivered / reads fired so far; the i-th oldest record goes to the i-th oldest read, "
                  "exactly one callback per pair, until one queue is empty"),
    Contract(T + "Connection.recordReceived", props=[PROP], params={"record": "bytes"},
             self_fields={**F_QUEUES, **F_CONSUMER}, requires=[INV_CONSUMER], modifies=M_QUEUES + M_CONSUMER,
             ensures=[("consumer-mode-keeps-queues", f"implies(old(self._consumer) is not None, {R} == old({R}) and {W} == old({W}))"),
                      ("queued-behind-earlier-records--reads-left-over",
                       f"implies(old(self._consumer) is None and len(old({R})) + 1 <= len(old({W})), "
                       f"len({R}) == 0 and {W} == old({W})[len(old({R})) + 1:])"),
                      ("queued-behind-earlier-records--records-left-over",
                       f"implies(old(self._consumer) is None and len(old({W})) <= len(old({R})) + 1, "
                       f"len({W}) == 0 and {R} == (old({R}) + [record])[len(old({W})):])"),
                      ("consumer-invariant-kept", INV_CONSUMER)],
             internal_ensures=[
                 ("consumer-gets-exactly-this-record-first",
                  "implies(old(self._consumer) is not None, bcall_names()[0] == 'write' and bcall_arg('write', 0, 0) == record "
                  "and bcalls('write') == 1 and n_calls('_deliverRecords') == 0)"),
                 ("consumer-byte-count", "implies(old(self._consumer) is not None and self._consumer is not None, "
                                         "self._consumer_bytes_written == old(self._consumer_bytes_written) + len(record))"),
                 ("queue-mode-writes-nothing", "implies(old(self._consumer) is None, len(bcall_names()) == 0 and "
                                               "n_calls('_deliverRecords') == 1)")],
             note="a record is either written to the attached consumer (once, whole) or appended behind all earlier undelivered "
                  "records and handed out FIFO by _deliverRecords (by contract)"),
    Contract(T + "Connection.receive_record", props=[PROP], params={}, self_fields=dict(F_QUEUES), modifies=M_QUEUES,
             returns=DEFERRED,
             ensures=[("read-queued-behind-earlier-reads--records-left-over",
                       f"implies(len(old({W})) + 1 <= len(old({R})), len({W}) == 0 and {R} == old({R})[len(old({W})) + 1:])"),
                      ("read-queued-behind-earlier-reads--reads-left-over",
                       f"implies(len(old({R})) <= len(old({W})) + 1, len({R}) == 0 and "
                       f"{W} == (old({W}) + [result])[len(old({R})):])")],
             internal_ensures=[("a-new-deferred", "n_events('new-deferred') == 1 and result == event_arg('new-deferred', 0, 0)")]),
    Contract(T + "Connection.close", props=[PROP], params={}, self_fields={**F_QUEUES, "transport": "obj[Transport]"},
             modifies=["_waiting_reads"],
             ensures=[("no-read-left-waiting", f"len({W}) == 0")],
             internal_ensures=[("every-waiting-read-failed-once-in-order", f"gd == old({W})"),
                               ("connection-dropped-once", "bcall_names() == ['loseConnection']")],
             loops={0: {"header": "self._waiting_reads",
                        "ghost_init": {"gd": f"empty_seq('{DEFERRED}')"}, "ghost_update": {"gd": "gd + [d]"},
                        "invariant": [f"at_entry({W}) == gd + {W}"],
                        "body_ensures": ["iter_bcall_names() == ['errback']",
                                         f"iter_bcall_arg('errback', 0, 0) == at_iter({W})[0]",
                                         "exc_class(iter_bcall_arg('errback', 0, 1)) == 'error.ConnectionClosed'",
                                         f"d == at_iter({W})[0] and {W} == at_iter({W})[1:]"]}},
             note="ghost gd: the reads errbacked so far; each iteration errbacks exactly the oldest waiting read, once"),
    Contract(T + "Connection.connectionLost", props=[PROP], params={"reason": "none"},
             self_fields={**F_QUEUES, **F_NEG, "_consumer_deferred": f"opt[{DEFERRED}]"},
             modifies=["_waiting_reads", "_negotiation_d"],
             ensures=[("no-read-left-waiting", f"len({W}) == 0"), ("negotiation-deferred-consumed", "self._negotiation_d is None")],
             internal_ensures=[
                 ("every-waiting-read-failed-once-in-order", f"gd == old({W})"),
                 ("timer-cancelled-first", "bcall_names()[0] == 'setTimeout' and bcall_arg('setTimeout', 0, 0) is None"),
                 ("pending-negotiation-fails-once",
                  "implies(old(self._negotiation_d) is not None, bcalls('errback') >= 1 and "
                  "bcall_arg('errback', 0, 0) == old(self._negotiation_d) and "
                  "implies(old(self._error) is not None, bcall_arg('errback', 0, 1) is old(self._error)) and "
                  "implies(old(self._error) is None, exc_class(bcall_arg('errback', 0, 1)) == 'BadHandshake'))"),
                 ("pending-consumer-fails-once",
                  "implies(self._consumer_deferred is not None, "
                  "bcall_arg('errback', bcalls('errback') - 1, 0) == self._consumer_deferred and "
                  "exc_class(bcall_arg('errback', bcalls('errback') - 1, 1)) == 'error.ConnectionClosed')"),
                 ("nothing-else-fired",
                  "bcalls('errback') == ite(old(self._negotiation_d) is not None, 1, 0) + ite(self._consumer_deferred is not None, 1, 0) "
                  "and len(bcall_names()) == 1 + bcalls('errback')")],
             loops={0: {"header": "self._waiting_reads",
                        "ghost_init": {"gd": f"empty_seq('{DEFERRED}')"}, "ghost_update": {"gd": "gd + [d]"},
                        "invariant": [f"at_entry({W}) == gd + {W}"],
                        "body_ensures": ["iter_bcall_names() == ['errback']",
                                         f"iter_bcall_arg('errback', 0, 0) == at_iter({W})[0]",
                                         "exc_class(iter_bcall_arg('errback', 0, 1)) == 'error.ConnectionClosed'",
                                         f"d == at_iter({W})[0] and {W} == at_iter({W})[1:]"]}},
             note="pending reads fail (each once, oldest first), a still-pending negotiation fails with the recorded error, a "
                  "pending consumer Deferred fails"),
]


def regf(exclude=()):
    reg = make_transit_registry(CONTRACTS, exclude)
    reg.class_fields["Connection"] = {}
    sf = reg.spec_funcs

    def exc_class(it, x):
        x = it.force(x)
        return VStr(x.cls if isinstance(x, VObj) else "?")

    sf["exc_class"] = exc_class
    return reg


def tasks():
    return [ContractTask(c, regf) for c in CONTRACTS]


TRUSTED = TRUSTED_LIB
ASSUMPTIONS = []
