"""C19 - codes are well-formed with the promised entropy; code entry is consistent."""
import ast
import binascii
import time
import z3

from pyvc.contract import Contract
from pyvc.runner import ContractTask, FuncTask, ob
from pyvc.values import *   # noqa
from pyvc.models import uf
from pyvc import source
from .common import make_registry, install_trace_funcs, register_classes

PROP = "C19"

VALID_CODE = '(" " not in code) and is_digits(first_part(code, "-"))'

CONTRACTS = [
    Contract("wormhole/_nameplate.py:validate_nameplate", props=[PROP], params={"nameplate": "str"},
             raises_exactly={"KeyFormatError": "not is_digits(nameplate)"},
             note="returns normally exactly for non-empty strings of decimal digits (nothing else, no newline)"),
    Contract("wormhole/_code.py:validate_code", props=[PROP], params={"code": "str"},
             raises_exactly={"KeyFormatError": f"not ({VALID_CODE})"}),
    Contract("wormhole/_boss.py:Boss.set_code", props=[PROP], params={"code": "str"},
             self_fields={"_did_start_code": "bool", "_C": "obj[ICode]"},
             raises_exactly={"KeyFormatError": f"not ({VALID_CODE})",
                             "OnlyOneCodeError": f"({VALID_CODE}) and self._did_start_code"},
             ensures=[("flag", "self._did_start_code"),
                      ("forwarded-once", "bcalls('set_code') == 1 and bcall_arg('set_code', 0, 0) == code"),
                      ("nothing-else", "len(bcall_names()) == 1")],
             ensures_raise={"KeyFormatError": [("nothing-sent", "len(bcall_names()) == 0"),
                                               ("flag-kept", "self._did_start_code == old(self._did_start_code)")],
                            "OnlyOneCodeError": [("nothing-sent", "len(bcall_names()) == 0")]},
             modifies=["_did_start_code"]),
    Contract("wormhole/_boss.py:Boss.allocate_code", props=[PROP], params={"code_length": "int"},
             self_fields={"_did_start_code": "bool", "_C": "obj[ICode]"},
             raises_exactly={"OnlyOneCodeError": "self._did_start_code"},
             ensures=[("flag", "self._did_start_code"),
                      ("forwarded-once", "bcalls('allocate_code') == 1 and bcall_arg('allocate_code', 0, 0) == code_length"),
                      ("nothing-else", "len(bcall_names()) == 1")],
             ensures_raise={"OnlyOneCodeError": [("nothing-sent", "len(bcall_names()) == 0")]},
             modifies=["_did_start_code"]),
    Contract("wormhole/_boss.py:Boss.input_code", props=[PROP], params={},
             self_fields={"_did_start_code": "bool", "_C": "obj[ICode]"},
             raises_exactly={"OnlyOneCodeError": "self._did_start_code"},
             ensures=[("flag", "self._did_start_code"),
                      ("forwarded-once", "bcalls('input_code') == 1 and len(bcall_names()) == 1")],
             ensures_raise={"OnlyOneCodeError": [("nothing-sent", "len(bcall_names()) == 0")]},
             modifies=["_did_start_code"]),
    Contract("wormhole/_input.py:Input.choose_nameplate", props=[PROP], params={"nameplate": "str"},
             self_fields={"_all_nameplates": "opt[set[str]]", "_nameplate": "opt[str]"},
             raises_exactly={"KeyFormatError": "not is_digits(nameplate)"},
             ensures=[("validated-then-input", "input_calls('_choose_nameplate') == 1")],
             ensures_raise={"KeyFormatError": [("no-input", "input_calls('_choose_nameplate') == 0")]},
             note="the Automat input _choose_nameplate is treated as a boundary here; its rows are C14's business"),
    Contract("wormhole/_wordlist.py:PGPWordList.choose_words", props=[PROP], params={"length": "int"},
             self_fields={}, returns="str",
             internal_ensures=[("count", "len(words) == ite(length >= 0, length, 0)"),
                      ("joined", 'result == join("-", words)'),
                      ("each-word-from-its-list",
                       "forall(lambda j: implies(0 <= j and j < length, words[j] == lower(ite(j % 2 == 0, "
                       "odd_word(draws[j]), even_word(draws[j]))) and len(draws[j]) == 1))"),
                      ("one-draw-per-word", "len(draws) == ite(length >= 0, length, 0)")],
             loops={0: {"header": "for i in range(length)", "retype": {"words": "seq[str]"},
                        "ghost_init": {"draws": 'empty_seq("bytes")'},
                        "ghost_update": {"draws": "draws + [iter_event('os.urandom')]"},
                        "invariant": ["len(words) == _i", "len(draws) == _i",
                                      "forall(lambda j: implies(0 <= j and j < _i, words[j] == lower(ite(j % 2 == 0, "
                                      "odd_word(draws[j]), even_word(draws[j]))) and len(draws[j]) == 1))"]}},
             note="draws is the ghost sequence of os.urandom(1) results: one fresh draw per word, used for that word"),
    Contract("wormhole/_allocator.py:Allocator.stash", props=[PROP], params={"length": "int", "wordlist": "obj[PGPWordList]"},
             self_fields={"_length": "int", "_wordlist": "opt[obj[PGPWordList]]"}, modifies=["_length", "_wordlist"],
             ensures=[("requested-length-recorded", "self._length == length"),
                      ("wordlist-recorded", "self._wordlist is wordlist")],
             note="allocate_code(n) before the connection is up: the requested number of words is what is remembered"),
    Contract("wormhole/_allocator.py:Allocator.stash_and_RC_rx_allocate", props=[PROP],
             params={"length": "int", "wordlist": "obj[PGPWordList]"},
             self_fields={"_length": "int", "_wordlist": "opt[obj[PGPWordList]]", "_RC": "obj[IRendezvousConnector]"},
             modifies=["_length", "_wordlist"],
             ensures=[("requested-length-recorded", "self._length == length"),
                      ("wordlist-recorded", "self._wordlist is wordlist")],
             effects=[("tx_allocate", [])],
             note="allocate_code(n) while already connected: same record, plus exactly one 'allocate' request"),
    Contract("wormhole/_allocator.py:Allocator.build_and_notify", props=[PROP], params={"nameplate": "str"},
             self_fields={"_wordlist": "obj[PGPWordList]", "_length": "int", "_C": "obj[ICode]"},
             ensures=[("code", "bcalls('allocated') == 1 and bcall_arg('allocated', 0, 0) == nameplate and "
                               "bcall_arg('allocated', 0, 1) == nameplate + '-' + call_result('choose_words')"),
                      ("words-drawn-for-exactly-the-recorded-length", "call_arg('choose_words', 0, 1) == self._length"),
                      ("nothing-else", "len(bcall_names()) == 1")]),
    Contract("wormhole/_wordlist.py:PGPWordList.get_completions", props=[PROP],
             params={"prefix": "str", "num_words": "int"}, self_fields={}, returns="set[str]",
             ensures=[("each-extends-and-is-allocatable",
                       "forall(lambda c: implies(c in result, completion_ok(c, prefix, num_words)), 'str')")],
             loops={0: {"header": "for word in words", "retype": {"completions": "set[str]"},
                        "invariant": ["forall(lambda c: implies(c in completions, completion_ok(c, prefix, num_words)), 'str')",
                                      # stated over the parameters, not over the body's temporaries, so that renaming a
                                      # local does not unbind the invariant
                                      "len(last_part(prefix, '-')) == 0 or prefix[:len(prefix) - len(last_part(prefix, '-'))] + "
                                      "last_part(prefix, '-') == prefix",
                                      "words_is_list_for(_iter, count_of(prefix, '-'))"]}}),
    Contract("wormhole/_input.py:Input._get_nameplate_completions", props=[PROP], params={"prefix": "str"},
             self_fields={"_all_nameplates": "set[str]"},
             ensures=[("each-extends", "forall(lambda c: implies(c in result, c.startswith(prefix) and "
                                       "c.endswith('-') and c[:-1] in self._all_nameplates), 'str')")],
             loops={0: {"header": "for nameplate in self._all_nameplates", "retype": {"completions": "set[str]"},
                        "invariant": ["forall(lambda c: implies(c in completions, c.startswith(prefix) and "
                                      "c.endswith('-') and c[:-1] in self._all_nameplates), 'str')"]}}),
]


def regf():
    reg = make_registry()
    install_trace_funcs(reg)
    register_classes(reg, ["wormhole/errors.py", "wormhole/_wordlist.py"])
    for c in CONTRACTS:
        reg.contracts[c.target] = c
    sf = reg.spec_funcs
    odd = uf("odd_word", StringS, StringS)
    even = uf("even_word", StringS, StringS)
    is_odd_lc = uf("is_odd_word_lc", StringS, BoolS)
    is_even_lc = uf("is_even_word_lc", StringS, BoolS)
    sf["odd_word"] = lambda it, b: VStr(odd(b.z), "str")
    sf["even_word"] = lambda it, b: VStr(even(b.z), "str")

    def table(fn):
        def g(it):
            k = z3.Const("k!tab", StringS)
            return VMap(z3.Lambda([k], z3.Length(k) == 1), z3.Lambda([k], fn(k)), "bytes", "str")
        return g

    # module-level tables: abstracted to (all one-byte keys present) -> word; that the real
    # literals have exactly this shape is the data obligation below
    reg.ext_models["global:wormhole/_wordlist.py:byte_to_odd_word"] = table(odd)
    reg.ext_models["global:wormhole/_wordlist.py:byte_to_even_word"] = table(even)

    def wset(pred):
        def g(it):
            k = z3.Const("k!ws", StringS)
            return VSet(z3.Lambda([k], pred(k)), "str")
        return g

    reg.ext_models["global:wormhole/_wordlist.py:odd_words_lowercase"] = wset(is_odd_lc)
    reg.ext_models["global:wormhole/_wordlist.py:even_words_lowercase"] = wset(is_even_lc)

    def words_is_list_for(it, words, count):
        k = z3.Const("k!wl", StringS)
        return VBool(z3.ForAll([k], words.z[k] == z3.If(count.z % 2 == 0, is_odd_lc(k), is_even_lc(k))))

    sf["words_is_list_for"] = words_is_list_for

    def completion_ok(it, c, prefix, num_words):
        """c = (prefix without its last partial word) + w [+ '-'] for a word w of the list that
        choose_words uses at this position, w extending the partial word; hence c extends prefix"""
        cnt = uf("str_count", StringS, StringS, IntS)(prefix.z, z3.StringVal("-"))
        li = z3.LastIndexOf(prefix.z, z3.StringVal("-"))
        L = z3.Length(prefix.z)
        it.ctx.lemma(z3.Implies(li >= 0, z3.And(
            prefix.z == z3.Concat(z3.SubString(prefix.z, 0, li + 1), z3.SubString(prefix.z, li + 1, L)),
            li + 1 <= L, z3.Length(z3.SubString(prefix.z, li + 1, L)) == L - li - 1)), "lemma.last-dash-splits-prefix")
        head = z3.If(li < 0, z3.StringVal(""), z3.SubString(prefix.z, 0, li + 1))
        last = z3.If(li < 0, prefix.z, z3.SubString(prefix.z, li + 1, z3.Length(prefix.z)))
        w = z3.Const("w!cok", StringS)
        dash = z3.If(cnt + 1 < num_words.z, z3.StringVal("-"), z3.StringVal(""))
        inlist = z3.If(cnt % 2 == 0, is_odd_lc(w), is_even_lc(w))
        return VBool(z3.And(z3.PrefixOf(prefix.z, c.z),
                            z3.Exists([w], z3.And(inlist, z3.PrefixOf(last, w), c.z == z3.Concat(head, w, dash)))))

    sf["completion_ok"] = completion_ok

    def input_calls(it, name):
        name = it.concrete(name)
        return VInt(sum(1 for e in it.ctx.trace if e[0] == "input" and e[1][0] == name))

    sf["input_calls"] = input_calls
    reg.input_as_boundary = True
    return reg


# ------------------------------------------------------------------ data obligations
def data_task(tier, seed):
    """the PGP tables, evaluated exhaustively from the module's real literals"""
    t0 = time.time()
    m = source.load_module("wormhole/_wordlist.py")
    want = {"raw_words", "byte_to_even_word", "byte_to_odd_word", "even_words_lowercase", "odd_words_lowercase"}
    body = []
    for node in m.tree.body:
        names = set()
        if isinstance(node, ast.Assign):
            for t in node.targets:
                names |= {n.id for n in ast.walk(t) if isinstance(n, ast.Name)}
        elif isinstance(node, ast.For):
            names = {n.id for n in ast.walk(node) if isinstance(n, ast.Name)}
        if names & want:
            body.append(node)
    ns = {"unhexlify": binascii.unhexlify}
    exec(compile(ast.Module(body, []), m.path, "exec"), ns)
    allb = {bytes([i]) for i in range(256)}
    obs = []

    def chk(name, cond, src):
        obs.append(ob(f"wormhole/_wordlist.py:tables.{name}", "discharged" if cond else "failed", "evaluation",
                      0.0, False, None, {"kind": "data", "src": src, "definite": True}, smt_hash=name,
                      replay={"driver": "c19_replay:tables"}))

    odd_t, even_t = ns.get("byte_to_odd_word", {}), ns.get("byte_to_even_word", {})
    chk("odd-keys-are-all-bytes", set(odd_t) == allb, "keys(byte_to_odd_word) == all 256 one-byte strings")
    chk("even-keys-are-all-bytes", set(even_t) == allb, "keys(byte_to_even_word) == all 256 one-byte strings")
    chk("odd-words-distinct", len({w.lower() for w in odd_t.values()}) == 256,
        "256 distinct lower-cased odd words (a uniform byte maps bijectively to a uniform word)")
    chk("even-words-distinct", len({w.lower() for w in even_t.values()}) == 256,
        "256 distinct lower-cased even words")
    chk("lists-disjoint", not ({w.lower() for w in odd_t.values()} & {w.lower() for w in even_t.values()}),
        "odd and even lists share no word")
    chk("completion-odd-set-is-allocation-list", ns.get("odd_words_lowercase") == {w.lower() for w in odd_t.values()},
        "odd_words_lowercase == {lower(w) for w in byte_to_odd_word.values()}")
    chk("completion-even-set-is-allocation-list", ns.get("even_words_lowercase") == {w.lower() for w in even_t.values()},
        "even_words_lowercase == {lower(w) for w in byte_to_even_word.values()}")
    chk("no-word-has-dash-or-space", all("-" not in w and " " not in w and w for w in list(odd_t.values()) + list(even_t.values())),
        "no word contains '-' or ' ' or is empty")
    return {"obligations": obs, "info": {"target": "wormhole/_wordlist.py:<module tables>", "sha": None,
                                         "lines": None, "paths": 1, "wall": round(time.time() - t0, 3),
                                         "replay": {"driver": "c19_replay:tables"}}}


def tasks():
    return [ContractTask(c, regf) for c in CONTRACTS] + [FuncTask("wordlist-tables", data_task, True, "data")]


TRUSTED = ["z3 4.x/5.x and cvc5 as SMT back ends", "pyvc symbolic semantics of the Python subset (DESIGN 2.2)",
           "Python re semantics as encoded in pyvc/regex.py (\\d = Unicode Nd for str patterns, $ also before a final newline)",
           "os.urandom(n): n fresh bytes, uniform and independent (axiom)",
           "str.lower, str.count, '-'.join: uninterpreted functions (only congruence is used)"]
ASSUMPTIONS = ["os.urandom is uniform and independent", "Automat inputs called from Input.choose_nameplate are boundaries here (C14 covers the tables)"]
