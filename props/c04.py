"""C04 - a completed transfer is byte-exact; success is never reported otherwise.

Three layers, each verified against the real source:
 (P) transit.Connection consumer accounting (connectConsumer/_writeToConsumer/disconnectConsumer/
     recordReceived/connectionLost/writeToFile, FileConsumer.*): plain methods, ghost event trace;
 (R) cmd_receive.Receiver._transfer_data/_parse_offer/_close_transit/_establish_transit/_handle_text, and the top
     level Receiver._go/_get_data/_handle_code/_build_transit/_parse_transit (normal return of _go == success reported);
 (S) cmd_send.Sender._send_file/_handle_answer (file object and ZipStream), and (O) what is offered:
     Sender._build_offer/_send_data/_handle_transit.
(R) and (S) are @inlineCallbacks generators; `yield` is given meaning by props/deferred.py.  The
deferred-result contract used for record_pipe.writeToFile at (R) is the statement proved at (P).
Filesystem functions of the Receiver (_handle_file, _write_file, ...) are used through their C05 contracts.
"""
import ast
import copy
import time

import z3

from pyvc.contract import Contract
from pyvc.runner import ContractTask, FuncTask, ob
from pyvc.values import *   # noqa
from pyvc import values, source
from pyvc.values import J, OJ
from pyvc.models import uf
from .common import make_registry, install_trace_funcs, register_classes
from . import c05, deferred

PROP = "C04"
RECV = "wormhole/cli/cmd_receive.py"
SEND = "wormhole/cli/cmd_send.py"
TRANSIT = "wormhole/transit.py"


# ------------------------------------------------------------------ shared models
def opaque_deferred(it):
    return VOpaque(z3.Const(it.ctx.namer("deferred"), opaque_sort("Deferred")), "Deferred")


def sha_digest(z):
    return uf("sha256_digest", StringS, StringS)(z)


def z_hexstr(z):
    """bytes_to_hexstr(b) = hexlify(b).decode('ascii')"""
    return uf("decode_ascii", StringS, StringS)(uf("hexlify", StringS, StringS)(z))


def z_json_bytes(jz):
    """dict_to_bytes(d) = json.dumps(d).encode('utf-8')"""
    return uf("encode_utf8", StringS, StringS)(uf("json_dumps", J, StringS)(jz))


def install_common(reg):
    em = reg.ext_models
    for e, b in (("error.ConnectionClosed", "Exception"), ("ConnectionClosed", "Exception"), ("TransitError", "Exception"),
                 ("RuntimeError", "Exception")):
        reg.exc_bases.setdefault(e, b)
    em["twisted.internet.defer.Deferred"] = lambda it, args, kw: opaque_deferred(it)
    em["twisted.internet.error.ConnectionClosed"] = lambda it, args, kw: VObj("error.ConnectionClosed", {"args": VTuple(list(args))})

    def fire(kind):
        def h(it, recv, meth, args, kwargs, fr):
            it.ctx.event("fire", recv, kind, args[0] if args else NONE)
            return NONE
        return h

    reg.boundary["Deferred.callback"] = fire("callback")
    reg.boundary["Deferred.errback"] = fire("errback")

    def file_write(it, recv, meth, args, kwargs, fr):
        data = it.force(args[0])
        it.ctx.event("bcall", "File", "write", [data], {})
        it.ctx.event("fwrite", recv, data)
        if isinstance(recv, VObj) and isinstance(recv.fields.get("_written"), VStr) and isinstance(data, VStr):
            recv.fields["_written"] = VStr(z3.Concat(recv.fields["_written"].z, data.z), "bytes")
        return NONE

    reg.boundary["File.write"] = file_write

    def call_callable(it, f, args, kwargs):
        it.ctx.event("cbcall", f, list(args))
        return NONE

    em["call_opaque:callable"] = call_callable

    def sha256_new(it, args, kw):
        return VObj("sha256", {"_data": VStr(b"")})

    em["hashlib.sha256"] = sha256_new

    def sha_update(it, recv, meth, args, kwargs, fr):
        data = it.force(args[0])
        recv.fields["_data"] = VStr(z3.Concat(recv.fields["_data"].z, data.z), "bytes")
        return NONE

    def sha_digest_m(it, recv, meth, args, kwargs, fr):
        r = sha_digest(recv.fields["_data"].z)
        it.ctx.assume(z3.Length(r) == 32)
        return VStr(r, "bytes")

    reg.boundary["sha256.update"] = sha_update
    reg.boundary["sha256.digest"] = sha_digest_m

    em["tqdm.tqdm"] = lambda it, args, kw: VObj("tqdm", {})
    em["with:progress"] = lambda it, item, fr: None

    sf = reg.spec_funcs
    sf["imp"] = lambda it, a, b: VBool(z3.Implies(it.truth(a), it.truth(b)))

    def reached(it, n, expected):
        """expected is not None and n >= expected (pure)"""
        if expected is NONE:
            return VBool(False)
        if isinstance(expected, VOpt):
            return VBool(z3.And(z3.Not(expected.isnone), n.z >= expected.inner.z))
        return VBool(n.z >= expected.z)

    sf["reached"] = reached
    sf["sha256_digest"] = lambda it, b: VStr(sha_digest(b.z), "bytes")
    sf["hexstr"] = lambda it, b: VStr(z_hexstr(b.z), "str")
    sf["json_bytes"] = lambda it, d: VStr(z_json_bytes(to_json(d)), "bytes")
    sf["jhas"] = lambda it, d, k: VBool(z3.And(J.is_jdict(d.z), OJ.is_present(z3.Select(J.d(d.z), sview(k).z))))
    sf["jget"] = lambda it, d, k: VJson(OJ.v(z3.Select(J.d(d.z), sview(k).z)))

    def evs(it, kind, scope="all"):
        tr = it.ctx.trace
        if scope == "iter":
            marks = [i for i, e in enumerate(tr) if e[0] == "loop-body-start"]
            start = marks[-1] if marks else len(tr)
            tr = tr[start:]
        return [e[1] for e in tr if e[0] == kind]

    for scope, pre in (("all", ""), ("iter", "iter_")):
        sf[pre + "n_fires"] = (lambda sc: lambda it: VInt(len(evs(it, "fire", sc))))(scope)
        sf[pre + "n_writes"] = (lambda sc: lambda it: VInt(len(evs(it, "fwrite", sc))))(scope)

        def nth(kind, idx, sc):
            def f(it, k):
                es = evs(it, kind, sc)
                k = it.concrete(k)
                if not isinstance(k, int) or not -len(es) <= k < len(es):
                    return NONE
                return es[k][idx]
            return f

        sf[pre + "fire_target"] = nth("fire", 0, scope)
        sf[pre + "fire_value"] = nth("fire", 2, scope)
        sf[pre + "write_arg"] = nth("fwrite", 1, scope)
        sf[pre + "write_file"] = nth("fwrite", 0, scope)

        def fire_kind(sc):
            def f(it, k):
                es = evs(it, "fire", sc)
                k = it.concrete(k)
                if not isinstance(k, int) or not -len(es) <= k < len(es):
                    return NONE
                return VStr(es[k][1])
            return f

        sf[pre + "fire_kind"] = fire_kind(scope)

    def fire_value_class(it, k):
        es = evs(it, "fire")
        k = it.concrete(k)
        if not isinstance(k, int) or not -len(es) <= k < len(es):
            return NONE
        v = es[k][2]
        return VStr(v.cls if isinstance(v, VObj) else type(v).__name__)

    sf["fire_value_class"] = fire_value_class
    sf["all_fires_are"] = lambda it, kind: VBool(all(e[1] == it.concrete(kind) for e in evs(it, "fire")))
    sf["cb_n"] = lambda it: VInt(len(evs(it, "cbcall")))

    def cb_part(idx):
        def f(it, k):
            es = evs(it, "cbcall")
            k = it.concrete(k)
            if not isinstance(k, int) or not -len(es) <= k < len(es):
                return NONE
            return es[k][0] if idx == 0 else es[k][1][0]
        return f

    sf["cb_callee"] = cb_part(0)
    sf["cb_arg"] = cb_part(1)

    def meth_seq(it, kind):
        """the Receiver./Sender. methods used by contract in this body, in order (utility functions left out)"""
        return VList([VStr(e[1][0].split(".")[-1]) for e in it.ctx.trace
                      if e[0] == kind and (":Receiver." in e[1][0] or ":Sender." in e[1][0])])

    def call_seq(it):
        return meth_seq(it, "call")

    sf["call_seq"] = call_seq

    def ret_seq(it):
        return meth_seq(it, "callret")

    sf["ret_seq"] = ret_seq


def sview(v):
    return c05.sview(v)


# ------------------------------------------------------------------ (P) transit.Connection
CONN = {"_consumer": "opt[obj[FileConsumer]]", "_consumer_bytes_written": "int", "_consumer_bytes_expected": "opt[int]",
        "_consumer_deferred": "opt[opaque[Deferred]]"}
CONN_Q = dict(CONN, _inbound_records="seq[bytes]")
CONN_ALL = dict(CONN_Q, _waiting_reads="seq[opaque[Deferred]]", _negotiation_d="opt[opaque[Deferred]]", _error="opt[obj[SomeError]]")
CONN_MOD = list(CONN)
# what Connection keeps true between calls (each function below requires and re-establishes it)
ATTACHED_OK = ["self._consumer is None or self._consumer._producer is not None",
               "(self._consumer_bytes_expected is None) == (self._consumer_deferred is None)",
               "self._consumer is not None or self._consumer_deferred is None"]
FIRE_NOW = "reached(old(self._consumer_bytes_written) + len(record), old(self._consumer_bytes_expected))"

P_CONTRACTS = [
    Contract(f"{TRANSIT}:FileConsumer.write", props=[PROP], params={"bytes": "bytes"},
             self_fields={"_f": "obj[File]", "_progress": "opt[callable]", "_hasher": "opt[callable]", "_producer": "opt[obj[Producer]]"},
             internal_ensures=[
                 ("writes-exactly-these-bytes-once", "n_writes() == 1 and write_arg(0) == bytes and write_file(0) is self._f"),
                 ("hashes-the-same-bytes", "implies(self._hasher is not None, cb_callee(-1) == self._hasher and cb_arg(-1) == bytes)"),
                 ("counts-the-same-bytes", "implies(self._progress is not None, cb_callee(0) == self._progress and cb_arg(0) == len(bytes))"),
                 ("nothing-else", "cb_n() == ite(self._progress is not None, 1, 0) + ite(self._hasher is not None, 1, 0)")],
             note="FileConsumer.write: writes, counts and hashes the same bytes"),
    Contract(f"{TRANSIT}:Connection._writeToConsumer", props=[PROP], params={"record": "bytes"}, self_fields=CONN,
             requires=["self._consumer is not None"] + ATTACHED_OK, modifies=CONN_MOD,
             ensures=[("counts-exactly-the-bytes-of-the-record",
                       "self._consumer_bytes_written == old(self._consumer_bytes_written) + len(record)")] +
                     [(f"keeps-{i}", x) for i, x in enumerate(ATTACHED_OK)] + [
                 ("detached-exactly-when-the-count-is-reached",
                  f"(self._consumer is None) == {FIRE_NOW}"),
                 ("expectation-kept-while-attached",
                  "imp(self._consumer is not None, self._consumer_bytes_expected == old(self._consumer_bytes_expected) and "
                  "self._consumer_deferred == old(self._consumer_deferred))")],
             internal_ensures=[
                 ("writes-exactly-this-record-once", "n_writes() == 1 and write_arg(0) == record"),
                 ("fires-iff-the-count-reaches-the-expectation", f"n_fires() == ite({FIRE_NOW}, 1, 0)"),
                 ("fires-the-consumer-deferred-with-the-count",
                  "implies(n_fires() == 1, fire_kind(0) == 'callback' and fire_target(0) == old(self._consumer_deferred) and "
                  "fire_value(0) == self._consumer_bytes_written and reached(fire_value(0), old(self._consumer_bytes_expected)))")],
             note="the Deferred fires with n only when n >= expected, n the running sum of len(record)"),
    Contract(f"{TRANSIT}:Connection.disconnectConsumer", props=[PROP], params={}, self_fields=CONN,
             requires=["self._consumer is not None", "self._consumer._producer is not None"], modifies=CONN_MOD,
             ensures=[("detached", "self._consumer is None and self._consumer_bytes_expected is None and self._consumer_deferred is None"),
                      ("count-kept", "self._consumer_bytes_written == old(self._consumer_bytes_written)")],
             internal_ensures=[("silent", "n_writes() == 0 and n_fires() == 0")]),
    Contract(f"{TRANSIT}:Connection.connectConsumer", props=[PROP], params={"consumer": "obj[FileConsumer]", "expected": "opt[int]"},
             self_fields=CONN_Q, modifies=CONN_MOD + ["_inbound_records"], returns="opt[opaque[Deferred]]",
             requires=ATTACHED_OK + ["consumer._producer is None"],
             raises_exactly={"RuntimeError": "self._consumer is not None"},
             ensures=[("a-deferred-iff-an-expectation", "(result is None) == (expected is None)"),
                      ("pending-records-are-drained-before-the-consumer-takes-over",
                       "self._consumer is None or len(self._inbound_records) == 0")] +
                     [(f"keeps-{i}", x) for i, x in enumerate(ATTACHED_OK)] + [
                 ("while-attached-the-deferred-is-the-returned-one",
                  "imp(self._consumer is not None, self._consumer_deferred == result and self._consumer_bytes_expected == expected)")],
             internal_ensures=[
                 ("zero-expected-fires-at-once-with-zero",
                  "implies(expected is not None and expected == 0, n_fires() == 1 and fire_kind(0) == 'callback' and "
                  "fire_target(0) == result and fire_value(0) == 0 and self._consumer is None)")],
             loops={0: {"header": "self._consumer and self._inbound_records",
                        "modifies": [("local", "consumer", "_producer")],
                        "invariant": ATTACHED_OK + [
                            "self._consumer is None or (self._consumer_deferred == d and self._consumer_bytes_expected == expected)",
                            "(d is None) == (expected is None)"],
                        "body_ensures": [
                            "iter_n_writes() == 1 and iter_write_arg(0) == at_iter(self._inbound_records)[0]",
                            "self._inbound_records == at_iter(self._inbound_records)[1:]",
                            "self._consumer_bytes_written == at_iter(self._consumer_bytes_written) + len(at_iter(self._inbound_records)[0])",
                            "iter_n_fires() == ite(reached(self._consumer_bytes_written, expected), 1, 0)",
                            "implies(iter_n_fires() == 1, iter_fire_kind(0) == 'callback' and iter_fire_target(0) == d and "
                            "iter_fire_value(0) == self._consumer_bytes_written and self._consumer is None)"]}},
             note="each drained record: written in queue order, counted, and the Deferred fired (with the count) exactly when "
                  "the count reaches `expected`; nothing is written once it fired"),
    Contract(f"{TRANSIT}:Connection._deliverRecords", props=[PROP], params={},
             self_fields={"_inbound_records": "seq[bytes]", "_waiting_reads": "seq[opaque[Deferred]]"},
             modifies=["_inbound_records", "_waiting_reads"],
             ensures=[("one-side-empty", "len(self._inbound_records) == 0 or len(self._waiting_reads) == 0")],
             internal_ensures=[("no-consumer-write", "n_writes() == 0")],
             loops={0: {"header": "self._inbound_records and self._waiting_reads", "invariant": ["n_writes() == 0"],
                        "body_ensures": ["iter_n_writes() == 0"]}}),
    Contract(f"{TRANSIT}:Connection.recordReceived", props=[PROP], params={"record": "bytes"}, self_fields=CONN_ALL,
             requires=ATTACHED_OK, modifies=CONN_MOD + ["_inbound_records", "_waiting_reads"],
             ensures=[(f"keeps-{i}", x) for i, x in enumerate(ATTACHED_OK)] + [
                 ("with-a-consumer-the-record-is-not-queued",
                  "imp(old(self._consumer) is not None, self._inbound_records == old(self._inbound_records))")],
             internal_ensures=[
                 ("with-a-consumer-the-record-goes-to-it-exactly-once",
                  "implies(old(self._consumer) is not None, n_writes() == 1 and write_arg(0) == record)"),
                 ("without-a-consumer-nothing-is-written", "implies(old(self._consumer) is None, n_writes() == 0 and n_fires() == 0)")]),
    Contract(f"{TRANSIT}:Connection.connectionLost", props=[PROP], params={"reason": "opaque[Reason]"}, self_fields=CONN_ALL,
             modifies=["_waiting_reads", "_negotiation_d"],
             internal_ensures=[
                 ("an-outstanding-consumer-deferred-gets-the-errback",
                  "implies(self._consumer_deferred is not None, n_fires() >= 1 and fire_kind(-1) == 'errback' and "
                  "fire_target(-1) == self._consumer_deferred and fire_value_class(-1) == 'error.ConnectionClosed')"),
                 ("nobody-is-told-success", "all_fires_are('errback')")],
             loops={0: {"header": "self._waiting_reads", "invariant": ["all_fires_are('errback')"],
                        "body_ensures": ["iter_n_fires() == 1 and iter_fire_kind(0) == 'errback'"]}},
             note="connection lost while the writeToFile Deferred is outstanding => errback(ConnectionClosed), never a callback"),
    Contract(f"{TRANSIT}:Connection.writeToFile", props=[PROP],
             params={"f": "obj[File]", "expected": "opt[int]", "progress": "opt[callable]", "hasher": "opt[callable]"},
             self_fields=CONN_Q, modifies=CONN_MOD + ["_inbound_records"], returns="opt[opaque[Deferred]]",
             requires=ATTACHED_OK, raises_exactly={"RuntimeError": "self._consumer is not None"},
             ensures=[("a-deferred-iff-an-expectation", "(result is None) == (expected is None)"),
                      ("pending-records-are-drained-before-the-consumer-takes-over",
                       "self._consumer is None or len(self._inbound_records) == 0"),
                      ("the-consumer-writes-to-f-and-feeds-the-given-hasher",
                       "implies(self._consumer is not None, self._consumer._f is f and self._consumer._hasher == hasher "
                       "and self._consumer._progress == progress)")],
             note="FileConsumer(f, progress, hasher) + connectConsumer (inlined, with its loop invariant)"),
]
P_INLINE = {f"{TRANSIT}:FileConsumer.write", f"{TRANSIT}:Connection.disconnectConsumer"}


def regf_p(inline_extra=()):
    reg = make_registry()
    install_trace_funcs(reg)
    register_classes(reg, ["wormhole/errors.py", TRANSIT])
    install_common(reg)
    reg.class_fields["FileConsumer"] = {"_f": "obj[File]", "_progress": "opt[callable]", "_hasher": "opt[callable]",
                                        "_producer": "opt[obj[Producer]]"}
    reg.class_fields["File"] = {"name": "str"}
    for c in P_CONTRACTS:
        c2 = copy.copy(c)
        c2.inline = c.target in P_INLINE or c.target in inline_extra
        reg.contracts[c.target] = c2
    return reg


def regf_p_w2c():
    """inside connectConsumer/recordReceived, _writeToConsumer is inlined: its events are what their clauses talk about"""
    return regf_p(inline_extra=(f"{TRANSIT}:Connection._writeToConsumer",))


def regf_p_all():
    return regf_p(inline_extra=(f"{TRANSIT}:Connection._writeToConsumer", f"{TRANSIT}:Connection.connectConsumer"))


# ------------------------------------------------------------------ deferred-result contracts (R, S)
def _append(o, field, w):
    if isinstance(o, VObj) and isinstance(o.fields.get(field), VStr):
        o.fields[field] = VStr(z3.Concat(o.fields[field].z, w), "bytes")


def res_connect(it, d, fr):
    """TransitSender/TransitReceiver.connect(): a fresh record pipe (nothing written to it yet) or a failure"""
    if it.ctx.choose([z3.BoolVal(True), z3.BoolVal(True)], "transit.connect") == 1:
        it.raise_("TransitError", VStr("connect failed"))
    rp = it.fresh("obj[RecordPipe]", "record_pipe")
    it.ctx.assume(z3.Length(rp.fields["_written"].z) == 0)
    return rp


def res_writeToFile(it, d, fr):
    """record_pipe.writeToFile(f, expected, progress, hasher) - the statement proved for
    Connection.writeToFile/connectConsumer/_writeToConsumer/connectionLost and FileConsumer.write:
    some bytes w (the records, in order) are written to f and fed to hasher, the same bytes to both;
    the Deferred fires with n == len(w) and only if n >= expected; connection loss => errback(ConnectionClosed).
    expected None => no Deferred at all (None comes back); a non-numeric expected can never be reached."""
    args = list(d.info["args"]) + [NONE] * 4
    f, expected, progress, hasher = args[:4]
    expected = it.force(expected)
    if isinstance(expected, VJson):
        expected = it.json_narrow(expected)
    if expected is NONE:
        return NONE
    w = z3.String(it.ctx.namer("received_bytes"))
    _append(it.force(f), "_written", w)
    hasher = it.force(hasher)
    if isinstance(hasher, VBoundExt) and isinstance(hasher.recv, VObj) and hasher.recv.cls == "sha256" and hasher.meth == "update":
        _append(hasher.recv, "_data", w)
    elif hasher is not NONE:
        raise OutOfSubset("writeToFile with a hasher that is not hashlib's update")
    numeric = isinstance(expected, (VInt, VReal, VBool))
    outcome = it.ctx.choose([z3.BoolVal(numeric), z3.BoolVal(True)], "writeToFile")
    if outcome == 1:
        it.raise_("error.ConnectionClosed")
    n = VInt(z3.Length(w))
    it.ctx.assume(it.compare(ast.GtE(), n, expected))
    return n


def res_receive_record(it, d, fr):
    if it.ctx.choose([z3.BoolVal(True), z3.BoolVal(True)], "receive_record") == 1:
        it.raise_("error.ConnectionClosed")
    return it.fresh("bytes", "record")


def res_beginFileTransfer(it, d, fr):
    """twisted.protocols.basic.FileSender (assumed): repeatedly chunk = file.read(CHUNK_SIZE); if transform:
    chunk = transform(chunk); consumer.write(chunk); fires when the file is exhausted.  Handled like a loop
    with the sidecar invariant reg.yield_loops[function]: proved at entry, and re-proved after one arbitrary
    step that runs the *real* transform closure."""
    from pyvc.ctx import PathEnd
    spec = it.reg.yield_loops.get(fr.fdef.key if fr.fdef else None)
    if spec is None:
        raise OutOfSubset("FileSender.beginFileTransfer without a yield-loop invariant")
    key = fr.fdef.key
    fd, consumer = it.force(d.info["args"][0]), it.force(d.info["args"][1])
    transform = d.info["kwargs"].get("transform", NONE)
    for i, inv in enumerate(spec["invariant"]):
        it.ctx.prove(it.truth(it.eval_spec(inv, fr)), f"{key}#FileSender.inv{i}.entry", {"kind": "loop-entry", "src": inv})
    for ex, field in spec["state"]:
        o = it.force(it.eval_spec(ex, fr))
        o.fields[field] = it.fresh_like(o.fields[field], field)
    for inv in spec["invariant"]:
        it.ctx.assume(it.truth(it.eval_spec(inv, fr)))
    k = it.ctx.choose([z3.BoolVal(True)] * 3, "FileSender")
    if k == 0:
        chunk = it.fresh("bytes", "chunk")
        it.ctx.assume(z3.Length(chunk.z) > 0)
        _append(fd, "_read", chunk.z)
        out = it.call(transform, [chunk], {}, fr) if transform is not NONE else chunk
        it.call_method(consumer, "write", [out], {}, fr)
        for i, inv in enumerate(spec["invariant"]):
            it.ctx.prove(it.truth(it.eval_spec(inv, fr)), f"{key}#FileSender.inv{i}.preserved", {"kind": "loop-preserve", "src": inv})
        raise PathEnd("loop cut")
    if k == 1:
        it.raise_("error.ConnectionClosed")
    it.ctx.assume(fd.fields["_read"].z == fd.fields["_content"].z)      # fired: the file is exhausted
    return it.fresh("bytes", "last_chunk")


DEFERRED_RESULTS = {"Transit.connect": res_connect, "RecordPipe.writeToFile": res_writeToFile,
                    "RecordPipe.receive_record": res_receive_record, "FileSender.beginFileTransfer": res_beginFileTransfer}
STABLE = {"Receiver": {"args", "_fs", "abs_destname", "xfersize", "_transit_receiver", "_reactor", "_tor"},
          "Sender": {"_args", "_timing", "_transit_sender", "_fd_to_send", "_reactor", "_tor"}}


def pipe_write(it, recv, meth, args, kwargs, fr):
    data = it.force(args[0])
    it.ctx.event("bcall", "RecordPipe", "write", [data], {})
    _append(recv, "_written", data.z)
    return NONE


def install_rs(reg):
    install_common(reg)
    deferred.install(reg, DEFERRED_RESULTS, STABLE)
    reg.boundary["Transit.connect"] = deferred.producing("Transit.connect")
    reg.boundary["RecordPipe.writeToFile"] = deferred.producing("RecordPipe.writeToFile")
    reg.boundary["RecordPipe.receive_record"] = deferred.producing("RecordPipe.receive_record")
    reg.boundary["FileSender.beginFileTransfer"] = deferred.producing("FileSender.beginFileTransfer")
    reg.boundary["RecordPipe.write"] = pipe_write
    reg.boundary_returns["RecordPipe.describe"] = "str"
    reg.boundary_returns["File.tell"] = "int"
    reg.ext_models["twisted.protocols.basic.FileSender"] = lambda it, args, kw: VObj("FileSender", {})
    reg.class_fields["RecordPipe"] = {"_written": "bytes"}
    reg.yield_loops = {f"{SEND}:Sender._send_file": {
        "state": [("hasher", "_data"), ("record_pipe", "_written"), ("self._fd_to_send", "_read")],
        "invariant": ["hasher._data == record_pipe._written", "record_pipe._written == self._fd_to_send._read"]}}
    for c in UTIL_ASSUMED:
        reg.contracts[c.target] = c


UTIL_ASSUMED = [
    Contract("wormhole/util.py:bytes_to_hexstr", params={"b": "bytes"}, returns="str", ensures=[("definition", "result == hexstr(b)")]),
    Contract("wormhole/util.py:dict_to_bytes", params={"d": "json"}, returns="bytes", ensures=[("definition", "result == json_bytes(d)")]),
    Contract("wormhole/util.py:bytes_to_dict", params={"b": "bytes"}, returns="json",
             raises={"ValueError": None, "UnicodeDecodeError": None, "AssertionError": None},
             ensures=[("a-dict", "isinstance(result, dict)")]),
]

# ------------------------------------------------------------------ (R) cmd_receive.Receiver
R_SELF = {"args": "obj[Args]", "_fs": "obj[GhostFS]", "_transit_receiver": "obj[Transit]", "abs_destname": "str", "xfersize": "json"}
NET_EXC = ["error.ConnectionClosed", "TransitError"]
TD_EXC = ["TransferError", "AssertionError", "TypeError"] + NET_EXC
PO_EXC = sorted(set(c05.HD_EXC + TD_EXC + ["BadZipFile", "RespondError"]))


def transfer_before_final(it):
    """over the ghost call trace (contracts applied in this body): every call of _write_file/_write_directory
    comes after a *return* of _transfer_data that was given the same file object, and that object is what
    _handle_file/_handle_directory returned"""
    tr = [e for e in it.ctx.trace if e[0] in ("call", "callret")]
    short = lambda t: t.split(".")[-1]          # noqa: E731
    produced, transferred, pending = [], [], None
    ok = True
    for kind, a, _ in tr:
        name = short(a[0])
        if kind == "call":
            pending = (name, a[1])
            if name in ("_write_file", "_write_directory"):
                f = a[1][-1]
                ok = ok and any(f is x for x in transferred) and any(f is x for x in produced)
        else:
            if name in ("_handle_file", "_handle_directory"):
                produced.append(a[1])
            if name == "_transfer_data" and pending and pending[0] == "_transfer_data":
                transferred.append(pending[1][-1])
    return VBool(ok)


R_CONTRACTS = [
    Contract(f"{RECV}:Receiver._establish_transit", props=[PROP], params={}, self_fields=R_SELF, returns="obj[RecordPipe]",
             raises={"TransitError": None}, ensures=[("fresh-pipe", "result._written == b''")]),
    Contract(f"{RECV}:Receiver._transfer_data", props=[PROP], params={"record_pipe": "obj[RecordPipe]", "f": "obj[File]"},
             self_fields=R_SELF, requires=["f._written == b''"], returns="bytes", raises={e: None for e in TD_EXC},
             ensures=[("R1-every-announced-byte-was-written", "len(f._written) == self.xfersize"),
                      ("R1-the-hash-is-over-exactly-the-bytes-written-to-f", "result == sha256_digest(f._written)")],
             internal_ensures=[("one-writeToFile-into-f-expecting-xfersize",
                                "bcalls('writeToFile') == 1 and bcall_arg('writeToFile', 0, 0) is f and "
                                "bcall_arg('writeToFile', 0, 1) == self.xfersize")],
             note="returns normally => received == xfersize and the returned sha256 covers exactly what went into f"),
    Contract(f"{RECV}:Receiver._close_transit", props=[PROP], params={"record_pipe": "obj[RecordPipe]", "datahash": "bytes"},
             self_fields=R_SELF,
             internal_ensures=[("R3-acks-ok-with-the-hex-of-that-hash-then-closes",
                                "bcall_names() == ['send_record', 'close'] and "
                                "bcall_arg('send_record', 0, 0) == json_bytes({'ack': 'ok', 'sha256': hexstr(datahash)})")]),
    Contract(f"{RECV}:Receiver._handle_text", props=[PROP], params={"them_d": "json", "w": "obj[Wormhole]"}, self_fields=R_SELF,
             raises={"KeyError": None, "TypeError": None, "IndexError": None},
             internal_ensures=[("acks-the-message", "bcall_names() == ['print', 'send_message'] and bcall_arg('send_message', 0, 0) == "
                                                    "json_bytes({'answer': {'message_ack': 'ok'}})"),
                               ("the-text-is-printed-exactly-once-through-the-terminal-safe-escaping-to-stdout",
                                "bcalls('print') == 1 and print_nargs(0) == 1 and "
                                "bcall_arg('print', 0, 0) == py_repr(jget(them_d, 'message'))[1:-1] and "
                                "print_file(0) is self.args.stdout")],
             ensures_raise={e: [("nothing-printed-nothing-acked", "bcall_names() == []")]
                            for e in ("KeyError", "TypeError", "IndexError")},
             note="verified with print() as a recorded boundary call (regf_r_text) and repr() as an uninterpreted function of "
                  "the value: what reaches the terminal is repr(message)[1:-1], once, on args.stdout, then the ack"),
    Contract(f"{RECV}:Receiver._parse_offer", props=[PROP], params={"them_d": "json", "w": "obj[Wormhole]"}, self_fields=R_SELF,
             requires=c05.CWD_OK, pre_hook=c05.bind_fs, raises={e: None for e in PO_EXC},
             modifies=["abs_destname", "xfersize"] + c05.FS_FIELDS,
             internal_ensures=[
                 ("R2-rename-or-unzip-only-after-the-transfer-of-that-very-file-succeeded", "transfer_before_final()"),
                 ("R2-one-of-the-three-complete-sequences",
                  "call_seq() == ['_handle_text'] or "
                  "call_seq() == ['_handle_file', '_establish_transit', '_transfer_data', '_write_file', '_close_transit'] or "
                  "call_seq() == ['_handle_directory', '_establish_transit', '_transfer_data', '_write_directory', '_close_transit']"),
                 ("R2-everything-called-returned", "call_seq() == ret_seq()"),
                 ("R2-the-only-file-opened-is-destination-dot-tmp",
                  "n_fs('open') == 0 and implies(call_seq()[0] == '_handle_file', "
                  "call_result('_handle_file').name == self.abs_destname + '.tmp')"),
                 ("R3-the-ack-carries-the-hash-that-transfer-data-returned",
                  "implies(call_seq()[0] != '_handle_text', call_arg('_close_transit', 'datahash') == call_result('_transfer_data'))")],
             ensures_raise={e: [("R2-no-final-file-unless-the-transfer-succeeded", "transfer_before_final()"),
                                ("no-ack-unless-written", "implies('_close_transit' in call_seq(), '_write_file' in ret_seq() or "
                                                          "'_write_directory' in ret_seq())")] for e in PO_EXC},
             note="_handle_file/_handle_directory/_write_file/_write_directory by their C05 contracts, _transfer_data/"
                  "_close_transit/_establish_transit by the contracts above"),
]

def fd_kind_hook(it, fr):
    """_fd_to_send is what _build_offer returned: a file object, or (second case) the ZipStream of a directory offer"""
    so = fr.locals["self"]
    if it.ctx.choose([z3.BoolVal(True), z3.BoolVal(True)], "fd-kind") == 1:
        zs = it.fresh("obj[ZipStream]", "zs")
        cur = so.fields["_fd_to_send"]
        so.fields["_fd_to_send"] = VOpt(cur.isnone, zs) if isinstance(cur, VOpt) else zs


# ------------------------------------------------------------------ (S) cmd_send.Sender
S_SELF = {"_transit_sender": "obj[Transit]", "_fd_to_send": "obj[File]", "_args": "obj[SArgs]", "_timing": "obj[Timing]"}
SF_EXC = ["TransferError", "ValueError", "UnicodeDecodeError", "AssertionError"] + NET_EXC

# ---- what the sender offers (Sender._build_offer) and the small plumbing functions
WHAT = "realpath(pjoin(self._args.cwd, self._args.what))"
BASE = "basename(normpath(pjoin(self._args.cwd, self._args.what)))"
SO_SELF = {"_args": "obj[SArgs]", "_fs": "obj[GhostFS]"}
BO_EXC = ["TransferError", "UnsendableFileError", "TypeError", "AssertionError", "OSError", "EOFError"]

O_CONTRACTS = [
    Contract(f"{SEND}:Sender._send_data", props=[PROP], params={"data": "json", "w": "obj[Wormhole]"}, self_fields=SO_SELF,
             internal_ensures=[("sends-exactly-this-dict-once", "bcall_names() == ['send_message'] and "
                                                                "bcall_arg('send_message', 0, 0) == json_bytes(data)")]),
    Contract(f"{SEND}:Sender._handle_transit", props=[PROP], params={"receiver_transit": "json"},
             self_fields={"_transit_sender": "obj[Transit]"}, raises={"AttributeError": None},
             internal_ensures=[("hands-the-peers-hints-to-the-transit-object-and-nothing-else",
                                "bcall_names() == ['add_connection_hints'] and "
                                "implies(jhas(receiver_transit, 'hints-v1'), "
                                "to_j(bcall_arg('add_connection_hints', 0, 0)) == jget(receiver_transit, 'hints-v1'))")],
             ensures_raise={"AttributeError": [("nothing-done", "bcall_names() == []")]}),
    Contract(f"{SEND}:Sender._build_offer", props=[PROP], params={}, self_fields=SO_SELF, pre_hook=c05.bind_fs,
             raises={e: None for e in BO_EXC}, modifies=[],
             ensures=[("nothing-consumed-yet-from-what-will-be-streamed", "result[1] is None or result[1]._read == b''")],
             internal_ensures=[(n_, x_.replace("OFFER", "result[0]").replace("FD", "result[1]")) for n_, x_ in [
                 ("exactly-one-kind-of-offer",
                  "ite(jhas(OFFER, 'message'), 1, 0) + ite(jhas(OFFER, 'file'), 1, 0) + ite(jhas(OFFER, 'directory'), 1, 0) == 1"
                  " and offer_keys(OFFER) == 1"),
                 ("nothing-to-stream-exactly-for-a-text-offer", "(FD is None) == jhas(OFFER, 'message')"),
                 # text: reproduced exactly - the message offered is the text the user gave
                 ("text-offer-carries-the-users-text-unchanged",
                  "implies(jhas(OFFER, 'message'), jget(OFFER, 'message') == to_j(users_text(self._args.text)))"),
                 ("stdin-is-read-exactly-for-dash-and-the-prompt-only-without-text-and-file",
                  "n_stdin() == ite(self._args.text is not None and self._args.text == '-', 1, 0) and n_typed() <= 1 and "
                  "implies(n_typed() == 1, not self._args.what)"),
                 ("text-is-never-dropped-in-favour-of-a-file",
                  "implies(not jhas(OFFER, 'message'), self._args.text is None)"),
                 # file: the size offered is the size of the very file that will be streamed, nothing read yet
                 ("file-offer-names-the-basename-the-user-typed",
                  "implies(jhas(OFFER, 'file'), jfield(OFFER, 'file', 'filename') == " + BASE + " and " + BASE + " != '')"),
                 ("file-offer-size-is-the-size-of-the-file-that-is-opened",
                  "implies(jhas(OFFER, 'file'), jfield(OFFER, 'file', 'filesize') == len(FD._content) and FD._read == b''"
                  " and file_keys(OFFER, 'file') == 2)"),
                 ("the-file-opened-for-reading-is-the-one-the-user-named-with-symlinks-resolved",
                  "implies(jhas(OFFER, 'file'), FD.name == " + WHAT + " and FD.mode == 'rb' and FD._content == content_of(" + WHAT + ")"
                  " and bcalls('open') == 1)"),
                 ("only-the-named-path-is-opened-and-never-for-writing", "n_fs() == 0 and bcalls('open') <= 1"),
                 # directory: the zip stream built here is what will be streamed, and its announced size is its length
                 ("directory-offer-announces-the-length-of-the-zip-stream",
                  "implies(jhas(OFFER, 'directory'), jfield(OFFER, 'directory', 'zipsize') == len(FD._stream) and "
                  "jfield(OFFER, 'directory', 'dirname') == " + BASE + " and jfield(OFFER, 'directory', 'mode') == 'zipfile/deflated'"
                  " and is_zipstream(FD) and FD._read == b'')"),
                 ("the-tree-walked-is-the-directory-the-user-named",
                  "implies(jhas(OFFER, 'directory'), bcalls('walk') == 1 and bcall_arg('walk', 0, 0) == " + WHAT + ")"),
             ]],
             loops={0: {"header": "for filepath in walk(what, preserve_empty=True, followlinks=True)",
                        "modifies": [("local", "zs", "_stream"), ("local", "zs", "_entries")],
                        "invariant": ["n_fs() == 0"],
                        "body_ensures": [
                            "iter_bcalls('add_path') <= 1 and iter_bcalls('open') == 0",
                            # every walked path goes into the archive under its name relative to the directory sent ...
                            "implies(iter_bcalls('add_path') == 1, iter_add_arg(0) == at_iter(_iter[_i]))",
                            "implies(iter_bcalls('add_path') == 1, iter_add_kw('arcname') == relpath(at_iter(_iter[_i]), " + WHAT + "))",
                            "implies(iter_bcalls('add_path') == 1, iter_add_kw('recurse') == False)",
                            # ... and is only left out when it is unreadable and the user allowed that
                            "implies(iter_bcalls('add_path') == 0, self._args.ignore_unsendable_files)"]}},
             ensures_raise={e: [("nothing-written", "n_fs() == 0")] for e in BO_EXC},
             note="text / file / directory branches and the block-device branch (a file offer whose size is the seek-to-end "
                  "position).  File contents are a ghost function of the path (content_of); os.stat(p).st_size is its length"),
]

S_CONTRACTS = [
    Contract(f"{SEND}:Sender._send_file", props=[PROP], params={}, self_fields=S_SELF, pre_hook=fd_kind_hook,
             requires=["self._fd_to_send._read == b''"], raises={e: None for e in SF_EXC}, modifies=["_fd_to_send"],
             internal_ensures=[
                 ("a-directory-is-streamed-as-exactly-the-zip-stream-whose-length-was-offered",
                  "implies(is_zipstream(old(self._fd_to_send)), self._fd_to_send._content == old(self._fd_to_send._stream) and "
                  "filesize == len(old(self._fd_to_send._stream)) and bcalls('open_iterable') == 1 and "
                  "bcall_arg('open_iterable', 0, 0) is old(self._fd_to_send))"),
                 ("a-plain-file-is-streamed-as-it-is", "implies(not is_zipstream(old(self._fd_to_send)), "
                                                      "self._fd_to_send is old(self._fd_to_send) and bcalls('open_iterable') == 0)"),
                 ("S1-success-only-on-an-explicit-ok", "jhas(ack, 'ack') and jget(ack, 'ack') == 'ok'"),
                 ("S1-a-hash-in-the-ack-must-be-the-hash-of-what-was-handed-to-the-pipe",
                  "imp(jhas(ack, 'sha256'), jget(ack, 'sha256') == hexstr(sha256_digest(record_pipe._written)))"),
                 ("S2-hash-covers-exactly-what-was-written", "hasher._data == record_pipe._written"),
                 ("what-was-written-is-what-was-read-from-the-file", "record_pipe._written == self._fd_to_send._read"),
                 ("the-whole-file-or-nothing-for-an-empty-one",
                  "record_pipe._written == self._fd_to_send._content or (filesize == 0 and record_pipe._written == b'')"),
                 ("the-ack-is-awaited-exactly-once", "bcalls('receive_record') == 1")],
             ensures_raise={"error.ConnectionClosed": [("not-success", "True")]},
             note="a lost ack (receive_record errback) or connection loss leaves through ConnectionClosed; a bad ack through TransferError"),
    Contract(f"{SEND}:Sender._handle_answer", props=[PROP], params={"them_answer": "json"},
             self_fields=dict(S_SELF, _fd_to_send="opt[obj[File]]"), pre_hook=fd_kind_hook, modifies=["_fd_to_send"],
             requires=["self._fd_to_send is None or self._fd_to_send._read == b''"],
             raises={e: None for e in SF_EXC + ["KeyError", "TypeError", "AttributeError", "IndexError"]},
             internal_ensures=[
                 ("text-needs-message-ack-ok", "implies(old(self._fd_to_send) is None, jhas(them_answer, 'message_ack') and "
                                               "jget(them_answer, 'message_ack') == 'ok' and call_seq() == [])"),
                 ("a-text-transfer-has-nothing-to-stream-afterwards-either",
                  "implies(old(self._fd_to_send) is None, self._fd_to_send is None)"),
                 ("file-needs-file-ack-ok-and-a-completed-send-file",
                  "implies(old(self._fd_to_send) is not None, jhas(them_answer, 'file_ack') and jget(them_answer, 'file_ack') == 'ok' "
                  "and call_seq() == ['_send_file'] and ret_seq() == ['_send_file'])")]),
]


# ---- (R') what `wormhole receive` does between the welcome and the end of the transfer
RG_SELF = dict(R_SELF, _transit_receiver="opt[obj[Transit]]", _reactor="obj[Reactor]", _tor="opt[obj[Tor]]")
RGO_EXC = sorted(set(PO_EXC + ["TransferError", "KeyError", "TypeError", "AttributeError", "IndexError", "ValueError",
                               "UnicodeDecodeError", "AssertionError", "WelcomeError", "WrongPasswordError", "WormholeError"])
                 - {"RespondError"})
GD_EXC = ["TransferError", "ValueError", "UnicodeDecodeError", "AssertionError", "WrongPasswordError", "WormholeError", "KeyError"]

RG_CONTRACTS = [
    Contract(f"{RECV}:Receiver._send_data", props=[PROP], params={"data": "json", "w": "obj[Wormhole]"}, self_fields=RG_SELF,
             internal_ensures=[("sends-exactly-this-dict-once", "bcall_names() == ['send_message'] and "
                                                                "bcall_arg('send_message', 0, 0) == json_bytes(data)")]),
    Contract(f"{RECV}:Receiver._get_data", props=[PROP], params={"w": "obj[Wormhole]"}, self_fields=RG_SELF, returns="json",
             raises={e: None for e in GD_EXC},
             ensures=[("a-dict-without-an-error-report", "isinstance(result, dict) and not jhas(result, 'error')")],
             internal_ensures=[("one-message-awaited", "bcall_names() == ['get_message']")],
             note="a peer's {'error': ...} never comes back as data: TransferError"),
    Contract(f"{RECV}:Receiver._handle_code", props=[PROP], params={"w": "obj[Wormhole]"}, self_fields=RG_SELF,
             raises={"AssertionError": None, "WormholeError": None},
             internal_ensures=[("exactly-one-way-of-getting-a-code-then-waits-for-it",
                                "bcalls('set_code') + bcalls('allocate_code') + bcalls('input_code') == 1 and "
                                "bcall_names()[-1] == 'get_code'")]),
    Contract(f"{RECV}:Receiver._build_transit", props=[PROP], params={"w": "obj[Wormhole]", "sender_transit": "json"},
             self_fields=RG_SELF, modifies=["_transit_receiver"], raises={"AttributeError": None, "WormholeError": None},
             ensures=[("a-transit-receiver-exists", "self._transit_receiver is not None")],
             internal_ensures=[("keyed-before-hints-and-our-hints-sent-back",
                                "bcalls('set_transit_key') == 1 and bcalls('add_connection_hints') == 1 and "
                                "ncalls('_send_data') == 1 and jhas(to_j(last_call_arg('_send_data', 1)), 'transit')")]),
    Contract(f"{RECV}:Receiver._parse_transit", props=[PROP], params={"sender_transit": "json", "w": "obj[Wormhole]"},
             self_fields=RG_SELF, modifies=["_transit_receiver"], raises={"AttributeError": None, "WormholeError": None},
             ensures=[("a-transit-receiver-exists", "self._transit_receiver is not None"),
                      ("an-existing-one-is-kept", "imp(old(self._transit_receiver) is not None, "
                                                  "self._transit_receiver is old(self._transit_receiver))")],
             internal_ensures=[("built-exactly-when-there-was-none",
                                "ncalls('_build_transit') == ite(old(self._transit_receiver) is None, 1, 0)")]),
    Contract(f"{RECV}:Receiver._go", props=[PROP], params={"w": "obj[Wormhole]"}, self_fields=RG_SELF,
             requires=c05.CWD_OK, pre_hook=c05.bind_fs, raises={e: None for e in RGO_EXC},
             modifies=["abs_destname", "xfersize", "_transit_receiver"] + c05.FS_FIELDS,
             internal_ensures=[
                 ("success-only-after-parse-offer-returned",
                  "call_seq()[-1] == '_parse_offer' and ret_seq() == call_seq() and ncalls('_parse_offer') == 1"),
                 ("the-offer-parsed-is-the-peers-offer", "to_j(last_call_arg('_parse_offer', 1)) == jget(them_d, 'offer')")],
             ensures_raise={"TransferError": [
                 ("a-refused-offer-is-reported-to-the-peer-and-nothing-else-is-done",
                  "implies(n_refusals_handled() >= 1, call_seq()[-1] == '_send_data' and "
                  "call_seq()[-2] == '_parse_offer' and jhas(to_j(last_call_arg('_send_data', 1)), 'error'))")]},
             loops={0: {"header": "True", "modifies": [("self", "_transit_receiver")],
                        "invariant": ["ncalls('_parse_offer') == 0 and ret_seq() == call_seq()"] + c05.CWD_OK}},
             note="normal return == `wormhole receive` reports success: only after the one _parse_offer (by its contract above) "
                  "returned; RespondError never escapes: the peer is told, then TransferError"),
]


def regf_rg():
    reg = regf_r()
    install_offer_specs(reg)
    reg.class_fields["Receiver"] = dict(RG_SELF)
    reg.class_fields["Args"] = dict(reg.class_fields["Args"], code="opt[str]", zeromode="bool", allocate="bool", code_length="int",
                                    verify="bool", transit_helper="str", listen="bool", relay_url="str")
    reg.class_fields["DelayedCall"] = {"called": "bool"}
    reg.boundary_returns["Reactor.callLater"] = "obj[DelayedCall]"
    reg.boundary_returns["Wormhole.derive_key"] = "bytes"
    reg.boundary_returns["Wormhole.input_code"] = "obj[InputHelper]"
    reg.boundary_returns["Transit.get_connection_abilities"] = "json"
    em = reg.ext_models
    em["new:TransitReceiver"] = lambda it, klass, args, kw: VObj("Transit", {})
    for g in ("KEY_TIMER", "VERIFY_TIMER"):
        em["global:" + RECV + ":" + g] = lambda it: it.fresh("real", "timer")
    em["global:wormhole/__init__.py:__version__"] = lambda it: it.fresh("str", "version")

    def response_of(it, o):
        """r.response of a caught RespondError (only the handler for a refused offer reads it): recorded"""
        it.ctx.event("refusal-handled", o)
        return it.fresh("str", "response")

    for e in ("RespondError", "TransferRejectedError"):
        em[f"attr:{e}.response"] = response_of
    reg.spec_funcs["n_refusals_handled"] = lambda it: VInt(1 if any(e[0] == "refusal-handled" for e in it.ctx.trace) else 0)

    def handle_welcome(it, args, kwargs, fr):
        if it.ctx.choose([z3.BoolVal(True), z3.BoolVal(True)], "handle_welcome") == 1:
            it.raise_("WelcomeError", VStr("server says no"))
        return NONE

    reg.func_models["wormhole/cli/welcome.py:handle_welcome"] = handle_welcome
    reg.func_models["wormhole/_rlcompleter.py:input_with_completion"] = \
        lambda it, args, kwargs, fr: deferred.make_deferred("input_with_completion")

    def fires_with(ty, label, *errors):
        def h(it, d, fr):
            if errors:
                k = it.ctx.choose([z3.BoolVal(True)] * (1 + len(errors)), label)
                if k > 0:
                    it.raise_(errors[k - 1])
            return it.fresh(ty, label) if ty else NONE
        return h

    for meth, ty, errs in (("get_welcome", "json", ("WormholeError",)), ("get_code", "str", ("WormholeError",)),
                           ("get_unverified_key", "bytes", ("WormholeError",)),
                           ("get_verifier", "bytes", ("WrongPasswordError", "WormholeError")),
                           ("get_message", "bytes", ("WrongPasswordError", "WormholeError"))):
        reg.boundary["Wormhole." + meth] = deferred.producing("Wormhole." + meth)
        reg.deferred_results["Wormhole." + meth] = fires_with(ty, meth, *errs)
    reg.boundary["Transit.get_connection_hints"] = deferred.producing("Transit.get_connection_hints")
    reg.deferred_results["Transit.get_connection_hints"] = fires_with("json", "hints")
    reg.deferred_results["input_with_completion"] = fires_with("bool", "used_completion", "WormholeError")
    for e in ("WrongPasswordError", "WormholeError", "WelcomeError"):
        reg.exc_bases.setdefault(e, "Exception")
    for c in RG_CONTRACTS:
        reg.contracts[c.target] = c
    # applied at a call site a contract contributes its `ensures` only (see regf_go)
    for k, c in list(reg.contracts.items()):
        if c.ensures_raise:
            c2 = copy.copy(c)
            c2.ensures_raise = {}
            reg.contracts[k] = c2
    return reg


def regf_r():
    reg = c05.regf(modular=True)
    install_rs(reg)
    register_classes(reg, ["wormhole/errors.py", RECV])
    reg.class_fields["Receiver"] = dict(R_SELF)
    sf = reg.spec_funcs
    sf["transfer_before_final"] = transfer_before_final

    def call_arg(it, name, param):
        name, param = it.concrete(name), it.concrete(param)
        for e in it.ctx.trace:
            if e[0] == "call" and e[1][0].endswith("." + name):
                c = it.reg.contracts[e[1][0]]
                names = [a.arg for a in c.fdef.node.args.args]
                return e[1][1][names.index(param)]
        return NONE

    sf["call_arg"] = call_arg
    for c in R_CONTRACTS:
        reg.contracts[c.target] = c
    return reg


def z_repr(jz):
    """repr(v): an uninterpreted function of the (JSON) value; what it escapes is Python's business"""
    return uf("py_repr", J, StringS)(jz)


def install_print(reg):
    """print(...) as a recorded boundary call instead of dropped syntax, repr() as an uninterpreted function
    (only for the functions whose clauses are about what is shown to the user)"""
    reg.drop_calls = [d for d in reg.drop_calls if d != "print"]

    def b_print(it, args, kw):
        it.ctx.event("bcall", "builtins", "print", [it.force(a) for a in args], dict(kw))
        return NONE

    def b_repr(it, args, kw):
        v = it.force(args[0])
        return VStr(z_repr(to_json(v)), "str")

    reg.ext_models["builtins.print"] = b_print
    reg.ext_models["builtins.repr"] = b_repr
    sf = reg.spec_funcs
    sf["py_repr"] = lambda it, v: VStr(z_repr(to_json(it.force(v))), "str")

    def prints(it):
        return [e[1] for e in it.ctx.trace if e[0] == "bcall" and e[1][1] == "print"]

    def print_file(it, k):
        es = prints(it)
        k = it.concrete(k)
        return es[k][3].get("file", NONE) if k < len(es) else NONE

    sf["print_file"] = print_file
    sf["print_nargs"] = lambda it, k: VInt(len(prints(it)[it.concrete(k)][2]) if it.concrete(k) < len(prints(it)) else -1)


def regf_r_text():
    reg = regf_r()
    install_print(reg)
    return reg


def install_zipstream(reg):
    """zipstream.ng.ZipStream(sized=True) as a boundary object with ghost fields: _stream = the bytes the finished stream
    yields, _read = what has been consumed from it so far, _entries = its info_list().  len(zs) is the length of _stream
    (what `sized` promises); open_iterable(zs, 'rb') is a file object over exactly that stream"""
    from pyvc import models as M
    reg.class_fields["ZipStream"] = {"_stream": "bytes", "_read": "bytes", "_entries": "seq[json]"}
    reg.exc_bases.setdefault("ZipStream", "zipstream.ng.ZipStream")

    def b_len(it, args, kw):
        v = it.force(args[0])
        if isinstance(v, VObj) and v.cls == "ZipStream":
            return VInt(z3.Length(v.fields["_stream"].z))
        return M.b_len(it, args, kw, None)

    reg.ext_models["builtins.len"] = b_len

    def open_iterable(it, args, kw):
        zs = it.force(args[0])
        mode = it.concrete(it.force(args[1])) if len(args) > 1 else "r"
        if not (isinstance(zs, VObj) and zs.cls == "ZipStream" and mode == "rb"):
            raise OutOfSubset("open_iterable of something that is not a ZipStream opened 'rb'")
        it.ctx.event("bcall", "iterableio", "open_iterable", [zs, VStr(mode)], {})
        return VObj("File", {"name": VStr(""), "mode": VStr(mode), "_content": zs.fields["_stream"], "_read": zs.fields["_read"]})

    reg.ext_models["iterableio.open_iterable"] = open_iterable
    reg.spec_funcs["is_zipstream"] = lambda it, v: VBool(isinstance(it.force(v), VObj) and it.force(v).cls == "ZipStream")


def install_offer_models(reg):
    """library models for Sender._build_offer: POSIX path functions and the ghost filesystem of C05, file contents as a
    ghost function of the path, zipstream.ng as a boundary object"""
    from pyvc import models as M
    c05.install_models(reg)
    c05.install_spec(reg)
    em, sf = reg.ext_models, reg.spec_funcs
    reg.class_fields["GhostFS"] = {"exists": "set[str]", "isdir": "set[str]", "isfile": "set[str]"}
    for name in ("normpath", "realpath"):
        em["os.path." + name] = (lambda nm: lambda it, args, kw: VStr(uf("posix_" + nm, StringS, StringS)(c05.path_arg(it, args[0]).z), "str"))(name)
        sf[name] = (lambda nm: lambda it, p_: VStr(uf("posix_" + nm, StringS, StringS)(sview(p_).z), "str"))(name)
    relp = lambda a, b: uf("posix_relpath", StringS, StringS, StringS)(a, b)     # noqa: E731
    em["os.path.relpath"] = lambda it, args, kw: VStr(relp(c05.path_arg(it, args[0]).z, c05.path_arg(it, args[1]).z), "str")
    sf["relpath"] = lambda it, a, b: VStr(relp(sview(a).z, sview(b).z), "str")
    content = uf("fs_content", StringS, StringS)
    sf["content_of"] = lambda it, p_: VStr(content(sview(p_).z), "bytes")

    def os_stat(it, args, kw):
        p_ = c05.path_arg(it, args[0])
        c05.may_fail(it, "os.stat")
        return VObj("stat_result", {"st_size": VInt(z3.Length(content(p_.z))), "st_mode": it.fresh("int", "st_mode")})

    em["os.stat"] = os_stat
    em["stat.S_ISBLK"] = lambda it, args, kw: it.fresh("bool", "is_block_device")
    c05_open = em["builtins.open"]

    def b_open(it, args, kw):
        f = c05_open(it, args, kw)
        mode = it.concrete(f.fields["mode"])
        if not any(ch in mode for ch in "wax+"):
            it.ctx.event("bcall", "fs", "open", [f.fields["name"], f.fields["mode"]], {})
            f.fields["_content"] = VStr(content(f.fields["name"].z), "bytes")
            f.fields["_read"] = VStr(b"")
        return f

    em["builtins.open"] = b_open

    def file_seek(it, recv, meth, args, kwargs, fr):
        off = it.force(args[0])
        whence = it.concrete(it.force(args[1])) if len(args) > 1 else 0
        if whence == 2 and it.concrete(off) == 0:
            return VInt(z3.Length(recv.fields["_content"].z))
        return off

    reg.boundary["File.seek"] = file_seek

    def stdin_read(it, args, kw):
        t = it.fresh("str", "stdin_text")
        it.ctx.event("stdin-read", t)
        return t

    em["sys.stdin.read"] = stdin_read
    evs = lambda it, kind: [e[1][0] for e in it.ctx.trace if e[0] == kind]     # noqa: E731
    sf["n_stdin"] = lambda it: VInt(len(evs(it, "stdin-read")))
    sf["stdin_text"] = lambda it, k: evs(it, "stdin-read")[it.concrete(k)] if it.concrete(k) < len(evs(it, "stdin-read")) else NONE
    sf["n_typed"] = lambda it: VInt(len(evs(it, "input-line")))
    sf["typed"] = lambda it, k: evs(it, "input-line")[it.concrete(k)] if it.concrete(k) < len(evs(it, "input-line")) else NONE

    # the text the user gave: what was typed at the prompt, else what was read from stdin, else --text
    sf["users_text"] = lambda it, opt: (evs(it, "input-line") or evs(it, "stdin-read") or [it.force(opt)])[0]

    # ---- zipstream.ng
    install_zipstream(reg)

    def new_zipstream(it, args, kw):
        it.ctx.event("bcall", "zipstream", "ZipStream", list(args), dict(kw))
        zs = it.fresh("obj[ZipStream]", "zs")
        zs.fields["_read"] = VStr(b"")          # a new stream: nothing consumed yet
        return zs

    em["zipstream.ng.ZipStream"] = new_zipstream

    def zs_walk(it, args, kw):
        it.ctx.event("bcall", "zipstream", "walk", [it.force(a) for a in args], dict(kw))
        return it.fresh("seq[str]", "walked")

    em["zipstream.ng.walk"] = zs_walk

    def zs_add_path(it, recv, meth, args, kwargs, fr):
        """stats the path (may fail with OSError); what the stream will be changes with every member added"""
        c05.may_fail(it, "zs.add_path")
        it.ctx.event("bcall", "ZipStream", "add_path", [it.force(a) for a in args], {k: it.force(v) for k, v in kwargs.items()})
        recv.fields["_stream"] = it.fresh("bytes", "zip_stream")
        recv.fields["_entries"] = it.fresh("seq[json]", "zip_entries")
        return NONE

    reg.boundary["ZipStream.add_path"] = zs_add_path

    def zs_info_list(it, recv, meth, args, kwargs, fr):
        r = recv.fields["_entries"]
        r = VSeq(r.z, r.elem)
        r.zs_entries = True
        return r

    reg.boundary["ZipStream.info_list"] = zs_info_list


    def entries_comprehension(it, e, g, coll, fr):
        """[x["size"] for x in zs.info_list() if not x["is_dir"]] and sum() of it: NOT under contract - some list of ints
        / some int (numfiles and numbytes of a directory offer are informational; nothing is claimed about them)"""
        from pyvc.interp import VSeqResult
        if isinstance(coll, VSeq) and str(coll.elem) == str(parse_type("json")) and getattr(coll, "zs_entries", False):
            return VSeqResult(z3.Const(it.ctx.namer("filesizes"), z3.SeqSort(IntS)), parse_type("int"))
        return None

    em["comprehension"] = entries_comprehension

    def b_sum(it, args, kw):
        v = it.force(args[0])
        if isinstance(v, VSeq):
            return it.fresh("int", "sum")
        return M.b_sum(it, args, kw, None)

    em["builtins.sum"] = b_sum
    em["os.access"] = lambda it, args, kw: it.fresh("bool", "readable")
    em["os.strerror"] = lambda it, args, kw: it.fresh("str", "strerror")
    reg.ext_consts["os.R_OK"] = 4
    reg.ext_consts["errno.EACCES"] = 13
    for e in ("OSError", "PermissionError"):
        em[f"attr:{e}.strerror"] = lambda it, o: it.fresh("str", "strerror")
    sf["to_j"] = lambda it, v: VJson(to_json(it.force(v)))

    asj = lambda it, v: v if isinstance(v, VJson) else VJson(to_json(it.force(v)))      # noqa: E731
    for nm in ("jhas", "jget", "jfield"):
        sf[nm] = (lambda f: lambda it, d, *ks: f(it, asj(it, d), *ks))(sf[nm])

    def nkeys(it, d, *path):
        """number of keys of a dict the function built itself (concrete keys)"""
        d = it.force(d)
        for k in path:
            d = it.force(d.d[it.concrete(k)]) if isinstance(d, VDict) and it.concrete(k) in d.d else None
        return VInt(len(d.d) if isinstance(d, VDict) else -1)

    sf["offer_keys"] = nkeys
    sf["file_keys"] = nkeys

    def iter_evs(it, name):
        tr = it.ctx.trace
        start = max([k for k, e in enumerate(tr) if e[0] == "loop-body-start"] + [-1])
        name = name if isinstance(name, str) else it.concrete(name)
        return [e[1] for e in tr[start + 1:] if e[0] == "bcall" and e[1][1] == name]

    sf["iter_bcalls"] = lambda it, name: VInt(len(iter_evs(it, name)))
    sf["iter_add_arg"] = lambda it, i: iter_evs(it, "add_path")[0][2][it.concrete(i)] if iter_evs(it, "add_path") else NONE
    sf["iter_add_kw"] = lambda it, k: iter_evs(it, "add_path")[0][3].get(it.concrete(k), NONE) if iter_evs(it, "add_path") else NONE


def regf_o():
    reg = make_registry()
    install_trace_funcs(reg)
    register_classes(reg, ["wormhole/errors.py", SEND])
    install_common(reg)
    install_offer_models(reg)
    reg.class_fields["SArgs"] = {"text": "opt[str]", "what": "opt[str]", "cwd": "str", "stderr": "obj[Stream]",
                                 "ignore_unsendable_files": "bool", "hide_progress": "bool"}
    reg.class_fields["File"] = {"name": "str", "mode": "str", "_read": "bytes", "_content": "bytes"}
    for c in UTIL_ASSUMED + O_CONTRACTS:
        reg.contracts[c.target] = c
    return reg


# ---- Sender._check_verifier (the --verify prompt)
G_SELF = {"_args": "obj[SArgs]", "_timing": "obj[Timing]"}

G_CONTRACTS = [
    Contract(f"{SEND}:Sender._check_verifier", props=[PROP], params={"w": "obj[Wormhole]", "verifier_bytes": "bytes"},
             self_fields=G_SELF, raises={"TransferError": None, "EOFError": None},
             internal_ensures=[("returns-only-after-a-yes-and-sends-nothing", "bcalls('send_message') == 0 and n_typed() >= 1 and "
                                                                            "lower(typed(-1)) == 'yes'")],
             ensures_raise={"TransferError": [("a-no-tells-the-peer-before-giving-up",
                                               "bcalls('send_message') == 1 and lower(typed(-1)) == 'no' and "
                                               "jhas(sent_dict(0), 'error')")]},
             loops={0: {"header": "True", "invariant": ["bcalls('send_message') == 0"]}}),
]


def regf_go():
    reg = regf_s()
    install_offer_specs(reg)
    reg.ext_models["builtins.input"] = c05_input
    reg.exc_bases.setdefault("EOFError", "Exception")
    for c in G_CONTRACTS:
        reg.contracts[c.target] = c
    return reg


def c05_input(it, args, kw):
    c05.may_fail(it, "input", "EOFError")
    t = it.fresh("str", "typed")
    it.ctx.event("input-line", t)
    return t


def install_offer_specs(reg):
    sf = reg.spec_funcs
    evs = lambda it, kind: [e[1][0] for e in it.ctx.trace if e[0] == kind]     # noqa: E731
    sf["n_typed"] = lambda it: VInt(len(evs(it, "input-line")))
    sf["typed"] = lambda it, k: evs(it, "input-line")[it.concrete(k)] if -len(evs(it, "input-line")) <= it.concrete(k) < len(evs(it, "input-line")) else NONE
    sf["to_j"] = lambda it, v: VJson(to_json(it.force(v)))
    sf["ncalls"] = lambda it, suffix: VInt(sum(1 for e in it.ctx.trace if e[0] == "call" and e[1][0].endswith(it.concrete(suffix))))

    def last_call_arg(it, suffix, i):
        es = [e for e in it.ctx.trace if e[0] == "call" and e[1][0].endswith(it.concrete(suffix))]
        return es[-1][1][1][it.concrete(i)] if es else NONE

    sf["last_call_arg"] = last_call_arg

    def sent_dict(it, k):
        """the dict handed to dict_to_bytes for the k-th send_message (assumed contract: result == json_bytes(d))"""
        es = [e for e in it.ctx.trace if e[0] == "call" and e[1][0].endswith("dict_to_bytes")]
        return VJson(to_json(it.force(es[it.concrete(k)][1][1][0]))) if it.concrete(k) < len(es) else NONE

    sf["sent_dict"] = sent_dict


def regf_s():
    reg = make_registry()
    install_trace_funcs(reg)
    register_classes(reg, ["wormhole/errors.py", SEND])
    install_rs(reg)
    reg.class_fields["File"] = {"name": "str", "_read": "bytes", "_content": "bytes"}
    reg.class_fields["SArgs"] = {"hide_progress": "bool", "stderr": "obj[Stream]"}
    install_zipstream(reg)
    for c in S_CONTRACTS:
        reg.contracts[c.target] = c
    return reg


# ------------------------------------------------------------------ stable fields: a syntactic frame argument
def stable_fields_task(tier, seed):
    """Receiver.abs_destname / Receiver.xfersize are declared stable across yields: the only stores to them in
    cmd_receive.py are in _handle_file/_handle_directory (reached once per Receiver: _go refuses a second offer)"""
    t0 = time.time()
    m = source.load_module(RECV)
    stores = {}
    for cname, cd in m.classes.items():
        for mname, fd in cd.methods.items():
            for n in ast.walk(fd.node):
                if isinstance(n, ast.Attribute) and isinstance(n.ctx, (ast.Store, ast.Del)) and n.attr in ("abs_destname", "xfersize"):
                    stores.setdefault(n.attr, set()).add(f"{cname}.{mname}")
    obs = []
    for fld in ("abs_destname", "xfersize"):
        where = stores.get(fld, set())
        good = where <= {"Receiver._handle_file", "Receiver._handle_directory"}
        obs.append(ob(f"{RECV}:stable-field.{fld}", "discharged" if good else "failed", "evaluation", 0.0, False, None,
                      {"kind": "frame", "definite": True, "src": f"stores to .{fld} only in _handle_file/_handle_directory (found {sorted(where)})"},
                      smt_hash=fld))
    return {"obligations": obs, "info": {"target": f"{RECV}:<stores to stable fields>", "sha": None, "lines": None, "paths": 1,
                                         "wall": round(time.time() - t0, 3)}}


def tasks():
    out = []
    for c in P_CONTRACTS:
        inl = c.target.endswith(("connectConsumer", "recordReceived"))
        out.append(ContractTask(c, regf_p_all if c.target.endswith("writeToFile") else regf_p_w2c if inl else regf_p))
    out += [ContractTask(c, regf_r_text if c.target.endswith("Receiver._handle_text") else regf_r) for c in R_CONTRACTS]
    out += [ContractTask(c, regf_rg) for c in RG_CONTRACTS]
    out += [ContractTask(c, regf_o) for c in O_CONTRACTS]
    out += [ContractTask(c, regf_s) for c in S_CONTRACTS]
    out += [ContractTask(c, regf_go) for c in G_CONTRACTS]
    out.append(FuncTask("stable-fields", stable_fields_task, True, "frame"))
    # byte-exactness also rests on (a) the download file being opened fresh (truncating "wb") at destination+".tmp"
    # - C05's _handle_file/_handle_directory contracts - and (b) the record pipe rejecting replayed / reordered
    # records - C06's _decrypt_record contract.  The same tasks are run here so that this check sees their failure.
    from . import c05, c06
    out += [t for t in c05.tasks() if getattr(t, "contract", None) is not None and
            t.contract.target.endswith(("Receiver._handle_file", "Receiver._handle_directory",
                                        # the tree produced is the tree sent: every member of the archive is unpacked, once
                                        "Receiver._write_directory", "Receiver._extract_file", "Receiver._write_file"))]
    out += [t for t in c06.tasks() if getattr(t, "contract", None) is not None and
            t.contract.target.endswith(("Connection._decrypt_record", "Connection.dataReceivedRECORDS"))]
    return out


CONTRACTS = P_CONTRACTS + R_CONTRACTS + RG_CONTRACTS + O_CONTRACTS + S_CONTRACTS + G_CONTRACTS
TRUSTED = [
    "z3/cvc5", "pyvc semantics of the Python subset (DESIGN 2.2)",
    "inlineCallbacks (props/deferred.py): a generator is resumed exactly once per fired Deferred with its result, or the "
    "failure is raised at the yield; a non-Deferred is sent straight back; while suspended every field of self not declared "
    "stable is havocked.  Declared stable: Receiver.args/abs_destname/xfersize/_transit_receiver (the two data fields are "
    "checked syntactically to be stored only by _handle_file/_handle_directory), Sender._args/_timing/_transit_sender/_fd_to_send",
    "deferred-result contract of record_pipe.writeToFile(f, expected, progress, hasher.update): some bytes w are appended to f "
    "and fed to hasher (the same bytes); fires with n == len(w) only if n >= expected; otherwise errback(ConnectionClosed); "
    "expected None gives None.  This is the statement proved in layer (P) for Connection.writeToFile/connectConsumer/"
    "_writeToConsumer/recordReceived/connectionLost and FileConsumer.write; the identification of the two is by inspection",
    "deferred-result contracts: Transit*.connect() fires with a fresh record pipe (nothing written yet) or fails; "
    "receive_record() fires with some bytes or errbacks ConnectionClosed",
    "twisted.protocols.basic.FileSender.beginFileTransfer(file, consumer, transform): repeatedly reads a non-empty chunk, "
    "passes it through transform, hands the result to consumer.write, in order; fires when the file is exhausted (assumed; the "
    "transform closure _count_and_hash itself is executed symbolically inside the inductive step)",
    "hashlib.sha256: update appends to the hashed data, digest is an uninterpreted function of that data (32 bytes); "
    "equal digests => equal data is NOT assumed by any obligation here (collision resistance only matters for the end-to-end reading)",
    "wormhole.util.bytes_to_hexstr / dict_to_bytes / bytes_to_dict: assumed contracts (hexlify+ascii never fails; "
    "json.dumps/loads are uninterpreted; bytes_to_dict returns a dict or raises)",
    "file objects: f.write(b) appends b to the ghost content f._written; RecordPipe.write(b) appends to pipe._written (ghost)",
    "assert statements are executed (no python -O): `assert received == self.xfersize` is what rejects surplus bytes",
    "the C05 contracts of Receiver._handle_file/_handle_directory/_write_file/_write_directory (verified by ./check C05)",
    "Receiver._go and its helpers (regf_rg): deferred-result contracts w.get_welcome/get_code/get_unverified_key/get_verifier/"
    "get_message fire with some value of the documented type or fail (WormholeError, WrongPasswordError); "
    "input_with_completion fires with some bool; TransitReceiver(...) is a boundary object; handle_welcome returns or raises "
    "WelcomeError; KEY_TIMER/VERIFY_TIMER/__version__ are some float/float/str; RespondError.response is some str (also for TransferRejectedError); "
    "reactor.callLater returns a DelayedCall with a bool `called`",
    "a contract applied at a call site contributes its `ensures` only: trace clauses of the callee (ensures_raise) are proved "
    "on the callee and are not assumed of the caller's trace (regf_go / regf_rg strip them from the applied copies)",
    "print() in Receiver._handle_text is a recorded boundary call (elsewhere it is dropped syntax); repr(v) is an uninterpreted "
    "function of the value (what Python escapes is not modelled, only that the text shown is repr(message)[1:-1])",
    "Sender._build_offer: POSIX path model of C05 (join by definition, basename axioms) plus uninterpreted os.path.normpath / "
    "realpath / relpath; ghost filesystem of C05 for exists/isfile/isdir; file contents are a ghost function of the path "
    "(content_of): os.stat(p).st_size is its length, open(p, 'rb') reads it, f.seek(0, 2) returns its length (no other process "
    "changes the file between stat/open and the transfer); os.stat/open/os.access/zs.add_path may fail with OSError; "
    "sys.stdin.read() / input() return some str (input may raise EOFError); stat.S_ISBLK is some bool",
    "zipstream.ng (assumed): ZipStream(sized=True) is a boundary object with ghost fields _stream (the bytes the finished "
    "stream yields), _read (consumed so far; empty for a new stream) and _entries; add_path(path, arcname=, recurse=) changes "
    "the stream (havoc) or raises OSError; len(zs) == len(zs._stream) ('sized'); walk(top, ...) yields some list of paths; "
    "iterableio.open_iterable(zs, 'rb') is a file object whose content is exactly zs._stream",
]
ASSUMPTIONS = [
    "records arrive unmodified and in order (C06), sha256 collision resistance, zipfile/zipstream content round trip (what "
    "bytes a ZipStream produces for a tree, what ZipFile.extract writes) and what repr() escapes are outside this check",
    "FileConsumer/consumer identity: Connection.connectConsumer is verified for FileConsumer consumers",
    "Sender._send_file / _handle_answer are verified for both kinds of _fd_to_send that _build_offer returns: a file object and a "
    "ZipStream (pre-state fork fd-kind); Sender._build_offer is verified on its own - that Sender._go stores its second result "
    "in _fd_to_send and sends its first result as the offer is not under contract (see Sender._go below)",
    "not under contract: Sender._go / go (a contract for _go was written - offer sent == first result of _build_offer, "
    "_fd_to_send == its second result, normal return only after _handle_answer returned - but the function has too many "
    "independent option forks (verify/zeromode/code/qr/tty/timer/listen x offer kinds x message shapes) for an engine without "
    "state merging: path enumeration alone did not finish in 10 minutes); Sender._check_verifier is under contract",
    "not under contract: numfiles / numbytes of a directory offer (the comprehension over zs.info_list() and sum() of a symbolic "
    "list are outside the engine's subset: both values are arbitrary here; the receiver uses them for its free-space message "
    "only); Receiver.go and Sender.go (the close-and-return wrappers around _go: closures handed to addCallbacks), "
    "Receiver._send_permission / _show_verifier / _msg on their own (inlined into their callers)",
    "a JSON float xfersize equal to the integer byte count is treated by the engine as unequal (the real code succeeds "
    "there; the claims are unaffected)",
    "negative `expected`: connectConsumer then fires on the first record; the receiver's assert rejects it",
]
