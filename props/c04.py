"""C04 - a completed transfer is byte-exact; success is never reported otherwise.

Three layers, each verified against the real source:
 (P) transit.Connection consumer accounting (connectConsumer/_writeToConsumer/disconnectConsumer/
     recordReceived/connectionLost/writeToFile, FileConsumer.*): plain methods, ghost event trace;
 (R) cmd_receive.Receiver._transfer_data/_parse_offer/_close_transit/_establish_transit/_handle_text;
 (S) cmd_send.Sender._send_file/_handle_answer.
(R) and (S) are @inlineCallbacks generators; `yield` is given meaning by props/deferred.py.  The
deferred-result contract used for record_pipe.writeToFile at (R) is the statement proved at (P).
Filesystem functions of the Receiver (_handle_file, _write_file, ...) are used through their C05 contracts.
"""
import ast
import copy
import time

import z3

from pyvc.contract import Contract
from pyvc.runner import ContractTask, FuncTask, ob
from pyvc.values import *   # noqa
from pyvc import values, source
from pyvc.values import J, OJ
from pyvc.models import uf
from .common import make_registry, install_trace_funcs, register_classes
from . import c05, deferred

PROP = "C04"
RECV = "wormhole/cli/cmd_receive.py"
SEND = "wormhole/cli/cmd_send.py"
TRANSIT = "wormhole/transit.py"


# ------------------------------------------------------------------ shared models
def opaque_deferred(it):
    return VOpaque(z3.Const(it.ctx.namer("deferred"), opaque_sort("Deferred")), "Deferred")


def sha_digest(z):
    return uf("sha256_digest", StringS, StringS)(z)


def z_hexstr(z):
    """bytes_to_hexstr(b) = hexlify(b).decode('ascii')"""
    return uf("decode_ascii", StringS, StringS)(uf("hexlify", StringS, StringS)(z))


def z_json_bytes(jz):
    """dict_to_bytes(d) = json.dumps(d).encode('utf-8')"""
    return uf("encode_utf8", StringS, StringS)(uf("json_dumps", J, StringS)(jz))


def install_common(reg):
    em = reg.ext_models
    for e, b in (("error.ConnectionClosed", "Exception"), ("ConnectionClosed", "Exception"), ("TransitError", "Exception"),
                 ("RuntimeError", "Exception")):
        reg.exc_bases.setdefault(e, b)
    em["twisted.internet.defer.Deferred"] = lambda it, args, kw: opaque_deferred(it)
    em["twisted.internet.error.ConnectionClosed"] = lambda it, args, kw: VObj("error.ConnectionClosed", {"args": VTuple(list(args))})

    def fire(kind):
        def h(it, recv, meth, args, kwargs, fr):
            it.ctx.event("fire", recv, kind, args[0] if args else NONE)
            return NONE
        return h

    reg.boundary["Deferred.callback"] = fire("callback")
    reg.boundary["Deferred.errback"] = fire("errback")

    def file_write(it, recv, meth, args, kwargs, fr):
        data = it.force(args[0])
        it.ctx.event("bcall", "File", "write", [data], {})
        it.ctx.event("fwrite", recv, data)
        if isinstance(recv, VObj) and isinstance(recv.fields.get("_written"), VStr) and isinstance(data, VStr):
            recv.fields["_written"] = VStr(z3.Concat(recv.fields["_written"].z, data.z), "bytes")
        return NONE

    reg.boundary["File.write"] = file_write

    def call_callable(it, f, args, kwargs):
        it.ctx.event("cbcall", f, list(args))
        return NONE

    em["call_opaque:callable"] = call_callable

    def sha256_new(it, args, kw):
        return VObj("sha256", {"_data": VStr(b"")})

    em["hashlib.sha256"] = sha256_new

    def sha_update(it, recv, meth, args, kwargs, fr):
        data = it.force(args[0])
        recv.fields["_data"] = VStr(z3.Concat(recv.fields["_data"].z, data.z), "bytes")
        return NONE

    def sha_digest_m(it, recv, meth, args, kwargs, fr):
        r = sha_digest(recv.fields["_data"].z)
        it.ctx.assume(z3.Length(r) == 32)
        return VStr(r, "bytes")

    reg.boundary["sha256.update"] = sha_update
    reg.boundary["sha256.digest"] = sha_digest_m

    em["tqdm.tqdm"] = lambda it, args, kw: VObj("tqdm", {})
    em["with:progress"] = lambda it, item, fr: None

    sf = reg.spec_funcs
    sf["imp"] = lambda it, a, b: VBool(z3.Implies(it.truth(a), it.truth(b)))

    def reached(it, n, expected):
        """expected is not None and n >= expected (pure)"""
        if expected is NONE:
            return VBool(False)
        if isinstance(expected, VOpt):
            return VBool(z3.And(z3.Not(expected.isnone), n.z >= expected.inner.z))
        return VBool(n.z >= expected.z)

    sf["reached"] = reached
    sf["sha256_digest"] = lambda it, b: VStr(sha_digest(b.z), "bytes")
    sf["hexstr"] = lambda it, b: VStr(z_hexstr(b.z), "str")
    sf["json_bytes"] = lambda it, d: VStr(z_json_bytes(to_json(d)), "bytes")
    sf["jhas"] = lambda it, d, k: VBool(z3.And(J.is_jdict(d.z), OJ.is_present(z3.Select(J.d(d.z), sview(k).z))))
    sf["jget"] = lambda it, d, k: VJson(OJ.v(z3.Select(J.d(d.z), sview(k).z)))

    def evs(it, kind, scope="all"):
        tr = it.ctx.trace
        if scope == "iter":
            marks = [i for i, e in enumerate(tr) if e[0] == "loop-body-start"]
            start = marks[-1] if marks else len(tr)
            tr = tr[start:]
        return [e[1] for e in tr if e[0] == kind]

    for scope, pre in (("all", ""), ("iter", "iter_")):
        sf[pre + "n_fires"] = (lambda sc: lambda it: VInt(len(evs(it, "fire", sc))))(scope)
        sf[pre + "n_writes"] = (lambda sc: lambda it: VInt(len(evs(it, "fwrite", sc))))(scope)

        def nth(kind, idx, sc):
            def f(it, k):
                es = evs(it, kind, sc)
                k = it.concrete(k)
                if not isinstance(k, int) or not -len(es) <= k < len(es):
                    return NONE
                return es[k][idx]
            return f

        sf[pre + "fire_target"] = nth("fire", 0, scope)
        sf[pre + "fire_value"] = nth("fire", 2, scope)
        sf[pre + "write_arg"] = nth("fwrite", 1, scope)
        sf[pre + "write_file"] = nth("fwrite", 0, scope)

        def fire_kind(sc):
            def f(it, k):
                es = evs(it, "fire", sc)
                k = it.concrete(k)
                if not isinstance(k, int) or not -len(es) <= k < len(es):
                    return NONE
                return VStr(es[k][1])
            return f

        sf[pre + "fire_kind"] = fire_kind(scope)

    def fire_value_class(it, k):
        es = evs(it, "fire")
        k = it.concrete(k)
        if not isinstance(k, int) or not -len(es) <= k < len(es):
            return NONE
        v = es[k][2]
        return VStr(v.cls if isinstance(v, VObj) else type(v).__name__)

    sf["fire_value_class"] = fire_value_class
    sf["all_fires_are"] = lambda it, kind: VBool(all(e[1] == it.concrete(kind) for e in evs(it, "fire")))
    sf["cb_n"] = lambda it: VInt(len(evs(it, "cbcall")))

    def cb_part(idx):
        def f(it, k):
            es = evs(it, "cbcall")
            k = it.concrete(k)
            if not isinstance(k, int) or not -len(es) <= k < len(es):
                return NONE
            return es[k][0] if idx == 0 else es[k][1][0]
        return f

    sf["cb_callee"] = cb_part(0)
    sf["cb_arg"] = cb_part(1)

    def call_seq(it):
        return VList([VStr(e[1][0].split(".")[-1].split(":")[-1]) for e in it.ctx.trace if e[0] == "call"])

    sf["call_seq"] = call_seq

    def ret_seq(it):
        return VList([VStr(e[1][0].split(".")[-1].split(":")[-1]) for e in it.ctx.trace if e[0] == "callret"])

    sf["ret_seq"] = ret_seq


def sview(v):
    return c05.sview(v)


# ------------------------------------------------------------------ (P) transit.Connection
CONN = {"_consumer": "opt[obj[FileConsumer]]", "_consumer_bytes_written": "int", "_consumer_bytes_expected": "opt[int]",
        "_consumer_deferred": "opt[opaque[Deferred]]"}
CONN_Q = dict(CONN, _inbound_records="seq[bytes]")
CONN_ALL = dict(CONN_Q, _waiting_reads="seq[opaque[Deferred]]", _negotiation_d="opt[opaque[Deferred]]", _error="opt[obj[SomeError]]")
CONN_MOD = list(CONN)
# what Connection keeps true between calls (each function below requires and re-establishes it)
ATTACHED_OK = ["self._consumer is None or self._consumer._producer is not None",
               "(self._consumer_bytes_expected is None) == (self._consumer_deferred is None)",
               "self._consumer is not None or self._consumer_deferred is None"]
FIRE_NOW = "reached(old(self._consumer_bytes_written) + len(record), old(self._consumer_bytes_expected))"

P_CONTRACTS = [
    Contract(f"{TRANSIT}:FileConsumer.write", props=[PROP], params={"bytes": "bytes"},
             self_fields={"_f": "obj[File]", "_progress": "opt[callable]", "_hasher": "opt[callable]", "_producer": "opt[obj[Producer]]"},
             internal_ensures=[
                 ("writes-exactly-these-bytes-once", "n_writes() == 1 and write_arg(0) == bytes and write_file(0) is self._f"),
                 ("hashes-the-same-bytes", "implies(self._hasher is not None, cb_callee(-1) == self._hasher and cb_arg(-1) == bytes)"),
                 ("counts-the-same-bytes", "implies(self._progress is not None, cb_callee(0) == self._progress and cb_arg(0) == len(bytes))"),
                 ("nothing-else", "cb_n() == ite(self._progress is not None, 1, 0) + ite(self._hasher is not None, 1, 0)")],
             note="FileConsumer.write: writes, counts and hashes the same bytes"),
    Contract(f"{TRANSIT}:Connection._writeToConsumer", props=[PROP], params={"record": "bytes"}, self_fields=CONN,
             requires=["self._consumer is not None"] + ATTACHED_OK, modifies=CONN_MOD,
             ensures=[("counts-exactly-the-bytes-of-the-record",
                       "self._consumer_bytes_written == old(self._consumer_bytes_written) + len(record)")] +
                     [(f"keeps-{i}", x) for i, x in enumerate(ATTACHED_OK)] + [
                 ("detached-exactly-when-the-count-is-reached",
                  f"(self._consumer is None) == {FIRE_NOW}"),
                 ("expectation-kept-while-attached",
                  "imp(self._consumer is not None, self._consumer_bytes_expected == old(self._consumer_bytes_expected) and "
                  "self._consumer_deferred == old(self._consumer_deferred))")],
             internal_ensures=[
                 ("writes-exactly-this-record-once", "n_writes() == 1 and write_arg(0) == record"),
                 ("fires-iff-the-count-reaches-the-expectation", f"n_fires() == ite({FIRE_NOW}, 1, 0)"),
                 ("fires-the-consumer-deferred-with-the-count",
                  "implies(n_fires() == 1, fire_kind(0) == 'callback' and fire_target(0) == old(self._consumer_deferred) and "
                  "fire_value(0) == self._consumer_bytes_written and reached(fire_value(0), old(self._consumer_bytes_expected)))")],
             note="the Deferred fires with n only when n >= expected, n the running sum of len(record)"),
    Contract(f"{TRANSIT}:Connection.disconnectConsumer", props=[PROP], params={}, self_fields=CONN,
             requires=["self._consumer is not None", "self._consumer._producer is not None"], modifies=CONN_MOD,
             ensures=[("detached", "self._consumer is None and self._consumer_bytes_expected is None and self._consumer_deferred is None"),
                      ("count-kept", "self._consumer_bytes_written == old(self._consumer_bytes_written)")],
             internal_ensures=[("silent", "n_writes() == 0 and n_fires() == 0")]),
    Contract(f"{TRANSIT}:Connection.connectConsumer", props=[PROP], params={"consumer": "obj[FileConsumer]", "expected": "opt[int]"},
             self_fields=CONN_Q, modifies=CONN_MOD + ["_inbound_records"], returns="opt[opaque[Deferred]]",
             requires=ATTACHED_OK + ["consumer._producer is None"],
             raises_exactly={"RuntimeError": "self._consumer is not None"},
             ensures=[("a-deferred-iff-an-expectation", "(result is None) == (expected is None)"),
                      ("pending-records-are-drained-before-the-consumer-takes-over",
                       "self._consumer is None or len(self._inbound_records) == 0")] +
                     [(f"keeps-{i}", x) for i, x in enumerate(ATTACHED_OK)] + [
                 ("while-attached-the-deferred-is-the-returned-one",
                  "imp(self._consumer is not None, self._consumer_deferred == result and self._consumer_bytes_expected == expected)")],
             internal_ensures=[
                 ("zero-expected-fires-at-once-with-zero",
                  "implies(expected is not None and expected == 0, n_fires() == 1 and fire_kind(0) == 'callback' and "
                  "fire_target(0) == result and fire_value(0) == 0 and self._consumer is None)")],
             loops={0: {"header": "self._consumer and self._inbound_records",
                        "modifies": [("local", "consumer", "_producer")],
                        "invariant": ATTACHED_OK + [
                            "self._consumer is None or (self._consumer_deferred == d and self._consumer_bytes_expected == expected)",
                            "(d is None) == (expected is None)"],
                        "body_ensures": [
                            "iter_n_writes() == 1 and iter_write_arg(0) == at_iter(self._inbound_records)[0]",
                            "self._inbound_records == at_iter(self._inbound_records)[1:]",
                            "self._consumer_bytes_written == at_iter(self._consumer_bytes_written) + len(at_iter(self._inbound_records)[0])",
                            "iter_n_fires() == ite(reached(self._consumer_bytes_written, expected), 1, 0)",
                            "implies(iter_n_fires() == 1, iter_fire_kind(0) == 'callback' and iter_fire_target(0) == d and "
                            "iter_fire_value(0) == self._consumer_bytes_written and self._consumer is None)"]}},
             note="each drained record: written in queue order, counted, and the Deferred fired (with the count) exactly when "
                  "the count reaches `expected`; nothing is written once it fired"),
    Contract(f"{TRANSIT}:Connection._deliverRecords", props=[PROP], params={},
             self_fields={"_inbound_records": "seq[bytes]", "_waiting_reads": "seq[opaque[Deferred]]"},
             modifies=["_inbound_records", "_waiting_reads"],
             ensures=[("one-side-empty", "len(self._inbound_records) == 0 or len(self._waiting_reads) == 0")],
             internal_ensures=[("no-consumer-write", "n_writes() == 0")],
             loops={0: {"header": "self._inbound_records and self._waiting_reads", "invariant": ["n_writes() == 0"],
                        "body_ensures": ["iter_n_writes() == 0"]}}),
    Contract(f"{TRANSIT}:Connection.recordReceived", props=[PROP], params={"record": "bytes"}, self_fields=CONN_ALL,
             requires=ATTACHED_OK, modifies=CONN_MOD + ["_inbound_records", "_waiting_reads"],
             ensures=[(f"keeps-{i}", x) for i, x in enumerate(ATTACHED_OK)] + [
                 ("with-a-consumer-the-record-is-not-queued",
                  "imp(old(self._consumer) is not None, self._inbound_records == old(self._inbound_records))")],
             internal_ensures=[
                 ("with-a-consumer-the-record-goes-to-it-exactly-once",
                  "implies(old(self._consumer) is not None, n_writes() == 1 and write_arg(0) == record)"),
                 ("without-a-consumer-nothing-is-written", "implies(old(self._consumer) is None, n_writes() == 0 and n_fires() == 0)")]),
    Contract(f"{TRANSIT}:Connection.connectionLost", props=[PROP], params={"reason": "opaque[Reason]"}, self_fields=CONN_ALL,
             modifies=["_waiting_reads", "_negotiation_d"],
             internal_ensures=[
                 ("an-outstanding-consumer-deferred-gets-the-errback",
                  "implies(self._consumer_deferred is not None, n_fires() >= 1 and fire_kind(-1) == 'errback' and "
                  "fire_target(-1) == self._consumer_deferred and fire_value_class(-1) == 'error.ConnectionClosed')"),
                 ("nobody-is-told-success", "all_fires_are('errback')")],
             loops={0: {"header": "self._waiting_reads", "invariant": ["all_fires_are('errback')"],
                        "body_ensures": ["iter_n_fires() == 1 and iter_fire_kind(0) == 'errback'"]}},
             note="connection lost while the writeToFile Deferred is outstanding => errback(ConnectionClosed), never a callback"),
    Contract(f"{TRANSIT}:Connection.writeToFile", props=[PROP],
             params={"f": "obj[File]", "expected": "opt[int]", "progress": "opt[callable]", "hasher": "opt[callable]"},
             self_fields=CONN_Q, modifies=CONN_MOD + ["_inbound_records"], returns="opt[opaque[Deferred]]",
             requires=ATTACHED_OK, raises_exactly={"RuntimeError": "self._consumer is not None"},
             ensures=[("a-deferred-iff-an-expectation", "(result is None) == (expected is None)"),
                      ("pending-records-are-drained-before-the-consumer-takes-over",
                       "self._consumer is None or len(self._inbound_records) == 0"),
                      ("the-consumer-writes-to-f-and-feeds-the-given-hasher",
                       "implies(self._consumer is not None, self._consumer._f is f and self._consumer._hasher == hasher "
                       "and self._consumer._progress == progress)")],
             note="FileConsumer(f, progress, hasher) + connectConsumer (inlined, with its loop invariant)"),
]
P_INLINE = {f"{TRANSIT}:FileConsumer.write", f"{TRANSIT}:Connection.disconnectConsumer"}


def regf_p(inline_extra=()):
    reg = make_registry()
    install_trace_funcs(reg)
    register_classes(reg, ["wormhole/errors.py", TRANSIT])
    install_common(reg)
    reg.class_fields["FileConsumer"] = {"_f": "obj[File]", "_progress": "opt[callable]", "_hasher": "opt[callable]",
                                        "_producer": "opt[obj[Producer]]"}
    reg.class_fields["File"] = {"name": "str"}
    for c in P_CONTRACTS:
        c2 = copy.copy(c)
        c2.inline = c.target in P_INLINE or c.target in inline_extra
        reg.contracts[c.target] = c2
    return reg


def regf_p_w2c():
    """inside connectConsumer/recordReceived, _writeToConsumer is inlined: its events are what their clauses talk about"""
    return regf_p(inline_extra=(f"{TRANSIT}:Connection._writeToConsumer",))


def regf_p_all():
    return regf_p(inline_extra=(f"{TRANSIT}:Connection._writeToConsumer", f"{TRANSIT}:Connection.connectConsumer"))


def tasks():
    out = []
    for c in P_CONTRACTS:
        inl = c.target.endswith(("connectConsumer", "recordReceived"))
        out.append(ContractTask(c, regf_p_all if c.target.endswith("writeToFile") else regf_p_w2c if inl else regf_p))
    return out


CONTRACTS = P_CONTRACTS
TRUSTED = []
ASSUMPTIONS = []
