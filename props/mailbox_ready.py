"""switch: are the machine-level (mailbox-cluster engine) obligations part of the registered checks yet?"""
CLUSTER_READY = True
