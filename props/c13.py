"""C13 - subchannels open once, close once, and honour the subprotocol contract.

Reading of the statement, per end of one subchannel (SubChannel, 7 Automat states):
  W(s) "write side open"  = s in {open_full, open_half, read_closed}
  R(s) "read side open"   = s in {open_full, open_half, closing, write_closed}
Every input is verified, from EVERY state, through the real transition table against the same
clauses (SC_CLAUSES): CLOSE is sent exactly when W goes from true to false; the read-side loss
(connectionLost, or readConnectionLost for IHalfCloseableProtocol) is signalled exactly when R goes
from true to false; W and R never come back; `closed` is absorbing and silent; dataReceived only
while R; send_data only while W; the manager is told (subchannel_closed) exactly on entering closed.
Summed over any history this is "connectionLost exactly once, nothing after it, an error when
writing after close, exactly one CLOSE after every DATA".
"""
import z3

from pyvc.contract import Contract
from pyvc.runner import ContractTask
from pyvc.automat import AutomatSupport
from pyvc.values import *   # noqa
from pyvc import values
from pyvc.models import uf
from .common import make_registry, install_trace_funcs, register_classes

PROP = "C13"

SUB = "wormhole/_dilation/subchannel.py"
INB = "wormhole/_dilation/inbound.py"
MGR = "wormhole/_dilation/manager.py"

values.NT_DEFS.setdefault("SubchannelAddress", [("subprotocol", "str")])

MAX_FRAME_LENGTH = 2 ** 32 - 1 - 9 - 16

# ------------------------------------------------------------------ registry
SC_CALLS = ("dataReceived", "connectionLost", "readConnectionLost", "writeConnectionLost",
            "send_data", "send_close", "subchannel_closed")


def _half_fn():
    return uf("provides_IHalfCloseableProtocol", opaque_sort("Protocol"), BoolS)


def _is_half_z(it, p):
    """z3 Bool: IHalfCloseableProtocol.providedBy(p) (False for None, as zope answers)"""
    if isinstance(p, VOpt):
        return z3.And(z3.Not(p.isnone), _is_half_z(it, p.inner))
    if p is NONE:
        return z3.BoolVal(False)
    if isinstance(p, VOpaque) and p.name == "Protocol":
        return _half_fn()(p.z)
    raise OutOfSubset(f"IHalfCloseableProtocol.providedBy({p!r})")


def install_twisted(reg):
    em = reg.ext_models

    def connection_done(it, args, kw):
        return VObj("ConnectionDone", {"args": VTuple(list(args))})

    em["twisted.internet.error.ConnectionDone"] = connection_done

    def provided_by(it, args, kw):
        return VBool(_is_half_z(it, args[0]))

    def adapt(it, args, kw):
        # zope adaptation IFoo(x): x itself when it provides the interface, TypeError otherwise
        p = it.force(args[0])
        if it.ctx.branch(z3.Not(_is_half_z(it, p)), "adapt-fails"):
            it.raise_("TypeError", VStr("Could not adapt"))
        return p

    em["twisted.internet.interfaces.IHalfCloseableProtocol.providedBy"] = provided_by
    em["twisted.internet.interfaces.IHalfCloseableProtocol"] = adapt
    # ISubChannel.providedBy(x): true of SubChannel instances (the class is declared @implementer(ISubChannel))
    em["classattr:ISubChannel.providedBy"] = lambda it: VExt("wormhole._interfaces.ISubChannel.providedBy")
    em["wormhole._interfaces.ISubChannel.providedBy"] = lambda it, args, kw: VBool(
        (isinstance(it.force(args[0]), VOpaque) and it.force(args[0]).name == "SubChannel") or
        (isinstance(it.force(args[0]), VObj) and it.force(args[0]).cls == "SubChannel"))
    em["collections.defaultdict"] = lambda it, args, kw: VDict({})
    em["twisted.internet.defer.Deferred"] = lambda it, args, kw: VObj("Deferred")


def allows(it, expected, name):
    """the application's declaration admits this subprotocol name: no set declared, or the name is in it"""
    if expected is NONE:
        return VBool(True)
    if isinstance(expected, VOpt):
        return VBool(z3.Or(expected.isnone, z3.Select(expected.inner.z, name.z)))
    return VBool(z3.Select(expected.z, name.z))


def install_spec(reg):
    sf = reg.spec_funcs

    def st(it, o):
        o = it.force(o)
        return o.fields["__state"].z

    def in_states(it, o, names):
        o = it.force(o)
        m = it.reg.automat.machine_of(it.reg.repo_classes[o.cls])
        return z3.Or([st(it, o) == m.index(n) for n in names])

    sf["state_of"] = lambda it, o: VInt(st(it, o))
    sf["w_open"] = lambda it, o: VBool(in_states(it, o, ["open_full", "open_half", "read_closed"]))
    sf["r_open"] = lambda it, o: VBool(in_states(it, o, ["open_full", "open_half", "closing", "write_closed"]))
    sf["is_half"] = lambda it, p: VBool(_is_half_z(it, p))

    def sc_inv(it, o):
        """representation invariant of SubChannel: a protocol is attached exactly outside `unconnected`
        and the flow (half-closeable / plain) matches what the protocol provides"""
        o = it.force(o)
        p = o.fields["_protocol"]
        half = _is_half_z(it, p)
        none = it.same(p, NONE)
        return VBool(z3.And(in_states(it, o, ["unconnected"]) == none,
                            z3.Implies(in_states(it, o, ["open_half", "read_closed", "write_closed"]), half),
                            z3.Implies(in_states(it, o, ["open_full", "closing"]), z3.Not(half))))

    sf["sc_inv"] = sc_inv

    sf["allows"] = allows

    def iter_bcall_arg(it, name, i):
        """argument i of THE boundary call made in the current loop iteration; proves that the
        iteration made exactly one boundary call and that it is `name`"""
        name, i = it.concrete(name), it.concrete(i)
        tr = it.ctx.trace
        start = max([k for k, e in enumerate(tr) if e[0] == "loop-body-start"] + [-1])
        evs = [e for e in tr[start + 1:] if e[0] == "bcall"]
        ok = len(evs) == 1 and evs[0][1][1] == name
        it.ctx.prove(z3.BoolVal(ok), f"exactly-one[{name}]-per-iteration",
                     {"kind": "trace", "definite": True,
                      "src": f"each iteration makes exactly one boundary call, {name} (found {[e[1][1] for e in evs]})"})
        if not ok:
            raise OutOfSubset("iteration does not make the single expected call")   # the obligation above already failed
        return evs[0][1][2][i]

    sf["iter_bcall_arg"] = iter_bcall_arg

    def bcall_kwarg(it, name, k, key):
        name, k, key = it.concrete(name), it.concrete(k), it.concrete(key)
        evs = [e for e in it.ctx.trace if e[0] == "bcall" and e[1][1] == name]
        if k >= len(evs) or key not in evs[k][1][3]:
            return VObj("<missing>")
        return evs[k][1][3][key]

    sf["bcall_kwarg"] = bcall_kwarg

    def bcall_recv(it, name, k):
        name, k = it.concrete(name), it.concrete(k)
        evs = [e for e in it.ctx.trace if e[0] == "bcall" and e[1][1] == name]
        if k >= len(evs) or "recv" not in evs[k][2]:
            return VObj("<missing>")
        return evs[k][2]["recv"]

    sf["bcall_recv"] = bcall_recv

    def last_bcall(it):
        evs = [e for e in it.ctx.trace if e[0] == "bcall"]
        return VStr(evs[-1][1][1] if evs else "")

    sf["last_bcall"] = last_bcall

    def iter_call_arg(it, suffix, i):
        """argument i of THE call (by contract) of a function named ...suffix in the current loop
        iteration; proves there is exactly one such call in the iteration"""
        suffix, i = it.concrete(suffix), it.concrete(i)
        tr = it.ctx.trace
        start = max([k for k, e in enumerate(tr) if e[0] == "loop-body-start"] + [-1])
        evs = [e for e in tr[start + 1:] if e[0] == "call" and e[1][0].endswith(suffix)]
        it.ctx.prove(z3.BoolVal(len(evs) == 1), f"exactly-one[{suffix}]-per-iteration",
                     {"kind": "trace", "definite": True,
                      "src": f"each iteration calls {suffix} exactly once (found {len(evs)})"})
        if len(evs) != 1:
            raise OutOfSubset("iteration does not make the single expected call")
        return evs[0][1][1][i]

    sf["iter_call_arg"] = iter_call_arg

    def news(it, clsname):
        clsname = it.concrete(clsname)
        return VInt(sum(1 for e in it.ctx.trace if e[0] == "new" and e[1][0] == clsname))

    sf["news"] = news

    def new_field(it, clsname, k, field):
        clsname, k, field = it.concrete(clsname), it.concrete(k), it.concrete(field)
        evs = [e for e in it.ctx.trace if e[0] == "new" and e[1][0] == clsname]
        if k >= len(evs) or field not in evs[k][1][1]:
            return VObj("<missing>")
        return evs[k][1][1][field]

    sf["new_field"] = new_field

    def new_obj(it, clsname, k):
        clsname, k = it.concrete(clsname), it.concrete(k)
        evs = [e for e in it.ctx.trace if e[0] == "new" and e[1][0] == clsname]
        if k >= len(evs):
            return VObj("<missing>")
        return evs[k][1][2]

    sf["new_obj"] = new_obj

    def n_calls(it, suffix):
        suffix = it.concrete(suffix)
        return VInt(sum(1 for e in it.ctx.trace if e[0] == "call" and e[1][0].endswith(suffix)))

    sf["n_calls"] = n_calls

    def call_arg(it, suffix, k, i):
        suffix, k, i = it.concrete(suffix), it.concrete(k), it.concrete(i)
        evs = [e for e in it.ctx.trace if e[0] == "call" and e[1][0].endswith(suffix)]
        if k >= len(evs):
            return VObj("<missing>")
        return evs[k][1][1][i]

    sf["call_arg"] = call_arg


def recording_boundary(it, recv, meth, args, kwargs, fr):
    """generic boundary call, with the receiver kept in the event (bcall_recv)"""
    cls = recv.cls if isinstance(recv, VObj) else recv.name
    it.ctx.event("bcall", cls, meth, list(args), dict(kwargs), recv=recv)
    rt = it.reg.boundary_returns.get(f"{cls}.{meth}") or it.reg.boundary_returns.get(f"*.{meth}")
    if rt is None:
        return NONE
    return it.fresh(rt, f"{cls}_{meth}")


def new_as_boundary(reg, clsname, as_cls=None, fields=None):
    """construction of a collaborator class is a boundary event ("new", class, {attr field: value});
    the object handed back is a boundary object (calls on it are recorded, not executed)"""
    def h(it, cls, args, kwargs):
        cd = cls.cdef
        bound = {}
        names = list(cd.attr_fields) if cd is not None and cd.attr_fields else None
        if names is None and cd is not None and "__init__" in cd.methods:
            names = [a.arg for a in cd.methods["__init__"].node.args.args][1:]
        names = names or []
        for i, a in enumerate(args):
            bound[names[i] if i < len(names) else f"arg{i}"] = a
        for k, v in kwargs.items():
            # attrs strips the leading underscore for the __init__ keyword
            key = k if k in names else ("_" + k if "_" + k in names else k)
            bound[key] = v
        o = VObj(as_cls or (clsname + "B"))
        for f, t in (fields or {}).items():
            o.fields[f] = it.fresh(t, f"{clsname}.{f}")
        it.ctx.event("new", clsname, bound, o)
        return o
    reg.ext_models["new:" + clsname] = h


_TRACE_FN = ("bcalls(", "bcall_arg(", "bcall_recv(", "bcall_names(", "bcall_kwarg(", "bcall_index(", "last_bcall(", "n_calls(",
             "call_arg(", "news(", "new_field(", "new_obj(", "passed(", "sent_type(", "sent_field(", "iter_bcall_arg(",
             "iter_call_arg(", "call_result(", "input_calls(", "input_arg(")


def caller_view(c):
    """what a CALLER may assume of contract c: the clauses about the call trace are dropped, because at a call site the
    trace functions would read the caller's trace (the callee's boundary calls are visible there only through `effects`).
    The full contract is what the callee's own task proves; the view is a subset of its clauses, hence implied."""
    import copy
    v = copy.copy(c)

    def keep(clause):
        src = clause[1] if isinstance(clause, tuple) else clause
        return not (isinstance(src, str) and any(f in src for f in _TRACE_FN))
    v.ensures = [e for e in c.ensures if keep(e)]
    v.ensures_raise = {k: [e for e in cl if keep(e)] for k, cl in c.ensures_raise.items()}
    v.internal_ensures = []
    return v


def base_registry():
    reg = make_registry()
    install_trace_funcs(reg)
    register_classes(reg, ["wormhole/errors.py", SUB, INB])
    reg.automat = AutomatSupport()
    reg.automat.notransition_raises = True
    reg.boundary["*.*"] = recording_boundary
    reg.boundary_returns["Factory.buildProtocol"] = "opaque[Protocol]"
    reg.class_fields["ManagerB"] = {"_subprotocol_factories": "obj[SubchannelDemultiplex]"}
    reg.class_fields["SubchannelDemultiplex"] = dict(DEMUX_FIELDS)
    # inside Inbound a SubChannel is a collaborator: its construction is a boundary event and the handle is opaque
    def new_subchannel(it, cls, args, kwargs):
        names = list(cls.cdef.attr_fields)
        o = it.fresh("opaque[SubChannel]", "new_subchannel")
        it.ctx.event("new", "SubChannel", {names[i]: a for i, a in enumerate(args)}, o)
        return o
    reg.ext_models["new:SubChannel"] = new_subchannel
    # attrs value class with one str field: modelled as a named tuple (structural equality)
    reg.ext_models["new:SubchannelAddress"] = lambda it, cls, args, kwargs: VTuple(
        [args[0] if args else kwargs["subprotocol"]], "SubchannelAddress", ["subprotocol"])
    install_twisted(reg)
    install_spec(reg)
    return reg


def regf():
    reg = base_registry()
    for c in CONTRACTS:
        reg.contracts[c.target] = caller_view(c)
    return reg


# ------------------------------------------------------------------ SubChannel
SC_FIELDS = {"__state": "state", "_scid": "int", "_manager": "obj[ManagerB]", "_protocol": "opt[opaque[Protocol]]",
             "_pending_remote_data": "seq[bytes]", "_pending_remote_close": "bool"}

_ALL = ", ".join(repr(n) for n in SC_CALLS)


def sc_clauses(inp):
    """the lifecycle clauses, identical for every input (inp only says which of the two data-carrying
    inputs this is)"""
    is_rd = "True" if inp == "remote_data" else "False"
    is_ld = "True" if inp == "local_data" else "False"
    connect = inp in ("connect_protocol_half", "connect_protocol_full", "_set_protocol")
    cl = [
        ("CLOSE-sent-exactly-when-write-side-closes",
         "bcalls('send_close') == ite(old(w_open(self)) and not w_open(self), 1, 0)"),
        ("CLOSE-names-this-subchannel",
         "bcalls('send_close') == 0 or bcall_arg('send_close', 0, 0) == self._scid"),
        ("read-loss-signalled-exactly-when-read-side-closes",
         "bcalls('connectionLost') + bcalls('readConnectionLost') == ite(old(r_open(self)) and not r_open(self), 1, 0)"),
        ("connectionLost-exactly-on-entering-closed-plain-protocol",
         "bcalls('connectionLost') == ite(old(in_state(self, 'open_full', 'closing')) and in_state(self, 'closed'), 1, 0)"),
        ("writeConnectionLost-exactly-when-half-closeable-write-side-closes",
         "bcalls('writeConnectionLost') == ite(old(in_state(self, 'open_half', 'read_closed')) and not w_open(self), 1, 0)"),
        ("dataReceived-only-inbound-data-while-read-side-open",
         f"bcalls('dataReceived') == ite({is_rd} and old(r_open(self)), 1, 0)"),
        ("DATA-sent-only-for-a-write-while-write-side-open",
         f"bcalls('send_data') == ite({is_ld} and old(w_open(self)), 1, 0)"),
        ("manager-told-exactly-on-entering-closed",
         "bcalls('subchannel_closed') == ite(in_state(self, 'closed') and not old(in_state(self, 'closed')), 1, 0)"),
        ("manager-told-which-subchannel",
         "bcalls('subchannel_closed') == 0 or (bcall_arg('subchannel_closed', 0, 0) == self._scid and "
         "bcall_arg('subchannel_closed', 0, 1) is self)"),
        ("no-other-callback", f"len(bcall_names()) == bcalls({_ALL})"),
        ("callbacks-go-to-the-attached-protocol",
         "(bcalls('dataReceived') == 0 or bcall_recv('dataReceived', 0) == self._protocol) and "
         "(bcalls('connectionLost') == 0 or bcall_recv('connectionLost', 0) == self._protocol) and "
         "(bcalls('readConnectionLost') == 0 or bcall_recv('readConnectionLost', 0) == self._protocol) and "
         "(bcalls('writeConnectionLost') == 0 or bcall_recv('writeConnectionLost', 0) == self._protocol)"),
        ("read-side-callbacks-are-the-last-thing-the-input-does",
         "bcalls('dataReceived', 'connectionLost', 'readConnectionLost') == 0 or "
         "last_bcall() in ('dataReceived', 'connectionLost', 'readConnectionLost')"),
        ("write-side-never-reopens", "not w_open(self) or old(w_open(self)) or old(in_state(self, 'unconnected'))"),
        ("read-side-never-reopens", "not r_open(self) or old(r_open(self)) or old(in_state(self, 'unconnected'))"),
        ("closed-is-absorbing", "not old(in_state(self, 'closed')) or in_state(self, 'closed')"),
        ("nothing-after-closed", "not old(in_state(self, 'closed')) or len(bcall_names()) == 0"),
        ("representation-invariant-kept", "sc_inv(self)"),
    ]
    if not connect:
        cl.append(("unconnected-only-left-by-attaching-a-protocol",
                   "old(in_state(self, 'unconnected')) == in_state(self, 'unconnected')"))
    return cl


SILENT = [("nothing-signalled-or-sent", "len(bcall_names()) == 0")]

SC_CONTRACTS = [
    Contract(f"{SUB}:SubChannel.remote_data", props=[PROP], params={"data": "bytes"}, self_fields=SC_FIELDS,
             requires=["sc_inv(self)"], modifies=["_pending_remote_data"],
             raises_exactly={"NoTransition": "in_state(self, 'read_closed', 'closed')"},
             ensures_raise={"NoTransition": SILENT},
             ensures=sc_clauses("remote_data") + [
                 ("delivered-unchanged-now-when-connected",
                  "not old(r_open(self)) or (bcall_arg('dataReceived', 0, 0) == data and "
                  "self._pending_remote_data == old(self._pending_remote_data))"),
                 ("queued-in-order-before-a-protocol-is-attached",
                  "not old(in_state(self, 'unconnected')) or self._pending_remote_data == old(self._pending_remote_data) + [data]")],
             note="DATA for this subchannel: delivered at once while the read side is open, queued FIFO before a protocol "
                  "is attached, NoTransition (nothing delivered) after the peer's CLOSE / after closed"),
    Contract(f"{SUB}:SubChannel.remote_close", props=[PROP], params={}, self_fields=SC_FIELDS,
             requires=["sc_inv(self)"], modifies=["__state", "_pending_remote_close"],
             raises_exactly={"NoTransition": "in_state(self, 'read_closed', 'closed')"},
             ensures_raise={"NoTransition": SILENT},
             ensures=sc_clauses("remote_close") + [
                 ("read-side-closed-unless-queued", "old(in_state(self, 'unconnected')) or not r_open(self)"),
                 ("queued-before-a-protocol-is-attached",
                  "self._pending_remote_close == (old(self._pending_remote_close) or old(in_state(self, 'unconnected')))")],
             note="the peer's CLOSE: a second CLOSE has no row (NoTransition, nothing signalled)"),
    Contract(f"{SUB}:SubChannel.local_data", props=[PROP], params={"data": "bytes"}, self_fields=SC_FIELDS,
             requires=["sc_inv(self)"], modifies=[],
             raises_exactly={"AlreadyClosedError": "in_state(self, 'closing', 'write_closed')",
                             "NoTransition": "in_state(self, 'unconnected', 'closed')"},
             ensures_raise={"AlreadyClosedError": SILENT, "NoTransition": SILENT},
             ensures=sc_clauses("local_data") + [
                 ("the-bytes-written", "bcall_arg('send_data', 0, 0) == self._scid and bcall_arg('send_data', 0, 1) == data")],
             note="a write after the local close is an error and sends nothing (AlreadyClosedError while waiting for the "
                  "peer's CLOSE, automat.NoTransition once fully closed or before a protocol is attached)"),
    Contract(f"{SUB}:SubChannel.local_close", props=[PROP], params={}, self_fields=SC_FIELDS,
             requires=["sc_inv(self)"], modifies=["__state"],
             raises_exactly={"AlreadyClosedError": "in_state(self, 'closing', 'write_closed')",
                             "NoTransition": "in_state(self, 'unconnected')"},
             ensures_raise={"AlreadyClosedError": SILENT, "NoTransition": SILENT},
             ensures=sc_clauses("local_close") + [("write-side-closed", "not w_open(self)")],
             note="exactly one CLOSE per subchannel end: sent when the write side closes, never again"),
    Contract(f"{SUB}:SubChannel._set_protocol", props=[PROP], params={"protocol": "opaque[Protocol]"}, self_fields=SC_FIELDS,
             requires=["sc_inv(self)"], modifies=["__state", "_protocol"],
             raises_exactly={"AssertionError": "self._protocol is not None"},
             ensures_raise={"AssertionError": SILENT},
             ensures=sc_clauses("_set_protocol") + SILENT + [
                 ("attached", "self._protocol == protocol"),
                 ("flow-matches-the-protocol", "in_state(self, 'open_half') == is_half(protocol) and "
                                               "in_state(self, 'open_full') == (not is_half(protocol))")],
             note="a protocol is attached at most once; the flow is chosen by IHalfCloseableProtocol.providedBy"),
    Contract(f"{SUB}:SubChannel._deliver_queued_data", props=[PROP], params={}, self_fields=SC_FIELDS,
             requires=["sc_inv(self)", "r_open(self)"],
             modifies=["__state", "_pending_remote_data", "_pending_remote_close"],
             internal_ensures=[
                 ("queued-data-delivered-in-arrival-order",
                  "len(delivered) == len(old(self._pending_remote_data)) and forall(lambda j: implies(0 <= j and "
                  "j < len(delivered), delivered[j] == old(self._pending_remote_data)[j]))"),
                 ("then-the-queued-close-and-only-if-queued",
                  "bcalls('connectionLost') + bcalls('readConnectionLost') == ite(old(self._pending_remote_close), 1, 0)"),
                 ("nothing-delivered-after-the-close", "bcalls('dataReceived') == 0"),
                 ("read-side-closed-iff-close-was-queued", "r_open(self) == (not old(self._pending_remote_close))"),
                 ("state-kept-without-queued-close",
                  "old(self._pending_remote_close) or state_of(self) == old(state_of(self))"),
                 ("representation-invariant-kept", "sc_inv(self)")],
             loops={0: {"header": "for data in self._pending_remote_data",
                        "modifies": [("self", "__state"), ("self", "_pending_remote_data"), ("self", "_pending_remote_close"),
                                     ("self", "_protocol"), ("self", "_scid")],
                        "ghost_init": {"delivered": 'empty_seq("bytes")'},
                        "ghost_update": {"delivered": "delivered + [iter_bcall_arg('dataReceived', 0)]"},
                        "invariant": ["state_of(self) == at_entry(state_of(self))",
                                      "self._pending_remote_data == at_entry(self._pending_remote_data)",
                                      "self._pending_remote_close == at_entry(self._pending_remote_close)",
                                      "self._protocol == at_entry(self._protocol)",
                                      "self._scid == at_entry(self._scid)",
                                      "len(delivered) == _i",
                                      "forall(lambda j: implies(0 <= j and j < _i, delivered[j] == self._pending_remote_data[j]))"]}},
             note="what arrived before the listener existed reaches the protocol in order, data first, then the close "
                  "(ghost `delivered` = sequence of dataReceived arguments; one dataReceived per loop iteration)"),
    Contract(f"{SUB}:SubChannel.write", props=[PROP], params={"data": "bytes"}, self_fields=SC_FIELDS,
             requires=["sc_inv(self)"], modifies=[],
             raises_exactly={"AssertionError": f"len(data) > {MAX_FRAME_LENGTH}",
                             "AlreadyClosedError": f"len(data) <= {MAX_FRAME_LENGTH} and in_state(self, 'closing', 'write_closed')",
                             "NoTransition": f"len(data) <= {MAX_FRAME_LENGTH} and in_state(self, 'unconnected', 'closed')"},
             ensures_raise={"AssertionError": SILENT, "AlreadyClosedError": SILENT, "NoTransition": SILENT},
             ensures=[("one-DATA-with-these-bytes", "len(bcall_names()) == 1 and bcalls('send_data') == 1 and "
                                                    "bcall_arg('send_data', 0, 0) == self._scid and bcall_arg('send_data', 0, 1) == data")],
             note="ITransport.write: error when writing after close (statement), otherwise exactly one DATA"),
    Contract(f"{SUB}:SubChannel.loseConnection", props=[PROP], params={}, self_fields=SC_FIELDS,
             requires=["sc_inv(self)"], modifies=["__state"],
             raises_exactly={"NormalCloseUsedOnHalfCloseable": "is_half(self._protocol)",
                             "AlreadyClosedError": "in_state(self, 'closing')",
                             "NoTransition": "in_state(self, 'unconnected')"},
             ensures_raise={"NormalCloseUsedOnHalfCloseable": SILENT, "AlreadyClosedError": SILENT, "NoTransition": SILENT},
             ensures=[("one-CLOSE-iff-the-write-side-was-open",
                       "bcalls('send_close') == ite(old(w_open(self)), 1, 0) and not w_open(self)"),
                      ("no-callback-into-the-protocol", "len(bcall_names()) == bcalls('send_close')")],
             note="ITransport.loseConnection on a plain protocol: second call is an error, after closed it is a no-op"),
    Contract(f"{SUB}:SubChannel.loseWriteConnection", props=[PROP], params={}, self_fields=SC_FIELDS,
             requires=["sc_inv(self)"], modifies=["__state"],
             raises_exactly={"HalfCloseUsedOnNonHalfCloseable": "not is_half(self._protocol)",
                             "AlreadyClosedError": "in_state(self, 'write_closed')"},
             ensures_raise={"HalfCloseUsedOnNonHalfCloseable": SILENT, "AlreadyClosedError": SILENT},
             ensures=[("one-CLOSE-iff-the-write-side-was-open",
                       "bcalls('send_close') == ite(old(w_open(self)), 1, 0) and not w_open(self)"),
                      ("writeConnectionLost-with-it", "bcalls('writeConnectionLost') == bcalls('send_close')")]),
]


# ------------------------------------------------------------------ SubchannelDemultiplex / Inbound
OPEN_T = "tuple[opaque[SubChannel],nt[SubchannelAddress]]"
DEMUX_FIELDS = {"_factories": "dict[str,opaque[Factory]]", "_pending_opens": f"defaultdict[str,seq[{OPEN_T}]]",
                "_expected": "opt[set[str]]"}
NAME = "peer_addr.subprotocol"
REFUSED = f"({NAME} not in self._factories) and not allows(self._expected, {NAME})"

DEMUX_CONTRACTS = [
    Contract(f"{SUB}:SubchannelDemultiplex._connect", props=[PROP],
             params={"factory": "opaque[Factory]", "t": "opaque[SubChannel]", "peer_addr": "nt[SubchannelAddress]"},
             self_fields=DEMUX_FIELDS, modifies=[],
             effects=[("buildProtocol", ["peer_addr"]), ("_set_protocol", []), ("makeConnection", ["t"]),
                      ("_deliver_queued_data", [])],
             internal_ensures=[
                 ("built-by-the-listener", "bcall_recv('buildProtocol', 0) == factory"),
                 ("that-protocol-attached-to-this-subchannel",
                  "bcall_recv('_set_protocol', 0) == t and bcall_arg('_set_protocol', 0, 0) == p"),
                 ("that-protocol-connected-to-this-subchannel", "bcall_recv('makeConnection', 0) == p"),
                 ("then-queued-inbound-data-delivered", "bcall_recv('_deliver_queued_data', 0) == t")],
             note="one buildProtocol + one makeConnection per OPEN, then whatever arrived early is delivered"),
    Contract(f"{SUB}:SubchannelDemultiplex._got_open", props=[PROP],
             params={"t": "opaque[SubChannel]", "peer_addr": "nt[SubchannelAddress]"},
             self_fields=DEMUX_FIELDS, modifies=["_pending_opens"],
             raises_exactly={"UnexpectedSubprotocol": REFUSED},
             ensures_raise={"UnexpectedSubprotocol": [
                 ("not-held-open", "n_calls('_connect') == 0 and len(bcall_names()) == 0 and "
                                   "forall(lambda k: self._pending_opens[k] == old(self._pending_opens)[k], 'str')")]},
             ensures=[
                 ("listener-present-connected-once-now",
                  f"not old({NAME} in self._factories) or (n_calls('_connect') == 1 and "
                  f"call_arg('_connect', 0, 1) == self._factories[{NAME}] and call_arg('_connect', 0, 2) == t and "
                  "call_arg('_connect', 0, 3) == peer_addr)"),
                 ("listener-present-nothing-queued",
                  f"not old({NAME} in self._factories) or "
                  "forall(lambda k: self._pending_opens[k] == old(self._pending_opens)[k], 'str')"),
                 ("no-listener-queued-last-under-its-name",
                  f"old({NAME} in self._factories) or (n_calls('_connect') == 0 and "
                  f"self._pending_opens[{NAME}] == old(self._pending_opens)[{NAME}] + [(t, peer_addr)])"),
                 ("other-names-untouched",
                  f"forall(lambda k: k == {NAME} or self._pending_opens[k] == old(self._pending_opens)[k], 'str')"),
                 ("only-through-_connect", "len(bcall_names()) == 4 * n_calls('_connect')")],
             note="an OPEN appears exactly once: connected now if a listener exists, otherwise queued (FIFO per name) unless "
                  "the application declared an expected set that does not contain the name: then it is refused"),
    Contract(f"{SUB}:SubchannelDemultiplex.register", props=[PROP],
             params={"subprotocol_name": "str", "factory": "opaque[Factory]"},
             self_fields=DEMUX_FIELDS, modifies=["_factories", "_pending_opens"],
             raises_exactly={"ValueError": "subprotocol_name in self._factories"},
             ensures_raise={"ValueError": [("nothing-connected", "n_calls('_connect') == 0"),
                                           ("listeners-kept", "forall(lambda k: (k in self._factories) == (k in old(self._factories)) and "
                                                             "self._factories[k] == old(self._factories)[k], 'str')"),
                                           ("queue-kept", "forall(lambda k: self._pending_opens[k] == old(self._pending_opens)[k], 'str')")]},
             ensures=[
                 ("listening", "subprotocol_name in self._factories and self._factories[subprotocol_name] == factory"),
                 ("other-listeners-kept",
                  "forall(lambda k: k == subprotocol_name or ((k in self._factories) == (k in old(self._factories)) and "
                  "self._factories[k] == old(self._factories)[k]), 'str')"),
                 ("queue-for-this-name-emptied", "len(self._pending_opens[subprotocol_name]) == 0"),
                 ("other-queues-untouched",
                  "forall(lambda k: k == subprotocol_name or self._pending_opens[k] == old(self._pending_opens)[k], 'str')")],
             internal_ensures=[
                 ("every-queued-open-connected-exactly-once-FIFO",
                  "queued == old(self._pending_opens)[subprotocol_name] and n == len(queued)")],
             loops={0: {"header": "pending", "retype": {"pending": f"seq[{OPEN_T}]"},
                        "ghost_init": {"n": "0", "queued": "pending[:]"},
                        "ghost_update": {"n": "n + 1"},
                        "body_ensures": ["iter_call_arg('_connect', 1) == factory",
                                         "iter_call_arg('_connect', 2) == queued[at_iter(n)][0] and "
                                         "iter_call_arg('_connect', 3) == queued[at_iter(n)][1]"],
                        "invariant": ["queued == at_entry(pending)", "0 <= n and n <= len(queued)",
                                      "pending == queued[n:]"]}},
             note="ghost queued = the opens waiting under this name at entry, n = iterations done: iteration k hands exactly queued[k] to _connect (one call per iteration, loop body clause) and the loop ends at n == len(queued)"),
]

INB_FIELDS = {"_open_subchannels": "dict[int,opaque[SubChannel]]", "_manager": "obj[ManagerB]", "_host_addr": "opaque[Addr]"}
DX = "self._manager._subprotocol_factories"
WILL_REFUSE = f"(subprotocol not in {DX}._factories) and not allows({DX}._expected, subprotocol)"
OTHERS_KEPT = ("forall(lambda k: k == scid or ((k in self._open_subchannels) == (k in old(self._open_subchannels)) and "
               "self._open_subchannels[k] == old(self._open_subchannels)[k]))")

NEWSC0 = "new_obj('SubChannel', 0)"

INB_CONTRACTS = [
    Contract(f"{INB}:Inbound.handle_open", props=[PROP], params={"scid": "int", "subprotocol": "str"},
             self_fields=INB_FIELDS, modifies=["_open_subchannels"],
             ensures=[
                 ("duplicate-OPEN-ignored",
                  "not old(scid in self._open_subchannels) or (news('SubChannel') == 0 and n_calls('_got_open') == 0 and "
                  "len(bcall_names()) == 0 and self._open_subchannels[scid] == old(self._open_subchannels)[scid])"),
                 ("new-OPEN-one-subchannel-offered-once-under-the-requested-name",
                  "old(scid in self._open_subchannels) or (news('SubChannel') == 1 and n_calls('_got_open') == 1 and "
                  "new_field('SubChannel', 0, '_scid') == scid and new_field('SubChannel', 0, '_manager') is self._manager and "
                  "new_field('SubChannel', 0, '_peer_addr').subprotocol == subprotocol and "
                  "call_arg('_got_open', 0, 1) == new_obj('SubChannel', 0) and call_arg('_got_open', 0, 2).subprotocol == subprotocol)"),
                 ("unexpected-subprotocol-refused-by-CLOSE-not-held-open",
                  f"old(scid in self._open_subchannels) or not old({WILL_REFUSE}) or "
                  "(bcalls('send_close') == 1 and bcall_arg('send_close', 0, 0) == scid and len(bcall_names()) == 1 and "
                  "scid not in self._open_subchannels)"),
                 ("otherwise-registered-and-not-closed",
                  f"old(scid in self._open_subchannels) or old({WILL_REFUSE}) or "
                  "(len(bcall_names()) == 0 and scid in self._open_subchannels and "
                  "self._open_subchannels[scid] == new_obj('SubChannel', 0))"),
                 ("a-held-subchannel-starts-unconnected-with-nothing-queued",
                  f"implies(news('SubChannel') == 1 and not old(subprotocol in {DX}._factories) and not old({WILL_REFUSE}), "
                  f"in_state({NEWSC0}, 'unconnected') and sc_inv({NEWSC0}) and {NEWSC0}._protocol is None and "
                  f"len({NEWSC0}._pending_remote_data) == 0 and not {NEWSC0}._pending_remote_close)"),
                 ("other-subchannels-untouched", OTHERS_KEPT)],
             note="the demultiplexer is used through its contract (_got_open): refusal condition and effect are those proved "
                  "there; SubChannel(...) runs the real attrs construction + __attrs_post_init__ (regf_real_subchannel)"),
    Contract(f"{INB}:Inbound.handle_data", props=[PROP], params={"scid": "int", "data": "bytes"},
             self_fields=INB_FIELDS, modifies=[],
             ensures=[("unknown-subchannel-dropped", "old(scid in self._open_subchannels) or len(bcall_names()) == 0"),
                      ("known-subchannel-gets-it-once",
                       "not old(scid in self._open_subchannels) or (len(bcall_names()) == 1 and bcalls('remote_data') == 1 and "
                       "bcall_recv('remote_data', 0) == self._open_subchannels[scid] and bcall_arg('remote_data', 0, 0) == data)")]),
    Contract(f"{INB}:Inbound.handle_close", props=[PROP], params={"scid": "int"},
             self_fields=INB_FIELDS, modifies=[],
             ensures=[("unknown-subchannel-dropped", "old(scid in self._open_subchannels) or len(bcall_names()) == 0"),
                      ("known-subchannel-gets-it-once",
                       "not old(scid in self._open_subchannels) or (len(bcall_names()) == 1 and bcalls('remote_close') == 1 and "
                       "bcall_recv('remote_close', 0) == self._open_subchannels[scid])")],
             note="a CLOSE (or DATA) for a subchannel that is gone reaches no protocol: nothing after connectionLost"),
    Contract(f"{INB}:Inbound.subchannel_closed", props=[PROP], params={"scid": "int", "sc": "opaque[SubChannel]"},
             self_fields=INB_FIELDS, modifies=["_open_subchannels"],
             raises_exactly={"KeyError": "scid not in self._open_subchannels",
                             "AssertionError": "scid in self._open_subchannels and self._open_subchannels[scid] != sc"},
             ensures=[("forgotten", "scid not in self._open_subchannels"), ("other-subchannels-untouched", OTHERS_KEPT)],
             note="a finished subchannel is removed: later records for its id are dropped by handle_data/handle_close"),
    Contract(f"{INB}:Inbound.subchannel_local_open", props=[PROP], params={"scid": "int", "sc": "opaque[SubChannel]"},
             self_fields=INB_FIELDS, modifies=["_open_subchannels"],
             raises_exactly={"AssertionError": "scid in self._open_subchannels"},
             ensures=[("registered", "scid in self._open_subchannels and self._open_subchannels[scid] == sc"),
                      ("other-subchannels-untouched", OTHERS_KEPT)],
             note="a locally opened subchannel never replaces a live one with the same id"),
]

# ------------------------------------------------------------------ wiring: dilate(expected_subprotocols=) -> demultiplexer
MGR_ATTRS = {"_S": "obj[SendB]", "_my_side": "str", "_transit_relay_location": "opt[str]", "_reactor": "obj[ReactorB]",
             "_eventual_queue": "obj[EventualQueueB]", "_cooperator": "obj[CooperatorB]", "_acceptable_versions": "seq[str]",
             "_ping_interval": "real", "_expected_subprotocols": "opt[set[str]]", "_no_listen": "bool",
             "_status": "opt[callable]", "_initial_mailbox_status": "opt[opaque[WormholeStatus]]"}

WIRING_CONTRACTS = [
    Contract(f"{MGR}:Manager.__attrs_post_init__", props=[PROP], params={}, self_fields=MGR_ATTRS,
             modifies=["_initial_mailbox_status"],
             ensures=[("demultiplexer-enforces-the-set-the-application-declared",
                       "self._subprotocol_factories._expected == self._expected_subprotocols"),
                      ("inbound-routes-to-this-manager", "new_field('Inbound', 0, '_manager') is self"),
                      ("no-connection-yet", "self._connection is None and self._my_role is None")],
             replay={"driver": "c13_replay:wiring"},
             note="WIRING obligation taken from the statement (\"the set the application declared as expected\"): the "
                  "SubchannelDemultiplex that Inbound.handle_open consults must carry Manager._expected_subprotocols"),
    Contract(f"{MGR}:Dilator.dilate", props=[PROP],
             params={"transit_relay_location": "opt[str]", "no_listen": "bool", "wormhole_status": "opt[opaque[WormholeStatus]]",
                     "status_update": "opt[callable]", "ping_interval": "opt[real]", "expected_subprotocols": "opt[set[str]]"},
             self_fields={"_manager": "opt[obj[ManagerB]]", "_did_dilate": "obj[Once]", "_S": "obj[SendB]",
                          "_reactor": "obj[ReactorB]", "_eventual_queue": "obj[EventualQueueB]", "_cooperator": "obj[CooperatorB]",
                          "_acceptable_versions": "seq[str]", "_pending_dilation_key": "opt[bytes]",
                          "_pending_wormhole_versions": "json", "_pending_inbound_dilate_messages": "seq[bytes]"},
             modifies=["_manager", "_pending_inbound_dilate_messages"],
             raises_exactly={"CanOnlyDilateOnceError": "self._did_dilate._called"},
             ensures=[("one-manager-built-iff-none-yet", "news('Manager') == ite(old(self._manager is None), 1, 0)"),
                      ("expected-set-passed-unchanged",
                       "news('Manager') == 0 or new_field('Manager', 0, '_expected_subprotocols') == expected_subprotocols"),
                      ("that-manager-kept", "news('Manager') == 0 or self._manager is new_obj('Manager', 0)")],
             loops={0: {"header": "self._pending_inbound_dilate_messages", "invariant": []}},
             note="Manager construction is a boundary event here (attrs field -> value as bound by the real class definition)"),
    Contract("wormhole/_boss.py:Boss.dilate", props=[PROP],
             params={"transit_relay_location": "opt[str]", "no_listen": "bool", "on_status_update": "opt[callable]",
                     "ping_interval": "opt[real]", "expected_subprotocols": "opt[set[str]]"},
             self_fields={"_D": "obj[DilatorB]", "_current_wormhole_status": "opaque[WormholeStatus]"}, modifies=[],
             ensures=[("expected-set-passed-unchanged",
                       f"bcalls('dilate') == 1 and passed('dilate', 0, '{MGR}:Dilator.dilate', 'expected_subprotocols') == expected_subprotocols"),
                      ("nothing-else", "len(bcall_names()) == 1")],
             note="the argument is bound through Dilator.dilate's real signature"),
    Contract("wormhole/wormhole.py:_DeferredWormhole.dilate", props=[PROP],
             params={"transit_relay_location": "opt[str]", "no_listen": "bool", "on_status_update": "opt[callable]",
                     "ping_interval": "opt[real]", "expected_subprotocols": "opt[set[str]]"},
             self_fields={"_boss": "obj[BossB]", "_enable_dilate": "bool"}, modifies=[],
             raises_exactly={"NotImplementedError": "not self._enable_dilate"},
             ensures=[("expected-set-passed-unchanged",
                       "bcalls('dilate') == 1 and passed('dilate', 0, 'wormhole/_boss.py:Boss.dilate', 'expected_subprotocols') == expected_subprotocols"),
                      ("nothing-else", "len(bcall_names()) == 1")]),
    Contract(f"{MGR}:Manager.subchannel_closed", props=[PROP], params={"scid": "int", "sc": "opaque[SubChannel]"},
             self_fields={"_inbound": "obj[InboundB]", "_outbound": "obj[OutboundB]"}, modifies=[],
             effects=[("subchannel_closed", ["scid", "sc"]), ("subchannel_closed", ["scid", "sc"])],
             internal_ensures=[("inbound-then-outbound", "bcall_recv('subchannel_closed', 0) is self._inbound and "
                                                         "bcall_recv('subchannel_closed', 1) is self._outbound")],
             note="SubChannel.close_subchannel reaches Inbound.subchannel_closed (contract above): the id is forgotten"),
]


def regf_wiring():
    reg = base_registry()
    register_classes(reg, [MGR, "wormhole/_boss.py", "wormhole/wormhole.py"])
    for c in CONTRACTS:
        reg.contracts[c.target] = caller_view(c)
    for cls in ("Inbound", "Outbound", "OneShotObserver", "DilationStatus", "WormholeStatus", "DilatedWormhole"):
        new_as_boundary(reg, cls)
    new_as_boundary(reg, "Manager", fields={"_api": "opaque[DilatedWormhole]"})
    reg.class_fields["ManagerB"] = {"_api": "opaque[DilatedWormhole]"}
    reg.class_fields["Once"] = {"_called": "bool"}
    # make_side() = hex of os.urandom(8): some str (its value plays no role in the wiring obligation)
    reg.func_models[f"{MGR}:make_side"] = lambda it, args, kwargs, fr: it.fresh("str", "my_dilation_side")
    sf = reg.spec_funcs

    def passed(it, meth, k, target, pname):
        """the value that the k-th recorded call of `meth` binds to parameter pname of the real function `target`"""
        from pyvc import source
        from pyvc.interp import Frame
        meth, k, target, pname = it.concrete(meth), it.concrete(k), it.concrete(target), it.concrete(pname)
        evs = [e for e in it.ctx.trace if e[0] == "bcall" and e[1][1] == meth]
        fd = source.find_func(target)
        if k >= len(evs) or fd is None:
            return VObj("<missing>")
        fr = Frame(fd, fd.module)
        it.bind_args(fd.node, [VObj("<self>")] + list(evs[k][1][2]), dict(evs[k][1][3]), fr, Frame(None, fd.module))
        return fr.locals[pname]

    sf["passed"] = passed
    return reg


def once_hook(it, fr):
    # Dilator._did_dilate = Once(CanOnlyDilateOnceError): the real Once.__call__ runs, with its real error type
    from pyvc import source
    o = fr.selfobj.fields["_did_dilate"]
    o.fields["_errtype"] = VClass("CanOnlyDilateOnceError", source.find_class(MGR, "CanOnlyDilateOnceError"))


for _c in WIRING_CONTRACTS:
    if _c.target.endswith("Dilator.dilate"):
        _c.pre_hook = once_hook


# ------------------------------------------------------------------ endpoints: connect() / listen() (inlineCallbacks generators)
OBS = "OneShotObserver.when_fired"
EP_MGR_FIELDS = {"_main_channel": "obj[OneShotObserverB]", "_next_subchannel_id": "int", "_inbound": "obj[Inbound]",
                 "_outbound": "obj[OutboundB]", "_subprotocol_factories": "obj[SubchannelDemultiplex]",
                 "_host_addr": "opaque[Addr]"}
# what may have changed, by any other handler, while the generator was suspended at `yield ...when_fired()`
EP_MGR_UNSTABLE = [("_next_subchannel_id",), ("_inbound", "_open_subchannels"), ("_subprotocol_factories", "_factories"),
                   ("_subprotocol_factories", "_pending_opens")]
EP_STABLE = {"SubchannelConnectorEndpoint": {"_subprotocol", "_manager", "_host_addr", "_eventual_queue"},
             "SubchannelListenerEndpoint": {"subprotocol_name", "_manager"}}


def res_main_channel(it, d, fr):
    """deferred-result contract of Manager._main_channel.when_fired(): it fires (with None) once the first peer
    connection is up, or fails with OldPeerCannotDilateError (the only failure Manager.fail is ever given).  By then the
    manager's mutable state is arbitrary; ghost `resumed` = the manager as the generator finds it when it is resumed"""
    if it.ctx.choose([z3.BoolVal(True), z3.BoolVal(True)], "main-channel") == 1:
        it.raise_("OldPeerCannotDilateError")
    f = fr
    while f is not None and f.selfobj is None:
        f = f.parent
    for path in EP_MGR_UNSTABLE:
        it.havoc_target(("self", "_manager") + path, f)
    from pyvc.interp import snapshot
    snap = snapshot(f.selfobj.fields["_manager"], {})
    g = fr.lookup("resumed")
    if isinstance(g, VObj):
        g.fields = snap.fields       # the ghost object the contract's pre_hook created: updated in place
    else:
        fr.locals["resumed"] = snap
    return NONE


def real_subchannel(it, cls, args, kwargs):
    """SubChannel(...) runs the REAL attrs construction + __attrs_post_init__; the machine starts in its initial state.
    Ghost __id lets the object be stored in the tables of opaque[SubChannel] handles"""
    from pyvc.interp import Frame
    h = it.reg.ext_models.pop("new:SubChannel")
    try:
        o = it.instantiate(cls, args, kwargs, Frame(None, cls.cdef.module))
    finally:
        it.reg.ext_models["new:SubChannel"] = h
    it.reg.automat.init_state(it, o, cls.cdef)
    # same values in the representation the SubChannel contracts declare (Optional protocol, symbolic list)
    if o.fields.get("_protocol") is NONE:
        o.fields["_protocol"] = VOpt(z3.BoolVal(True), it.fresh("opaque[Protocol]", "no_protocol"))
    q = o.fields.get("_pending_remote_data")
    if isinstance(q, VList) and not q.items:
        o.fields["_pending_remote_data"] = VSeq(z3.Empty(z3.SeqSort(sort_of("bytes"))), "bytes")
    o.fields["__id"] = it.fresh("opaque[SubChannel]", "subchannel_id")
    it.ctx.event("new", "SubChannel", dict(o.fields), o)
    return o


def install_endpoint_spec(reg):
    sf = reg.spec_funcs

    def ev_pos(it, name, k):
        """position in the ghost trace of the k-th event `name`: a boundary call of that method, a call (by contract) of a
        function of that name, or the construction of that class; -1 if there is none"""
        name, k = it.concrete(name), it.concrete(k)
        idx = [i for i, e in enumerate(it.ctx.trace)
               if (e[0] == "bcall" and e[1][1] == name) or (e[0] == "new" and e[1][0] == name) or
               (e[0] == "call" and e[1][0].split(".")[-1] == name)]
        return VInt(idx[k] if k < len(idx) else -1)

    sf["ev_pos"] = ev_pos

    def in_order(it, *names):
        """each named event happens exactly once and they happen in this order"""
        pos = []
        for n in names:
            n = it.concrete(n)
            idx = [i for i, e in enumerate(it.ctx.trace)
                   if (e[0] == "bcall" and e[1][1] == n) or (e[0] == "new" and e[1][0] == n) or
                   (e[0] == "call" and e[1][0].split(".")[-1] == n)]
            if len(idx) != 1:
                return VBool(False)
            pos.append(idx[0])
        return VBool(pos == sorted(pos))

    sf["in_order"] = in_order

    def bcall_ret(it, name, k):
        name, k = it.concrete(name), it.concrete(k)
        evs = [e for e in it.ctx.trace if e[0] == "bcall" and e[1][1] == name]
        if k >= len(evs) or "ret" not in evs[k][2]:
            return VObj("<missing>")
        return evs[k][2]["ret"]

    sf["bcall_ret"] = bcall_ret

    def is_class(it, v, name):
        v = it.force(v)
        return VBool(type(v).__name__ in ("VClass", "VNamedTupleClass") and v.name == it.concrete(name))

    sf["is_class"] = is_class


def recording_boundary_ret(it, recv, meth, args, kwargs, fr):
    """recording_boundary, with the value handed back kept in the event too (bcall_ret)"""
    cls = recv.cls if isinstance(recv, VObj) else recv.name
    rt = it.reg.boundary_returns.get(f"{cls}.{meth}") or it.reg.boundary_returns.get(f"*.{meth}")
    ret = NONE if rt is None else it.fresh(rt, f"{cls}_{meth}")
    it.ctx.event("bcall", cls, meth, list(args), dict(kwargs), recv=recv, ret=ret)
    return ret


def regf_real_subchannel():
    """regf(), but SubChannel(...) is really constructed (Inbound.handle_open)"""
    reg = regf()
    reg.ext_models["new:SubChannel"] = real_subchannel
    return reg


def regf_endpoints():
    from . import c11, deferred
    reg = base_registry()
    register_classes(reg, [MGR])
    reg.boundary["*.*"] = recording_boundary_ret
    reg.class_fields["Manager"] = dict(EP_MGR_FIELDS)
    reg.class_fields["Inbound"] = {"_open_subchannels": "dict[int,opaque[SubChannel]]"}
    reg.boundary_returns["OutboundB.build_record"] = "opaque[Record]"
    deferred.install(reg, {OBS: res_main_channel}, EP_STABLE)

    def when_fired(it, recv, meth, args, kwargs, fr):
        it.ctx.event("bcall", recv.cls, meth, list(args), dict(kwargs), recv=recv)
        return deferred.make_deferred(OBS, recv=recv, args=list(args), kwargs=dict(kwargs))

    reg.boundary["OneShotObserverB.when_fired"] = when_fired
    reg.ext_models["new:SubChannel"] = real_subchannel
    install_endpoint_spec(reg)
    for c in CONTRACTS + [c for c in c11.ROLE_CONTRACTS if c.target.endswith("Manager.allocate_subchannel_id")]:
        reg.contracts[c.target] = caller_view(c)
    return reg


OPENS = "self._inbound._open_subchannels"
DXM = "self._subprotocol_factories"
EP_OTHERS_KEPT = (f"forall(lambda k: k == scid or ((k in {OPENS}) == (k in old({OPENS})) and "
                  f"{OPENS}[k] == old({OPENS})[k]))")

MGR_FWD_CONTRACTS = [
    Contract(f"{MGR}:Manager.send_open", props=[PROP], params={"scid": "int", "subprotocol": "str"},
             self_fields={"_outbound": "obj[OutboundB]"}, modifies=[],
             effects=[("build_record", ["Open", "scid", "subprotocol"]),
                      ("queue_and_send_record", ["bcall_ret('build_record', 0)"])],
             internal_ensures=[("an-OPEN-record", "is_class(bcall_arg('build_record', 0, 0), 'Open')"),
                               ("built-and-queued-by-the-outbound-side",
                                "bcall_recv('build_record', 0) is self._outbound and "
                                "bcall_recv('queue_and_send_record', 0) is self._outbound")],
             note="exactly one record is built - an Open carrying this id and this subprotocol name - and exactly that record "
                  "is queued for sending (what Outbound does with it: C10)"),
    Contract(f"{MGR}:Manager.subchannel_local_open", props=[PROP], params={"scid": "int", "sc": "opaque[SubChannel]"},
             self_fields={"_inbound": "obj[Inbound]"}, modifies=["_inbound._open_subchannels"],
             raises_exactly={"AssertionError": f"scid in {OPENS}"},
             ensures=[("registered", f"scid in {OPENS} and {OPENS}[scid] == sc"),
                      ("other-subchannels-untouched", EP_OTHERS_KEPT)],
             note="forwards to Inbound.subchannel_local_open (used through its contract)"),
    Contract(f"{MGR}:Manager._register_subprotocol_factory", props=[PROP], params={"name": "str", "factory": "opaque[Factory]"},
             self_fields={"_subprotocol_factories": "obj[SubchannelDemultiplex]"},
             modifies=["_subprotocol_factories._factories", "_subprotocol_factories._pending_opens"],
             raises_exactly={"ValueError": f"name in {DXM}._factories"},
             ensures_raise={"ValueError": [
                 ("listeners-kept", f"forall(lambda k: (k in {DXM}._factories) == (k in old({DXM}._factories)) and "
                                    f"{DXM}._factories[k] == old({DXM}._factories)[k], 'str')"),
                 ("queue-kept", f"forall(lambda k: {DXM}._pending_opens[k] == old({DXM}._pending_opens)[k], 'str')")]},
             ensures=[("registered-once-with-the-demultiplexer",
                       "n_calls('SubchannelDemultiplex.register') == 1 and call_arg('SubchannelDemultiplex.register', 0, 0) is "
                       f"{DXM} and call_arg('SubchannelDemultiplex.register', 0, 1) == name and "
                       "call_arg('SubchannelDemultiplex.register', 0, 2) == factory and len(bcall_names()) == 0"),
                      ("listening", f"name in {DXM}._factories and {DXM}._factories[name] == factory"),
                      ("other-listeners-kept",
                       f"forall(lambda k: k == name or ((k in {DXM}._factories) == (k in old({DXM}._factories)) and "
                       f"{DXM}._factories[k] == old({DXM}._factories)[k]), 'str')"),
                      ("queue-for-this-name-emptied", f"len({DXM}._pending_opens[name]) == 0"),
                      ("other-queues-untouched",
                       f"forall(lambda k: k == name or {DXM}._pending_opens[k] == old({DXM}._pending_opens)[k], 'str')")],
             note="forwards to SubchannelDemultiplex.register (used through its contract: the OPENs held under this name are "
                  "connected there, once each, in arrival order)"),
]

EM = "self._manager"
NEWSC = "new_obj('SubChannel', 0)"
EP_NOTHING = [("nothing-allocated-sent-built-or-registered",
               "n_calls('') == 0 and news('SubChannel') == 0 and len(bcall_names()) == 1 and bcalls('when_fired') == 1")]

EP_CONTRACTS = [
    Contract(f"{SUB}:SubchannelConnectorEndpoint.__attrs_post_init__", props=[PROP], params={},
             self_fields={"_subprotocol": "str", "_manager": "obj[Manager]", "_host_addr": "opaque[Addr]",
                          "_eventual_queue": "obj[EventualQueueB]"},
             modifies=["_connection_deferreds"],
             raises_exactly={"ValueError": "len(self._subprotocol) == 0"},
             ensures=[("silent", "len(bcall_names()) == 0")],
             note="an endpoint for the empty subprotocol name cannot be made"),
    Contract(f"{SUB}:SubchannelConnectorEndpoint.connect", props=[PROP], params={"protocolFactory": "opaque[Factory]"},
             self_fields={"_subprotocol": "str", "_manager": "obj[Manager]", "_host_addr": "opaque[Addr]",
                          "_eventual_queue": "obj[EventualQueueB]"},
             modifies=["_manager._next_subchannel_id", "_manager._inbound._open_subchannels",
                       "_manager._subprotocol_factories._factories", "_manager._subprotocol_factories._pending_opens"],
             raises={"OldPeerCannotDilateError": None, "AssertionError": None},
             ensures_raise={
                 "OldPeerCannotDilateError": EP_NOTHING,
                 "AssertionError": [
                     ("only-when-the-peer-already-opened-a-subchannel-under-this-sides-next-id",
                      "resumed._next_subchannel_id in resumed._inbound._open_subchannels"),
                     ("no-protocol-built", "bcalls('buildProtocol') == 0 and bcalls('makeConnection') == 0")]},
             ensures=[
                 ("waits-for-dilation-first", "bcalls('when_fired') == 1 and bcall_recv('when_fired', 0) is self._manager._main_channel "
                                              "and ev_pos('when_fired', 0) == 0"),
                 ("exactly-one-id-allocated-the-managers-next-one",
                  f"n_calls('allocate_subchannel_id') == 1 and call_arg('allocate_subchannel_id', 0, 0) is {EM} and "
                  "call_result('allocate_subchannel_id') == resumed._next_subchannel_id"),
                 ("id-of-this-sides-parity-and-never-handed-out-again",
                  f"{EM}._next_subchannel_id == resumed._next_subchannel_id + 2 and "
                  f"call_result('allocate_subchannel_id') % 2 == {EM}._next_subchannel_id % 2"),
                 ("exactly-one-OPEN-with-that-id-and-the-requested-subprotocol",
                  f"n_calls('send_open') == 1 and call_arg('send_open', 0, 0) is {EM} and "
                  "call_arg('send_open', 0, 1) == call_result('allocate_subchannel_id') and "
                  "call_arg('send_open', 0, 2) == self._subprotocol"),
                 ("exactly-one-SubChannel-for-that-id-manager-and-name",
                  "news('SubChannel') == 1 and new_field('SubChannel', 0, '_scid') == call_result('allocate_subchannel_id') and "
                  f"new_field('SubChannel', 0, '_manager') is {EM} and "
                  "new_field('SubChannel', 0, '_peer_addr').subprotocol == self._subprotocol and "
                  "new_field('SubChannel', 0, '_host_addr') == self._host_addr"),
                 ("registered-once-under-its-id",
                  f"n_calls('Manager.subchannel_local_open') == 1 and call_arg('Manager.subchannel_local_open', 0, 0) is {EM} and "
                  "call_arg('Manager.subchannel_local_open', 0, 1) == call_result('allocate_subchannel_id') and "
                  f"call_arg('Manager.subchannel_local_open', 0, 2) is {NEWSC} and "
                  f"{EM}._inbound._open_subchannels[call_result('allocate_subchannel_id')] == {NEWSC}"),
                 ("one-protocol-built-by-the-given-factory-for-that-name",
                  "bcalls('buildProtocol') == 1 and bcall_recv('buildProtocol', 0) == protocolFactory and "
                  "bcall_arg('buildProtocol', 0, 0).subprotocol == self._subprotocol"),
                 ("attached-once-to-the-new-subchannel",
                  f"n_calls('_set_protocol') == 1 and call_arg('_set_protocol', 0, 0) is {NEWSC} and "
                  "call_arg('_set_protocol', 0, 1) == result"),
                 ("connected-once-to-the-new-subchannel",
                  f"bcalls('makeConnection') == 1 and bcall_recv('makeConnection', 0) == result and "
                  f"bcall_arg('makeConnection', 0, 0) is {NEWSC}"),
                 ("result-is-that-protocol", "result == bcall_ret('buildProtocol', 0)"),
                 ("OPEN-sent-and-subchannel-registered-before-the-protocol-is-connected",
                  "in_order('when_fired', 'allocate_subchannel_id', 'send_open', 'SubChannel', 'subchannel_local_open', "
                  "'buildProtocol', '_set_protocol', 'makeConnection')"),
                 ("nothing-else", "len(bcall_names()) == 5 and n_calls('') == 4"),
                 ("the-new-subchannel-is-open-with-this-protocol",
                  f"w_open({NEWSC}) and r_open({NEWSC}) and sc_inv({NEWSC}) and {NEWSC}._protocol == result and "
                  f"len({NEWSC}._pending_remote_data) == 0 and not {NEWSC}._pending_remote_close")],
             note="ghost `resumed` = the manager as found when the main channel has fired (its counters and tables are "
                  "arbitrary by then). SubChannel construction runs the real __attrs_post_init__; allocate_subchannel_id, "
                  "send_open, subchannel_local_open and _set_protocol are used through their contracts"),
    Contract(f"{SUB}:SubchannelListenerEndpoint.listen", props=[PROP], params={"factory": "opaque[Factory]"},
             self_fields={"subprotocol_name": "str", "_manager": "obj[Manager]"},
             modifies=["_manager._next_subchannel_id", "_manager._inbound._open_subchannels",
                       "_manager._subprotocol_factories._factories", "_manager._subprotocol_factories._pending_opens"],
             raises={"OldPeerCannotDilateError": None, "ValueError": None},
             ensures_raise={
                 "OldPeerCannotDilateError": EP_NOTHING,
                 "ValueError": [("only-when-already-listening-for-this-name",
                                 "self.subprotocol_name in resumed._subprotocol_factories._factories"),
                                ("the-first-listener-stays",
                                 f"{EM}._subprotocol_factories._factories[self.subprotocol_name] == "
                                 "resumed._subprotocol_factories._factories[self.subprotocol_name]")]},
             ensures=[
                 ("waits-for-dilation-first", "bcalls('when_fired') == 1 and bcall_recv('when_fired', 0) is self._manager._main_channel "
                                              "and ev_pos('when_fired', 0) == 0 and len(bcall_names()) == 1"),
                 ("factory-registered-exactly-once-under-this-name",
                  f"n_calls('') == 1 and n_calls('_register_subprotocol_factory') == 1 and "
                  f"call_arg('_register_subprotocol_factory', 0, 0) is {EM} and "
                  "call_arg('_register_subprotocol_factory', 0, 1) == self.subprotocol_name and "
                  "call_arg('_register_subprotocol_factory', 0, 2) == factory"),
                 ("listening", f"{EM}._subprotocol_factories._factories[self.subprotocol_name] == factory and "
                               f"self.subprotocol_name in {EM}._subprotocol_factories._factories"),
                 ("held-OPENs-for-this-name-handed-over",
                  f"len({EM}._subprotocol_factories._pending_opens[self.subprotocol_name]) == 0"),
                 ("other-names-untouched",
                  "forall(lambda k: k == self.subprotocol_name or ("
                  f"{EM}._subprotocol_factories._pending_opens[k] == resumed._subprotocol_factories._pending_opens[k] and "
                  f"(k in {EM}._subprotocol_factories._factories) == (k in resumed._subprotocol_factories._factories)), 'str')"),
                 ("port-reports-the-host-address", f"result._host_addr == {EM}._host_addr")],
             note="registration goes through Manager._register_subprotocol_factory -> SubchannelDemultiplex.register (contracts): "
                  "OPENs held under this name are connected there once each, FIFO; later ones go straight to the factory "
                  "(SubchannelDemultiplex._got_open, listener-present-connected-once-now)"),
]



def resumed_hook(it, fr):
    # ghost `resumed`: the manager as last seen when the generator was (re)started - at entry, then at each resumption
    from pyvc.interp import snapshot
    fr.locals["resumed"] = snapshot(fr.selfobj.fields["_manager"], {})


for _c in EP_CONTRACTS:
    if _c.target.endswith((".connect", ".listen")):
        _c.pre_hook = resumed_hook
        # native witness: a canonical scenario on the real classes (replay/c13_replay.py), not the solver's model
        _c.replay = {"driver": "c13_replay:endpoint_" + _c.target.split(".")[-1]}

CONTRACTS = SC_CONTRACTS + DEMUX_CONTRACTS + INB_CONTRACTS + WIRING_CONTRACTS + MGR_FWD_CONTRACTS + EP_CONTRACTS


def stable_fields_task(tier, seed):
    """the fields of the two endpoint classes that connect()/listen() read after the yield are declared stable across it:
    they are attrs fields that nothing in subchannel.py assigns (a syntactic frame argument, re-checked on every run);
    the Manager fields read through them that are declared stable (_main_channel, _inbound, _outbound,
    _subprotocol_factories, _host_addr) are only assigned in Manager.__attrs_post_init__ / the attrs constructor"""
    import ast
    import time
    from pyvc import source
    from pyvc.runner import ob
    t0 = time.time()
    obs = []
    m = source.load_module(SUB)
    for cname, stable in sorted(EP_STABLE.items()):
        cd = m.classes[cname]
        undeclared = sorted(set(stable) - set(cd.attr_fields))
        stores = sorted({f"{c2}.{mn}:{n.attr}" for c2, cd2 in m.classes.items() for mn, fd in cd2.methods.items()
                         for n in ast.walk(fd.node)
                         if isinstance(n, ast.Attribute) and isinstance(n.ctx, (ast.Store, ast.Del)) and n.attr in stable
                         and (c2 == cname or not (isinstance(n.value, ast.Name) and n.value.id == "self"))})
        good = not undeclared and not stores
        obs.append(ob(f"{SUB}:{cname}.stable-fields", "discharged" if good else "failed", "evaluation", 0.0, False, None,
                      {"kind": "frame", "definite": True,
                       "src": f"{sorted(stable)} are attrs fields of {cname} never assigned after construction "
                              f"(not attrs fields: {undeclared}; stores: {stores})"}, smt_hash=cname))
    mm = source.load_module(MGR)
    mstable = sorted(set(EP_MGR_FIELDS) - {p[0] for p in EP_MGR_UNSTABLE})
    cd = mm.classes["Manager"]
    stores = sorted({f"{mn}:{n.attr}" for mn, fd in cd.methods.items() for n in ast.walk(fd.node)
                     if isinstance(n, ast.Attribute) and isinstance(n.ctx, (ast.Store, ast.Del)) and n.attr in mstable and
                     isinstance(n.value, ast.Name) and n.value.id == "self" and mn != "__attrs_post_init__"})
    obs.append(ob(f"{MGR}:Manager.stable-fields", "discharged" if not stores else "failed", "evaluation", 0.0, False, None,
                  {"kind": "frame", "definite": True,
                   "src": f"Manager.{mstable} are assigned only by the constructor / __attrs_post_init__ (other stores: {stores})"},
                  smt_hash="Manager"))
    return {"obligations": obs, "info": {"target": f"{SUB}:<fields stable across the endpoints' yield>", "sha": None,
                                         "lines": None, "paths": 1, "wall": round(time.time() - t0, 3)}}


def tasks():
    out = [ContractTask(c, regf_wiring if c in WIRING_CONTRACTS else regf_endpoints if c in MGR_FWD_CONTRACTS + EP_CONTRACTS else
                        regf_real_subchannel if c.target.endswith("Inbound.handle_open") else regf)
           for c in CONTRACTS]
    from pyvc.runner import FuncTask
    out.append(FuncTask("endpoint-stable-fields", stable_fields_task, True, "frame"))
    # "the two sides never allocate the same subchannel id": role agreement + id parity, shared with C11
    from . import c11
    out += [t for t in c11.tasks() if t.contract in c11.ROLE_CONTRACTS]
    return out


TRUSTED = ["z3/cvc5",
           "pyvc semantics of the Python subset and of Automat dispatch (state set first, outputs in order, an input without a "
           "row raises automat.NoTransition with the state unchanged; tables are extracted from the class body on every run)",
           "zope: IHalfCloseableProtocol.providedBy(p) is a fixed Boolean property of p (False for None); IHalfCloseableProtocol(p) "
           "is p when provided, TypeError otherwise; ISubChannel.providedBy is true of SubChannel instances",
           "SubchannelAddress (attrs value class with one str field) is modelled as a named tuple; collections.defaultdict(deque) "
           "as a typed map whose missing keys read as an empty deque (pyvc `defaultdict[K,seq[V]]`)",
           "collaborators (manager, application Protocol / Factory, Inbound/Outbound/observers built by Manager, Dilator as seen "
           "from Boss) are boundary objects: every call on them is recorded with receiver and arguments and returns an arbitrary value"]
ASSUMPTIONS = [
    "re-entrancy from application callbacks is not modelled as such; what is proved instead: dataReceived / connectionLost / "
    "readConnectionLost are the LAST boundary call of their input, so a re-entrant write()/loseConnection() from them is the same as "
    "calling it afterwards, which the per-state contracts cover from every state (_deliver_queued_data is verified from every "
    "read-open state for the same reason: connectionMade may already have closed the write side). writeConnectionLost in "
    "open_half.local_close runs BEFORE send_close: a re-entrant call from that one callback is not covered",
    "application callbacks do not raise",
    "peer conformance used nowhere as a precondition: DATA/CLOSE after the peer's CLOSE and writes on a closed subchannel are part of the "
    "contracts (automat.NoTransition / AlreadyClosedError, nothing delivered or sent)",
    "delivery of OPEN/DATA/CLOSE records across the wire, in order and exactly once, is C10/C12; here: what each end does with them",
    "SubchannelConnectorEndpoint.connect / SubchannelListenerEndpoint.listen (inlineCallbacks generators, props/deferred.py): the "
    "generator is resumed exactly once per fired Deferred. Deferred-result contract of Manager._main_channel.when_fired(): it fires "
    "with None or fails with OldPeerCannotDilateError (the only failure Manager.fail is given). While suspended everything the "
    "manager may change is arbitrary at resumption (_next_subchannel_id, Inbound._open_subchannels, the demultiplexer's listeners and "
    "held OPENs); the other Manager fields read (_main_channel, _inbound, _outbound, _subprotocol_factories, _host_addr) and the "
    "endpoints' attrs fields are stable: a syntactic frame check, task endpoint-stable-fields. Assumed about the resumption state: "
    "_next_subchannel_id is an int, i.e. the main channel fires only after choose_role (argued, not proved here: fire() sits in "
    "connector_connection_made behind the connection_made input, which only has rows in states entered through rx_PLEASE/choose_role)",
    "connect() may end in AssertionError AFTER its OPEN was queued, exactly when a subchannel is already open under the id it has just "
    "allocated (Inbound.handle_open does not check the parity of a peer-chosen id); stated as connect.ensures_raise[AssertionError], "
    "not judged a violation of the statement (a conforming peer only uses ids of its own parity: C11 role lemmas)",
    "where a SubChannel is built (SubchannelConnectorEndpoint.connect, Inbound.handle_open) the real attrs construction + "
    "__attrs_post_init__ run (attrs validators dropped; the machine starts in its initial state; ghost __id = the handle under "
    "which the tables of opaque[SubChannel] hold it). What SubchannelDemultiplex._connect does to a subchannel handed to it is "
    "stated there as calls on the handle (_set_protocol, _deliver_queued_data), so handle_open says nothing about the new "
    "subchannel's state when a listener was present",
    "Manager.send_open is verified with Outbound as a boundary object: one build_record(Open, scid, subprotocol), then "
    "queue_and_send_record of exactly the record handed back; what Outbound does with it is C10",
    "make_side() is modelled as returning some str in Dilator.dilate (its value plays no role in the wiring obligation)",
]
