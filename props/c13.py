"""C13 - subchannels open once, close once, and honour the subprotocol contract.

Reading of the statement, per end of one subchannel (SubChannel, 7 Automat states):
  W(s) "write side open"  = s in {open_full, open_half, read_closed}
  R(s) "read side open"   = s in {open_full, open_half, closing, write_closed}
Every input is verified, from EVERY state, through the real transition table against the same
clauses (SC_CLAUSES): CLOSE is sent exactly when W goes from true to false; the read-side loss
(connectionLost, or readConnectionLost for IHalfCloseableProtocol) is signalled exactly when R goes
from true to false; W and R never come back; `closed` is absorbing and silent; dataReceived only
while R; send_data only while W; the manager is told (subchannel_closed) exactly on entering closed.
Summed over any history this is "connectionLost exactly once, nothing after it, an error when
writing after close, exactly one CLOSE after every DATA".
"""
import z3

from pyvc.contract import Contract
from pyvc.runner import ContractTask
from pyvc.automat import AutomatSupport
from pyvc.values import *   # noqa
from pyvc import values
from pyvc.models import uf
from .common import make_registry, install_trace_funcs, register_classes

PROP = "C13"

SUB = "wormhole/_dilation/subchannel.py"
INB = "wormhole/_dilation/inbound.py"
MGR = "wormhole/_dilation/manager.py"

values.NT_DEFS.setdefault("SubchannelAddress", [("subprotocol", "str")])

MAX_FRAME_LENGTH = 2 ** 32 - 1 - 9 - 16

# ------------------------------------------------------------------ registry
SC_CALLS = ("dataReceived", "connectionLost", "readConnectionLost", "writeConnectionLost",
            "send_data", "send_close", "subchannel_closed")


def _half_fn():
    return uf("provides_IHalfCloseableProtocol", opaque_sort("Protocol"), BoolS)


def _is_half_z(it, p):
    """z3 Bool: IHalfCloseableProtocol.providedBy(p) (False for None, as zope answers)"""
    if isinstance(p, VOpt):
        return z3.And(z3.Not(p.isnone), _is_half_z(it, p.inner))
    if p is NONE:
        return z3.BoolVal(False)
    if isinstance(p, VOpaque) and p.name == "Protocol":
        return _half_fn()(p.z)
    raise OutOfSubset(f"IHalfCloseableProtocol.providedBy({p!r})")


def install_twisted(reg):
    em = reg.ext_models

    def connection_done(it, args, kw):
        return VObj("ConnectionDone", {"args": VTuple(list(args))})

    em["twisted.internet.error.ConnectionDone"] = connection_done

    def provided_by(it, args, kw):
        return VBool(_is_half_z(it, args[0]))

    def adapt(it, args, kw):
        # zope adaptation IFoo(x): x itself when it provides the interface, TypeError otherwise
        p = it.force(args[0])
        if it.ctx.branch(z3.Not(_is_half_z(it, p)), "adapt-fails"):
            it.raise_("TypeError", VStr("Could not adapt"))
        return p

    em["twisted.internet.interfaces.IHalfCloseableProtocol.providedBy"] = provided_by
    em["twisted.internet.interfaces.IHalfCloseableProtocol"] = adapt
    em["collections.defaultdict"] = lambda it, args, kw: VDict({})
    em["twisted.internet.defer.Deferred"] = lambda it, args, kw: VObj("Deferred")


def install_spec(reg):
    sf = reg.spec_funcs

    def st(it, o):
        o = it.force(o)
        return o.fields["__state"].z

    def in_states(it, o, names):
        o = it.force(o)
        m = it.reg.automat.machine_of(it.reg.repo_classes[o.cls])
        return z3.Or([st(it, o) == m.index(n) for n in names])

    sf["state_of"] = lambda it, o: VInt(st(it, o))
    sf["w_open"] = lambda it, o: VBool(in_states(it, o, ["open_full", "open_half", "read_closed"]))
    sf["r_open"] = lambda it, o: VBool(in_states(it, o, ["open_full", "open_half", "closing", "write_closed"]))
    sf["is_half"] = lambda it, p: VBool(_is_half_z(it, p))

    def sc_inv(it, o):
        """representation invariant of SubChannel: a protocol is attached exactly outside `unconnected`
        and the flow (half-closeable / plain) matches what the protocol provides"""
        o = it.force(o)
        p = o.fields["_protocol"]
        half = _is_half_z(it, p)
        none = it.same(p, NONE)
        return VBool(z3.And(in_states(it, o, ["unconnected"]) == none,
                            z3.Implies(in_states(it, o, ["open_half", "read_closed", "write_closed"]), half),
                            z3.Implies(in_states(it, o, ["open_full", "closing"]), z3.Not(half))))

    sf["sc_inv"] = sc_inv

    def iter_bcall_arg(it, name, i):
        """argument i of THE boundary call made in the current loop iteration; proves that the
        iteration made exactly one boundary call and that it is `name`"""
        name, i = it.concrete(name), it.concrete(i)
        tr = it.ctx.trace
        start = max([k for k, e in enumerate(tr) if e[0] == "loop-body-start"] + [-1])
        evs = [e for e in tr[start + 1:] if e[0] == "bcall"]
        ok = len(evs) == 1 and evs[0][1][1] == name
        it.ctx.prove(z3.BoolVal(ok), f"exactly-one[{name}]-per-iteration",
                     {"kind": "trace", "definite": True,
                      "src": f"each iteration makes exactly one boundary call, {name} (found {[e[1][1] for e in evs]})"})
        if not ok:
            raise OutOfSubset("iteration does not make the single expected call")   # the obligation above already failed
        return evs[0][1][2][i]

    sf["iter_bcall_arg"] = iter_bcall_arg

    def bcall_kwarg(it, name, k, key):
        name, k, key = it.concrete(name), it.concrete(k), it.concrete(key)
        evs = [e for e in it.ctx.trace if e[0] == "bcall" and e[1][1] == name]
        if k >= len(evs) or key not in evs[k][1][3]:
            return VObj("<missing>")
        return evs[k][1][3][key]

    sf["bcall_kwarg"] = bcall_kwarg

    def n_calls(it, suffix):
        suffix = it.concrete(suffix)
        return VInt(sum(1 for e in it.ctx.trace if e[0] == "call" and e[1][0].endswith(suffix)))

    sf["n_calls"] = n_calls

    def call_arg(it, suffix, k, i):
        suffix, k, i = it.concrete(suffix), it.concrete(k), it.concrete(i)
        evs = [e for e in it.ctx.trace if e[0] == "call" and e[1][0].endswith(suffix)]
        if k >= len(evs):
            return VObj("<missing>")
        return evs[k][1][1][i]

    sf["call_arg"] = call_arg


def base_registry():
    reg = make_registry()
    install_trace_funcs(reg)
    register_classes(reg, ["wormhole/errors.py", SUB, INB])
    reg.automat = AutomatSupport()
    reg.automat.notransition_raises = True
    install_twisted(reg)
    install_spec(reg)
    return reg


def regf():
    reg = base_registry()
    for c in CONTRACTS:
        reg.contracts[c.target] = c
    return reg


# ------------------------------------------------------------------ SubChannel
SC_FIELDS = {"__state": "state", "_scid": "int", "_manager": "obj[ManagerB]", "_protocol": "opt[opaque[Protocol]]",
             "_pending_remote_data": "seq[bytes]", "_pending_remote_close": "bool"}

_ALL = ", ".join(repr(n) for n in SC_CALLS)


def sc_clauses(inp):
    """the lifecycle clauses, identical for every input (inp only says which of the two data-carrying
    inputs this is)"""
    is_rd = "True" if inp == "remote_data" else "False"
    is_ld = "True" if inp == "local_data" else "False"
    connect = inp in ("connect_protocol_half", "connect_protocol_full", "_set_protocol")
    cl = [
        ("CLOSE-sent-exactly-when-write-side-closes",
         "bcalls('send_close') == ite(old(w_open(self)) and not w_open(self), 1, 0)"),
        ("CLOSE-names-this-subchannel",
         "bcalls('send_close') == 0 or bcall_arg('send_close', 0, 0) == self._scid"),
        ("read-loss-signalled-exactly-when-read-side-closes",
         "bcalls('connectionLost') + bcalls('readConnectionLost') == ite(old(r_open(self)) and not r_open(self), 1, 0)"),
        ("connectionLost-exactly-on-entering-closed-plain-protocol",
         "bcalls('connectionLost') == ite(old(in_state(self, 'open_full', 'closing')) and in_state(self, 'closed'), 1, 0)"),
        ("writeConnectionLost-exactly-when-half-closeable-write-side-closes",
         "bcalls('writeConnectionLost') == ite(old(in_state(self, 'open_half', 'read_closed')) and not w_open(self), 1, 0)"),
        ("dataReceived-only-inbound-data-while-read-side-open",
         f"bcalls('dataReceived') == ite({is_rd} and old(r_open(self)), 1, 0)"),
        ("DATA-sent-only-for-a-write-while-write-side-open",
         f"bcalls('send_data') == ite({is_ld} and old(w_open(self)), 1, 0)"),
        ("manager-told-exactly-on-entering-closed",
         "bcalls('subchannel_closed') == ite(in_state(self, 'closed') and not old(in_state(self, 'closed')), 1, 0)"),
        ("manager-told-which-subchannel",
         "bcalls('subchannel_closed') == 0 or (bcall_arg('subchannel_closed', 0, 0) == self._scid and "
         "bcall_arg('subchannel_closed', 0, 1) is self)"),
        ("no-other-callback", f"len(bcall_names()) == bcalls({_ALL})"),
        ("write-side-never-reopens", "not w_open(self) or old(w_open(self)) or old(in_state(self, 'unconnected'))"),
        ("read-side-never-reopens", "not r_open(self) or old(r_open(self)) or old(in_state(self, 'unconnected'))"),
        ("closed-is-absorbing", "not old(in_state(self, 'closed')) or in_state(self, 'closed')"),
        ("nothing-after-closed", "not old(in_state(self, 'closed')) or len(bcall_names()) == 0"),
        ("representation-invariant-kept", "sc_inv(self)"),
    ]
    if not connect:
        cl.append(("unconnected-only-left-by-attaching-a-protocol",
                   "old(in_state(self, 'unconnected')) == in_state(self, 'unconnected')"))
    return cl


SILENT = [("nothing-signalled-or-sent", "len(bcall_names()) == 0")]

SC_CONTRACTS = [
    Contract(f"{SUB}:SubChannel.remote_data", props=[PROP], params={"data": "bytes"}, self_fields=SC_FIELDS,
             requires=["sc_inv(self)"], modifies=["_pending_remote_data"],
             raises_exactly={"NoTransition": "in_state(self, 'read_closed', 'closed')"},
             ensures_raise={"NoTransition": SILENT},
             ensures=sc_clauses("remote_data") + [
                 ("delivered-unchanged-now-when-connected",
                  "not old(r_open(self)) or (bcall_arg('dataReceived', 0, 0) == data and "
                  "self._pending_remote_data == old(self._pending_remote_data))"),
                 ("queued-in-order-before-a-protocol-is-attached",
                  "not old(in_state(self, 'unconnected')) or self._pending_remote_data == old(self._pending_remote_data) + [data]")],
             note="DATA for this subchannel: delivered at once while the read side is open, queued FIFO before a protocol "
                  "is attached, NoTransition (nothing delivered) after the peer's CLOSE / after closed"),
    Contract(f"{SUB}:SubChannel.remote_close", props=[PROP], params={}, self_fields=SC_FIELDS,
             requires=["sc_inv(self)"], modifies=["__state", "_pending_remote_close"],
             raises_exactly={"NoTransition": "in_state(self, 'read_closed', 'closed')"},
             ensures_raise={"NoTransition": SILENT},
             ensures=sc_clauses("remote_close") + [
                 ("read-side-closed-unless-queued", "old(in_state(self, 'unconnected')) or not r_open(self)"),
                 ("queued-before-a-protocol-is-attached",
                  "self._pending_remote_close == (old(self._pending_remote_close) or old(in_state(self, 'unconnected')))")],
             note="the peer's CLOSE: a second CLOSE has no row (NoTransition, nothing signalled)"),
    Contract(f"{SUB}:SubChannel.local_data", props=[PROP], params={"data": "bytes"}, self_fields=SC_FIELDS,
             requires=["sc_inv(self)"], modifies=[],
             raises_exactly={"AlreadyClosedError": "in_state(self, 'closing', 'write_closed')",
                             "NoTransition": "in_state(self, 'unconnected', 'closed')"},
             ensures_raise={"AlreadyClosedError": SILENT, "NoTransition": SILENT},
             ensures=sc_clauses("local_data") + [
                 ("the-bytes-written", "bcall_arg('send_data', 0, 0) == self._scid and bcall_arg('send_data', 0, 1) == data")],
             note="a write after the local close is an error and sends nothing (AlreadyClosedError while waiting for the "
                  "peer's CLOSE, automat.NoTransition once fully closed or before a protocol is attached)"),
    Contract(f"{SUB}:SubChannel.local_close", props=[PROP], params={}, self_fields=SC_FIELDS,
             requires=["sc_inv(self)"], modifies=["__state"],
             raises_exactly={"AlreadyClosedError": "in_state(self, 'closing', 'write_closed')",
                             "NoTransition": "in_state(self, 'unconnected')"},
             ensures_raise={"AlreadyClosedError": SILENT, "NoTransition": SILENT},
             ensures=sc_clauses("local_close") + [("write-side-closed", "not w_open(self)")],
             note="exactly one CLOSE per subchannel end: sent when the write side closes, never again"),
    Contract(f"{SUB}:SubChannel._set_protocol", props=[PROP], params={"protocol": "opaque[Protocol]"}, self_fields=SC_FIELDS,
             requires=["sc_inv(self)"], modifies=["__state", "_protocol"],
             raises_exactly={"AssertionError": "self._protocol is not None"},
             ensures_raise={"AssertionError": SILENT},
             ensures=sc_clauses("_set_protocol") + SILENT + [
                 ("attached", "self._protocol == protocol"),
                 ("flow-matches-the-protocol", "in_state(self, 'open_half') == is_half(protocol) and "
                                               "in_state(self, 'open_full') == (not is_half(protocol))")],
             note="a protocol is attached at most once; the flow is chosen by IHalfCloseableProtocol.providedBy"),
    Contract(f"{SUB}:SubChannel._deliver_queued_data", props=[PROP], params={}, self_fields=SC_FIELDS,
             requires=["sc_inv(self)", "r_open(self)"],
             modifies=["__state", "_pending_remote_data", "_pending_remote_close"],
             internal_ensures=[
                 ("queued-data-delivered-in-arrival-order",
                  "len(delivered) == len(old(self._pending_remote_data)) and forall(lambda j: implies(0 <= j and "
                  "j < len(delivered), delivered[j] == old(self._pending_remote_data)[j]))"),
                 ("then-the-queued-close-and-only-if-queued",
                  "bcalls('connectionLost') + bcalls('readConnectionLost') == ite(old(self._pending_remote_close), 1, 0)"),
                 ("nothing-delivered-after-the-close", "bcalls('dataReceived') == 0"),
                 ("read-side-closed-iff-close-was-queued", "r_open(self) == (not old(self._pending_remote_close))"),
                 ("state-kept-without-queued-close",
                  "old(self._pending_remote_close) or state_of(self) == old(state_of(self))"),
                 ("representation-invariant-kept", "sc_inv(self)")],
             loops={0: {"header": "for data in self._pending_remote_data",
                        "modifies": [("self", "__state"), ("self", "_pending_remote_data"), ("self", "_pending_remote_close"),
                                     ("self", "_protocol"), ("self", "_scid")],
                        "ghost_init": {"delivered": 'empty_seq("bytes")'},
                        "ghost_update": {"delivered": "delivered + [iter_bcall_arg('dataReceived', 0)]"},
                        "invariant": ["state_of(self) == at_entry(state_of(self))",
                                      "self._pending_remote_data == at_entry(self._pending_remote_data)",
                                      "self._pending_remote_close == at_entry(self._pending_remote_close)",
                                      "self._protocol == at_entry(self._protocol)",
                                      "self._scid == at_entry(self._scid)",
                                      "len(delivered) == _i",
                                      "forall(lambda j: implies(0 <= j and j < _i, delivered[j] == self._pending_remote_data[j]))"]}},
             note="what arrived before the listener existed reaches the protocol in order, data first, then the close "
                  "(ghost `delivered` = sequence of dataReceived arguments; one dataReceived per loop iteration)"),
    Contract(f"{SUB}:SubChannel.write", props=[PROP], params={"data": "bytes"}, self_fields=SC_FIELDS,
             requires=["sc_inv(self)"], modifies=[],
             raises_exactly={"AssertionError": f"len(data) > {MAX_FRAME_LENGTH}",
                             "AlreadyClosedError": f"len(data) <= {MAX_FRAME_LENGTH} and in_state(self, 'closing', 'write_closed')",
                             "NoTransition": f"len(data) <= {MAX_FRAME_LENGTH} and in_state(self, 'unconnected', 'closed')"},
             ensures_raise={"AssertionError": SILENT, "AlreadyClosedError": SILENT, "NoTransition": SILENT},
             ensures=[("one-DATA-with-these-bytes", "len(bcall_names()) == 1 and bcalls('send_data') == 1 and "
                                                    "bcall_arg('send_data', 0, 0) == self._scid and bcall_arg('send_data', 0, 1) == data")],
             note="ITransport.write: error when writing after close (statement), otherwise exactly one DATA"),
    Contract(f"{SUB}:SubChannel.loseConnection", props=[PROP], params={}, self_fields=SC_FIELDS,
             requires=["sc_inv(self)"], modifies=["__state"],
             raises_exactly={"NormalCloseUsedOnHalfCloseable": "is_half(self._protocol)",
                             "AlreadyClosedError": "in_state(self, 'closing')",
                             "NoTransition": "in_state(self, 'unconnected')"},
             ensures_raise={"NormalCloseUsedOnHalfCloseable": SILENT, "AlreadyClosedError": SILENT, "NoTransition": SILENT},
             ensures=[("one-CLOSE-iff-the-write-side-was-open",
                       "bcalls('send_close') == ite(old(w_open(self)), 1, 0) and not w_open(self)"),
                      ("no-callback-into-the-protocol", "len(bcall_names()) == bcalls('send_close')")],
             note="ITransport.loseConnection on a plain protocol: second call is an error, after closed it is a no-op"),
    Contract(f"{SUB}:SubChannel.loseWriteConnection", props=[PROP], params={}, self_fields=SC_FIELDS,
             requires=["sc_inv(self)"], modifies=["__state"],
             raises_exactly={"HalfCloseUsedOnNonHalfCloseable": "not is_half(self._protocol)",
                             "AlreadyClosedError": "in_state(self, 'write_closed')"},
             ensures_raise={"HalfCloseUsedOnNonHalfCloseable": SILENT, "AlreadyClosedError": SILENT},
             ensures=[("one-CLOSE-iff-the-write-side-was-open",
                       "bcalls('send_close') == ite(old(w_open(self)), 1, 0) and not w_open(self)"),
                      ("writeConnectionLost-with-it", "bcalls('writeConnectionLost') == bcalls('send_close')")]),
]

CONTRACTS = list(SC_CONTRACTS)


def tasks():
    return [ContractTask(c, regf) for c in CONTRACTS]


TRUSTED = ["z3/cvc5", "pyvc semantics of the Python subset and of Automat dispatch (state set first, outputs in order, "
           "no row => automat.NoTransition with the state unchanged; tables extracted from the class body on every run)"]
ASSUMPTIONS = []
