"""C12 - Dilation L2 framing / encryption / encoding is lossless and rejects unkeyed input."""
import z3

from pyvc.contract import Contract
from pyvc.runner import ContractTask
from pyvc.automat import AutomatSupport
from pyvc.values import *   # noqa
from pyvc import values
from .common import make_registry, install_trace_funcs, register_classes

PROP = "C12"

values.NT_DEFS.update({
    "KCM": [], "Ping": [("ping_id", "bytes")], "Pong": [("ping_id", "bytes")],
    "Open": [("seqnum", "int"), ("scid", "int"), ("subprotocol", "str")],
    "Data": [("seqnum", "int"), ("scid", "int"), ("data", "bytes")],
    "Close": [("seqnum", "int"), ("scid", "int")], "Ack": [("resp_seqnum", "int")],
    "Frame": [("frame", "bytes")], "Prologue": [], "RelayOk": [], "Handshake": [],
})
RECORD = "union[nt[KCM],nt[Ping],nt[Pong],nt[Open],nt[Data],nt[Close],nt[Ack]]"
U32 = 4294967296


def _noise_ufs():
    from pyvc.models import uf
    return uf("noise_ok", IntS, StringS, BoolS), uf("noise_dec", IntS, StringS, StringS)


def _ghost(it, recv, name, ty):
    recv = it.force(recv)
    if name not in recv.fields:
        recv.fields[name] = it.fresh(ty, "noise." + name)
    return recv.fields[name]


def noise_encrypt(it, recv, meth, args, kwargs, fr):
    """assumed Noise contract (AEAD with a stateful nonce): the ciphertext is 16 bytes longer than the plaintext (tag);
    plaintexts up to NOISE_MAX_PAYLOAD only; the ciphertext made at sending nonce n is accepted at receiving nonce n and
    decrypts to the plaintext: noise_ok(n, c) and noise_dec(n, c) == p; the nonce counter advances by one"""
    ok, dec = _noise_ufs()
    m = it.force(args[0])
    n = _ghost(it, recv, "tx", "int")
    c = z3.String(it.ctx.namer("noise_ct"))
    it.ctx.assume(z3.Length(c) == z3.Length(m.z) + 16)
    it.ctx.prove(z3.Length(m.z) <= 65519, "noise.encrypt.payload-fits-one-packet",
                 {"kind": "call-requires", "src": "len(plaintext) <= NOISE_MAX_PAYLOAD at every noise.encrypt()"})
    it.ctx.assume(ok(n.z, c))
    it.ctx.assume(dec(n.z, c) == m.z)
    it.force(recv).fields["tx"] = VInt(n.z + 1)
    it.ctx.event("noise.encrypt", m, VStr(c, "bytes"))
    return VStr(c, "bytes")


def noise_decrypt(it, recv, meth, args, kwargs, fr):
    """at receiving nonce n: NoiseInvalidMessage iff not noise_ok(n, c) (not produced with the key at this nonce, corrupted,
    too short), else the plaintext noise_dec(n, c), 16 bytes shorter, and the nonce counter advances by one"""
    ok, dec = _noise_ufs()
    c = it.force(args[0])
    n = _ghost(it, recv, "rx", "int")
    _ghost(it, recv, "failed", "bool")
    it.ctx.prove(z3.Length(c.z) <= 65535, "noise.decrypt.ciphertext-fits-one-packet",
                 {"kind": "call-requires", "src": "len(ciphertext) <= NOISE_MAX_CIPHERTEXT at every noise.decrypt()"})
    if not it.ctx.branch(ok(n.z, c.z), "noise.decrypt"):
        it.force(recv).fields["failed"] = VBool(True)
        it.ctx.event("noise.decrypt.invalid", c)
        it.raise_("NoiseInvalidMessage")
    m = dec(n.z, c.z)
    it.ctx.assume(z3.Length(c.z) >= 16)
    it.ctx.assume(z3.Length(m) == z3.Length(c.z) - 16)
    it.force(recv).fields["rx"] = VInt(n.z + 1)
    it.ctx.event("noise.decrypt", c, VStr(m, "bytes"))
    return VStr(m, "bytes")


def noise_read_message(it, recv, meth, args, kwargs, fr):
    """the handshake message is either rejected (NoiseInvalidMessage: not made with the dilation key) or accepted"""
    _ghost(it, recv, "failed", "bool")
    if it.ctx.choose([z3.BoolVal(True), z3.BoolVal(True)], "noise.read_message") == 1:
        it.force(recv).fields["failed"] = VBool(True)
        it.ctx.event("noise.read_message.invalid", it.force(args[0]))
        it.raise_("NoiseInvalidMessage")
    return VStr(z3.String(it.ctx.namer("hs_payload")), "bytes")


def noise_write_message(it, recv, meth, args, kwargs, fr):
    """assumed: a Noise handshake message is at most one Noise packet (65535 bytes)"""
    m = z3.String(it.ctx.namer("noise_hs_out"))
    it.ctx.assume(z3.Length(m) <= 65535)
    it.ctx.event("bcall", "Noise", "write_message", [], {})
    it.ctx.event("noise.write_message", VStr(m, "bytes"))
    return VStr(m, "bytes")


def regf(exclude=()):
    reg = make_registry()
    install_trace_funcs(reg)
    register_classes(reg, ["wormhole/errors.py", "wormhole/_dilation/connection.py"])
    for c in CONTRACTS + GEN_CONTRACTS:
        if c.target not in exclude:
            reg.contracts[c.target] = c
    reg.boundary["Noise.encrypt"] = noise_encrypt
    reg.boundary["Noise.decrypt"] = noise_decrypt
    reg.boundary["Noise.read_message"] = noise_read_message
    reg.class_fields["_Framer"] = {"_can_send_frames": "bool", "_transport": "obj[Transport]", "_buffer": "bytes"}
    reg.class_fields["Noise"] = {"tx": "int", "rx": "int", "failed": "bool"}     # ghost: nonce counters, "rejected something"
    sf = reg.spec_funcs

    def events(it, name):
        return [e for e in it.ctx.trace if e[0] == it.concrete(name)]

    sf["n_events"] = lambda it, name: VInt(len(events(it, name)))

    def ceil_div(it, a, b):
        return VInt((a.z + b.z - 1) / b.z)

    sf["ceil_div"] = ceil_div
    sf["min2"] = lambda it, a, b: VInt(z3.If(a.z < b.z, a.z, b.z))
    from pyvc import models as _m
    sf["be_value4"] = lambda it, s: VInt(_m.be_int(s.z, 4))
    sf["all_bytes4"] = lambda it, s: VBool(z3.And([z3.And(z3.StrToCode(z3.SubString(s.z, i, 1)) >= 0,
                                                          z3.StrToCode(z3.SubString(s.z, i, 1)) <= 255) for i in range(4)]))
    sf["noise_ok"] = lambda it, n, c: VBool(_noise_ufs()[0](n.z, c.z))
    sf["noise_dec"] = lambda it, n, c: VStr(_noise_ufs()[1](n.z, c.z), "bytes")
    return reg


REC_REQ = ("record_in_range(r)")

CONTRACTS = [
    Contract("wormhole/_dilation/encode.py:to_be4", props=[PROP], params={"value": "int"}, returns="bytes",
             raises_exactly={"ValueError": f"not (0 <= value and value < {U32})"},
             ensures=[("four-bytes", "len(result) == 4"), ("decodes-back", "be4_value(result) == value")]),
    Contract("wormhole/_dilation/encode.py:from_be4", props=[PROP], params={"b": "bytes"}, returns="int",
             raises_exactly={"ValueError": "len(b) != 4"},
             ensures=[("range", f"0 <= result and result < {U32}"), ("encodes-back", "be4(result) == b")]),
    Contract("wormhole/_dilation/connection.py:_Framer.parse_frame", props=[PROP], params={},
             self_fields={"_buffer": "bytes"}, modifies=["_buffer"], returns="opt[nt[Frame]]",
             ensures=[("incomplete-leaves-buffer",
                       "implies(result is None, self._buffer == old(self._buffer) and (len(self._buffer) < 4 or "
                       "len(self._buffer) < 4 + be4_value(self._buffer[0:4])))"),
                      ("one-whole-frame",
                       "implies(result is not None, len(old(self._buffer)) >= 4 + len(result.frame) and "
                       "old(self._buffer) == old(self._buffer)[0:4] + result.frame + self._buffer "
                       "and len(result.frame) == be4_value(old(self._buffer)[0:4]))")]),
    Contract("wormhole/_dilation/connection.py:_Framer.send_frame", props=[PROP], params={"frame": "bytes"},
             self_fields={"_can_send_frames": "bool", "_transport": "obj[Transport]"},
             requires=["self._can_send_frames", f"len(frame) < {U32}"],
             effects=[("write", ["be4(len(frame)) + frame"])],
             note="exactly one transport.write, of be4(len(frame)) + frame"),
    Contract("lemma:be4_definition_injective", props=[PROP], source_module="wormhole/_dilation/encode.py",
             params={"a": "bytes", "b": "bytes"},
             source_text="""
             def be4_definition_injective(a, b):
                 return (a, b)
             """,
             requires=["len(a) == 4 and len(b) == 4", "all_bytes4(a) and all_bytes4(b)", "be_value4(a) == be_value4(b)"],
             ensures=[("same-value-same-bytes", "a == b"), ("value-in-range", f"0 <= be_value4(a) and be_value4(a) < {U32}")],
             note="the DEFINITION of '>L' (value = b0*2^24 + b1*2^16 + b2*2^8 + b3, each byte 0..255) is injective with range "
                  "0..2^32-1, so `unpack` is a function and pack/unpack as defined are mutually inverse: the round-trip facts the "
                  "struct model adds at each use (pyvc/models.py be4_of/unbe4_of) follow from the definition; what stays assumed "
                  "is only that struct implements this definition"),
    Contract("lemma:frame_roundtrip", props=[PROP], source_module="wormhole/_dilation/connection.py",
             params={"fr": "obj[_Framer]", "f": "bytes", "rest": "bytes"},
             source_text="""
             def frame_roundtrip(fr, f, rest):
                 fr._buffer = to_be4(len(f)) + f + rest
                 return fr.parse_frame()
             """,
             requires=[f"len(f) < {U32}"],
             ensures=[("frame-recovered", "result is not None and result.frame == f and fr._buffer == rest")],
             note="what send_frame writes, followed by anything, parses back to exactly that frame (both by contract)"),
    Contract("lemma:frame_incomplete", props=[PROP], source_module="wormhole/_dilation/connection.py",
             params={"fr": "obj[_Framer]", "f": "bytes", "cut": "int"},
             source_text="""
             def frame_incomplete(fr, f, cut):
                 whole = to_be4(len(f)) + f
                 fr._buffer = whole[:cut]
                 return fr.parse_frame()
             """,
             requires=[f"len(f) < {U32}", "0 <= cut and cut < 4 + len(f)"],
             ensures=[("nothing-yet", "result is None")],
             note="any proper prefix of a frame yields no frame (so fragmentation never produces a truncated frame)"),
    Contract("wormhole/_dilation/connection.py:_Framer._get_expected", props=[PROP],
             params={"name": "str", "expected": "bytes"}, self_fields={"_buffer": "bytes"}, modifies=["_buffer"], returns="bool",
             raises={"Disconnect": "not expected.startswith(self._buffer) and not self._buffer.startswith(expected)"},
             ensures_raise={"Disconnect": [("buffer-kept-for-the-log", "self._buffer == old(self._buffer)")]},
             ensures=[("true-consumes-exactly-expected",
                       "implies(result, old(self._buffer) == expected + self._buffer)"),
                      ("false-keeps-buffer", "implies(not result, self._buffer == old(self._buffer) and "
                                             "not old(self._buffer).startswith(expected))"),
                      ("false-only-while-on-track-or-short",
                       "implies(not result, expected.startswith(self._buffer) or "
                       "(b'\\n' not in self._buffer and len(self._buffer) < len(expected)))")]),
    Contract("wormhole/_dilation/connection.py:_Framer.parse_prologue", props=[PROP], params={},
             self_fields={"_buffer": "bytes", "_inbound_prologue": "bytes"}, modifies=["_buffer"], returns="opt[nt[Prologue]]",
             raises={"Disconnect": "not self._inbound_prologue.startswith(self._buffer) and "
                                   "not self._buffer.startswith(self._inbound_prologue)"},
             ensures_raise={"Disconnect": [("buffer-kept", "self._buffer == old(self._buffer)")]},
             ensures=[("token-only-after-exact-prologue",
                       "implies(result is not None, old(self._buffer) == self._inbound_prologue + self._buffer)"),
                      ("no-token-keeps-buffer", "implies(result is None, self._buffer == old(self._buffer))"),
                      ("token-is-a-Prologue", "result is None or isinstance(result, Prologue)"),
                      ("no-token-only-while-the-prologue-may-still-come",
                       "implies(result is None, not self._buffer.startswith(self._inbound_prologue) and "
                       "(self._inbound_prologue.startswith(self._buffer) or "
                       "(b'\\n' not in self._buffer and len(self._buffer) < len(self._inbound_prologue))))")]),
    Contract("wormhole/_dilation/connection.py:_Framer.parse_relay_ok", props=[PROP], params={},
             self_fields={"_buffer": "bytes", "_expected_relay_handshake": "bytes"}, modifies=["_buffer"],
             returns="opt[nt[RelayOk]]",
             raises={"Disconnect": "not self._expected_relay_handshake.startswith(self._buffer) and "
                                   "not self._buffer.startswith(self._expected_relay_handshake)"},
             ensures_raise={"Disconnect": [("buffer-kept", "self._buffer == old(self._buffer)")]},
             ensures=[("token-only-after-exact-reply",
                       "implies(result is not None, old(self._buffer) == self._expected_relay_handshake + self._buffer)"),
                      ("no-token-keeps-buffer", "implies(result is None, self._buffer == old(self._buffer))"),
                      ("token-is-a-RelayOK", "result is None or isinstance(result, RelayOK)"),
                      ("no-token-only-while-the-reply-may-still-come",
                       "implies(result is None, not self._buffer.startswith(self._expected_relay_handshake) and "
                       "(self._expected_relay_handshake.startswith(self._buffer) or "
                       "(b'\\n' not in self._buffer and len(self._buffer) < len(self._expected_relay_handshake))))")]),
    Contract("lemma:record_roundtrip", props=[PROP], source_module="wormhole/_dilation/connection.py",
             params={"r": RECORD},
             source_text="""
             def record_roundtrip(r):
                 return parse_record(encode_record(r))
             """,
             requires=[REC_REQ], ensures=[("parse-encode-identity", "result == r")],
             note="encode_record and parse_record are executed symbolically (inlined); to_be4/from_be4 by contract"),
    Contract("wormhole/_dilation/connection.py:parse_record", props=[PROP], params={"plaintext": "bytes"}, returns=RECORD,
             raises={"ValueError": None, "UnicodeDecodeError": None},
             ensures=[("a-record", "True")],
             note="total up to the two documented failures: unknown type byte / short field -> ValueError; non-UTF8 "
                  "subprotocol -> UnicodeDecodeError (only a key holder can get a plaintext this far)"),
    Contract("wormhole/_dilation/connection.py:encode_record", props=[PROP], params={"r": RECORD}, returns="bytes",
             requires=[REC_REQ],
             ensures=[("nonempty-with-type-byte", "len(result) >= 1"),
                      ("bounded-by-payload", "len(result) <= 9 + payload_len(r)")]),
    Contract("wormhole/_dilation/connection.py:_Record.send_record", props=[PROP], params={"r": RECORD},
             self_fields={"_noise": "obj[Noise]", "_framer": "obj[_Framer]"},
             requires=[REC_REQ, "self._framer._can_send_frames", "payload_len(r) < 4000000000"],
             modifies=["_noise.tx"],
             ensures=[("one-nonce-per-packet", "self._noise.tx > old(self._noise.tx)")],
             internal_ensures=[
                 ("nonces-used-are-consecutive", "self._noise.tx == old(self._noise.tx) + n_events('noise.encrypt') or len(message) > 65519"),
                 ("multi-packet-nonces", "implies(len(message) > 65519, self._noise.tx == old(self._noise.tx) + ceil_div(len(message), 65519))"),
                 ("every-packet-opens-to-its-slice-at-its-nonce",
                  "implies(len(message) > 65519, forall(lambda k: implies(0 <= k and k < ceil_div(len(message), 65519), "
                  "noise_ok(old(self._noise.tx) + k, frame[65535 * k:65535 * (k + 1)]) and "
                  "noise_dec(old(self._noise.tx) + k, frame[65535 * k:65535 * (k + 1)]) == message[65519 * k:65519 * (k + 1)])))"),
                 ("one-frame", "bcalls('write') == 1 and len(bcall_names()) == 1 and "
                               "bcall_arg('write', 0, 0) == be4(len(frame)) + frame"),
                 ("single-packet-iff-fits", "implies(len(message) <= 65519, n_events('noise.encrypt') == 1 and "
                                            "len(frame) == len(message) + 16 and len(frame) <= 65535)"),
                 ("multi-packet-length", "implies(len(message) > 65519, len(frame) == len(message) + 16 * ceil_div(len(message), 65519) "
                                         "and len(frame) > 65535 and start == 65519 * ceil_div(len(message), 65519))")],
             loops={0: {"header": "start < len(message)",
                        "ghost_init": {"n_enc": "0"},
                        "ghost_update": {"n_enc": "n_enc + 1"},
                        "invariant": ["n_enc >= 0", "start == 65519 * n_enc",
                                      "n_enc == 0 or 65519 * (n_enc - 1) < len(message)",
                                      "len(frame) == min2(start, len(message)) + 16 * n_enc",
                                      "len(message) > 65519",
                                      "self._noise.tx == at_entry(self._noise.tx) + n_enc",
                                      "forall(lambda k: implies(0 <= k and k < n_enc, "
                                      "noise_ok(at_entry(self._noise.tx) + k, frame[65535 * k:65535 * (k + 1)]) and "
                                      "noise_dec(at_entry(self._noise.tx) + k, frame[65535 * k:65535 * (k + 1)]) == "
                                      "message[65519 * k:65519 * (k + 1)]))"],
                        "modifies": [("self", "_noise", "tx")]}},
             note="chunk arithmetic of the sender: k-th Noise packet is message[65519k:65519(k+1)], every packet but the "
                  "last is exactly 65535 bytes of ciphertext"),
    Contract("wormhole/_dilation/connection.py:_Record.decrypt_message", props=[PROP], params={"frame": "bytes"},
             self_fields={"_noise": "obj[Noise]", "_framer": "obj[_Framer]"}, returns=RECORD,
             requires=["not self._noise.failed"], modifies=["_noise.rx", "_noise.failed"],
             raises={"Disconnect": "True", "ValueError": None, "UnicodeDecodeError": None},
             ensures_raise={"Disconnect": [("only-on-noise-failure", "self._noise.failed")]},
             ensures=[("nothing-was-rejected", "not self._noise.failed"), ("nonce-advanced", "self._noise.rx > old(self._noise.rx)")],
             internal_ensures=[("no-forged-frame-gets-through", "n_events('noise.decrypt.invalid') == 0"),
                               ("multi-packet-plaintext-is-the-slices-opened-at-consecutive-nonces",
                                "implies(size > 65535, forall(lambda k: implies(0 <= k and k < n_dec, "
                                "call_arg('parse_record', 0, 0)[65519 * k:65519 * (k + 1)] == "
                                "noise_dec(old(self._noise.rx) + k, frame[65535 * k:65535 * (k + 1)]))))"),
                               ("single-packet-branch", "implies(size <= 65535, n_events('noise.decrypt') == 1)")],
             loops={0: {"header": "start < size",
                        "ghost_init": {"n_dec": "0"}, "ghost_update": {"n_dec": "n_dec + 1"},
                        "invariant": ["n_dec >= 0", "start == 65535 * n_dec", "size == len(frame)", "size > 65535",
                                      "len(message) == min2(start, size) - 16 * n_dec",
                                      "self._noise.rx == at_entry(self._noise.rx) + n_dec and not self._noise.failed",
                                      "forall(lambda k: implies(0 <= k and k < n_dec, message[65519 * k:65519 * (k + 1)] == "
                                      "noise_dec(at_entry(self._noise.rx) + k, frame[65535 * k:65535 * (k + 1)])))"],
                        "modifies": [("self", "_noise", "rx"), ("self", "_noise", "failed")]}},
             note="NoiseInvalidMessage (frame not produced with the key, or corrupted) always becomes Disconnect; "
                  "k-th slice is frame[65535k:65535(k+1)]"),
    Contract("wormhole/_dilation/connection.py:_Record.process_handshake", props=[PROP], params={"frame": "bytes"},
             self_fields={"_noise": "obj[Noise]", "_framer": "obj[_Framer]"}, returns="nt[Handshake]",
             modifies=["_noise.failed"], raises={"Disconnect": None},
             ensures_raise={"Disconnect": [("only-on-a-rejected-handshake", "self._noise.failed")]},
             ensures=[("handshake-token", "result is not None and isinstance(result, Handshake)"),
                      ("accepted-means-nothing-rejected", "self._noise.failed == old(self._noise.failed)")]),
    Contract("lemma:multi_packet_content", props=[PROP], source_module="wormhole/_dilation/connection.py",
             params={"sent": "bytes", "got": "bytes", "frame": "bytes", "n0": "int", "N": "int"},
             source_text="""
             def multi_packet_content(sent, got, frame, n0, N):
                 k = 0
                 while k < N:          # induction over the packets; the asserts are proved (assert_mode="prove"), then used
                     assert noise_dec(n0 + k, frame[65535 * k:65535 * (k + 1)]) == sent[65519 * k:65519 * (k + 1)]
                     assert got[65519 * k:65519 * (k + 1)] == noise_dec(n0 + k, frame[65535 * k:65535 * (k + 1)])
                     assert got[:65519 * (k + 1)] == got[:65519 * k] + got[65519 * k:65519 * (k + 1)]
                     assert sent[:65519 * (k + 1)] == sent[:65519 * k] + sent[65519 * k:65519 * (k + 1)]
                     k += 1
                 return got
             """, assert_mode="prove",
             requires=["N >= 1 and 65519 * (N - 1) < len(sent) and len(sent) <= 65519 * N",
                       "len(got) == len(sent)",
                       "forall(lambda j: implies(0 <= j and j < N, noise_dec(n0 + j, frame[65535 * j:65535 * (j + 1)]) == "
                       "sent[65519 * j:65519 * (j + 1)]))",
                       "forall(lambda j: implies(0 <= j and j < N, got[65519 * j:65519 * (j + 1)] == "
                       "noise_dec(n0 + j, frame[65535 * j:65535 * (j + 1)])))"],
             ensures=[("plaintext-recovered-for-every-length", "result == sent")],
             loops={0: {"header": "k < N", "invariant": ["0 <= k and k <= N", "got[:65519 * k] == sent[:65519 * k]"]}},
             note="composition of the two proved postconditions for one frame and nonce counters in step (sender's tx == "
                  "receiver's rx == n0): send_record `every-packet-opens-to-its-slice-at-its-nonce` (3rd premise, message = sent, "
                  "N = ceil(len/65519) packets), decrypt_message `multi-packet-plaintext-is-the-slices-opened-at-consecutive-"
                  "nonces` (4th premise, got = the plaintext handed to parse_record, same packet count by "
                  "packet_boundaries_coincide), lengths by the two length clauses; conclusion: the receiver parses exactly the "
                  "bytes the sender encoded, for every length (induction over the packets = the loop invariant). With "
                  "record_roundtrip: decrypt_message(frame of send_record(r)) == r"),
    Contract("lemma:packet_boundaries_coincide", props=[PROP], source_module="wormhole/_dilation/connection.py",
             params={"L": "int", "k": "int"},
             source_text="""
             def packet_boundaries_coincide(L, k):
                 n = (L + NOISE_MAX_PAYLOAD - 1) // NOISE_MAX_PAYLOAD       # packets the sender produces
                 size = L + 16 * n                                           # total frame length (send_record contract)
                 m = (size + NOISE_MAX_CIPHERTEXT - 1) // NOISE_MAX_CIPHERTEXT  # slices the receiver takes
                 sender_off = NOISE_MAX_CIPHERTEXT * k                        # k-th ciphertext starts here in the frame
                 sender_len = min(NOISE_MAX_PAYLOAD, L - NOISE_MAX_PAYLOAD * k) + 16
                 recv_off = NOISE_MAX_CIPHERTEXT * k
                 recv_len = min(NOISE_MAX_CIPHERTEXT, size - NOISE_MAX_CIPHERTEXT * k)
                 return (n, m, sender_off, sender_len, recv_off, recv_len, size)
             """,
             requires=["L > 65519", "0 <= k", "k < (L + 65518) // 65519"],
             ensures=[("same-packet-count", "result[0] == result[1]"),
                      ("same-offsets", "result[2] == result[4]"),
                      ("same-lengths", "result[3] == result[5]"),
                      ("multi-branch-taken", "result[6] > 65535")],
             note="linear arithmetic over the two contracts: the receiver's k-th slice is exactly the sender's k-th "
                  "ciphertext, so the Noise nonce sequences stay aligned"),
]


# ------------------------------------------------------------------ the inbound loops (generators)
CON = "wormhole/_dilation/connection.py"
FRAMER_FIELDS = {"__state": "state", "_buffer": "bytes", "_inbound_prologue": "bytes", "_outbound_prologue": "bytes",
                 "_expected_relay_handshake": "bytes", "_can_send_frames": "bool", "_transport": "obj[Transport]"}
# the framer object invariant: frames may be sent exactly once the peer's prologue has been seen
FRAMER_INV = "in_state(self, 'want_frame') == self._can_send_frames"
F_RELAY_DONE = "(at_entry(in_state(self, 'want_relay')) and not in_state(self, 'want_relay'))"
F_PROLOGUE_DONE = "(not at_entry(in_state(self, 'want_frame')) and in_state(self, 'want_frame'))"

GEN_CONTRACTS = [
    Contract(f"{CON}:_Framer.add_and_parse", props=[PROP], params={"data": "bytes"}, self_fields=FRAMER_FIELDS,
             requires=[FRAMER_INV], modifies=["__state", "_buffer", "_can_send_frames"],
             raises={"Disconnect": "not in_state(self, 'want_frame')"},
             ensures_raise={"Disconnect": [
                 ("no-frame-was-yielded", "nfr == 0 and wire == b''"),
                 ("only-when-the-stream-cannot-become-the-expected-handshake",
                  "ite(in_state(self, 'want_relay'), "
                  "not self._expected_relay_handshake.startswith(self._buffer) and not self._buffer.startswith(self._expected_relay_handshake), "
                  "not in_state(self, 'want_frame') and "
                  "not self._inbound_prologue.startswith(self._buffer) and not self._buffer.startswith(self._inbound_prologue))")]},
             internal_ensures=[
                 ("every-byte-accounted-for-in-order", "old(self._buffer) + data == hs + wire + self._buffer"),
                 ("handshake-bytes-are-exactly-the-expected-reply-and-prologue",
                  "hs == ite(old(in_state(self, 'want_relay')) and not in_state(self, 'want_relay'), self._expected_relay_handshake, b'') + "
                  "ite(not old(in_state(self, 'want_frame')) and in_state(self, 'want_frame'), self._inbound_prologue, b'')"),
                 ("yields-are-one-prologue-token-then-the-frames",
                  "ny == npro + nfr and npro == ite(not old(in_state(self, 'want_frame')) and in_state(self, 'want_frame'), 1, 0)"),
                 ("no-frame-before-the-prologue", "in_state(self, 'want_frame') or (nfr == 0 and wire == b'')"),
                 ("remainder-holds-no-complete-token",
                  "ite(in_state(self, 'want_frame'), len(self._buffer) < 4 or len(self._buffer) < 4 + be4_value(self._buffer[0:4]), "
                  "ite(in_state(self, 'want_prologue'), not self._buffer.startswith(self._inbound_prologue), "
                  "not self._buffer.startswith(self._expected_relay_handshake)))"),
                 ("remainder-may-still-become-the-expected-handshake",
                  "ite(in_state(self, 'want_frame'), True, ite(in_state(self, 'want_prologue'), "
                  "self._inbound_prologue.startswith(self._buffer) or (b'\\n' not in self._buffer and len(self._buffer) < len(self._inbound_prologue)), "
                  "self._expected_relay_handshake.startswith(self._buffer) or "
                  "(b'\\n' not in self._buffer and len(self._buffer) < len(self._expected_relay_handshake))))"),
                 ],
             ensures=[("framer-invariant-kept", FRAMER_INV),
                      ("state-only-advances", "(not old(in_state(self, 'want_frame')) or in_state(self, 'want_frame')) and "
                                              "(not old(in_state(self, 'want_prologue')) or not in_state(self, 'want_relay'))")],
             loops={0: {"header": "True",
                        "ghost_init": {"hs": "b''", "wire": "b''", "nfr": "0", "npro": "0", "ny": "0"},
                        "ghost_update": {"hs": "hs + handshake_bytes(self, at_iter(state_index(self)))", "wire": "wire + iter_frame_wire()",
                                         "nfr": "nfr + iter_yields('Frame')", "npro": "npro + iter_yields('Prologue')",
                                         "ny": "ny + iter_yields()"},
                        "modifies": [("self", "__state"), ("self", "_buffer"), ("self", "_can_send_frames")],
                        "body_ensures": [
                            "iter_yields() == ite(at_iter(in_state(self, 'want_frame')), 1, ite(in_state(self, 'want_frame'), 1, 0))",
                            "iter_yields() == iter_yields('Frame') + iter_yields('Prologue')",
                            "iter_yields('Frame') == ite(at_iter(in_state(self, 'want_frame')), 1, 0)",
                            "iter_own_bcalls('write') == ite(at_iter(in_state(self, 'want_relay')), 1, 0) and "
                            "iter_own_bcalls() == iter_own_bcalls('write')",
                            "iter_own_bcalls('write') == 0 or iter_own_bcall_arg('write', 0, 0) == self._outbound_prologue"],
                        "invariant": [
                            "at_entry(self._buffer) == hs + wire + self._buffer",
                            "nfr >= 0 and npro >= 0 and ny == nfr + npro",
                            "in_state(self, 'want_frame') or (nfr == 0 and wire == b'')",
                            f"npro == ite({F_PROLOGUE_DONE}, 1, 0)",
                            f"hs == ite({F_RELAY_DONE}, self._expected_relay_handshake, b'') + "
                            f"ite({F_PROLOGUE_DONE}, self._inbound_prologue, b'')",
                            "(not at_entry(in_state(self, 'want_frame')) or in_state(self, 'want_frame')) and "
                            "(not at_entry(in_state(self, 'want_prologue')) or not in_state(self, 'want_relay'))",
                            FRAMER_INV]}},
             note="for ANY chunking: what was buffered plus this chunk == (relay reply)(prologue) ++ be4-framed frames yielded, in "
                  "order ++ the remainder kept in _buffer; ghost `wire` is the concatenation of be4(len(f)) + f over the Frame "
                  "tokens in the order they are yielded (read from the yield events); the remainder holds no complete token"),
]

AU = "_Record.add_and_unframe"
DR = "DilatedConnectionProtocol.dataReceived"
RECORD_FIELDS = {"__state": "state", "_framer": "obj[_Framer]", "_noise": "obj[Noise]"}
# framer and record machines move in lock step: the record machine leaves want_prologue_* exactly when the framer has seen
# the peer's prologue (established by DilatedConnectionProtocol.connectionMade: role set, both machines in their first state)
COUPLED = ("not in_state(self, 'no_role_set') and in_state(self._framer, 'want_frame') == "
           "in_state(self, 'want_handshake_leader', 'want_handshake_follower', 'want_message')")
FRAMER_INV_R = "in_state(self._framer, 'want_frame') == self._framer._can_send_frames"
IS_FRAME = "isinstance(token, Frame)"
NOISE_OK = "not self._noise.failed"      # Noise has rejected nothing so far on this connection (else it was dropped)

GEN_CONTRACTS += [
    Contract(f"{CON}:{AU}", props=[PROP], params={"data": "bytes"}, self_fields=RECORD_FIELDS,
             requires=[COUPLED, FRAMER_INV_R, NOISE_OK],
             modifies=["__state", "_framer.__state", "_framer._buffer", "_framer._can_send_frames", "_noise.rx", "_noise.failed"],
             raises={"Disconnect": None, "ValueError": None, "UnicodeDecodeError": None},
             ensures=[("machines-still-in-lock-step", COUPLED), ("framer-invariant-kept", FRAMER_INV_R),
                      ("nothing-was-rejected", NOISE_OK)],
             ensures_raise=dict({e: [("the-failing-token-yields-nothing", f"body_yields('{AU}', '{AU}') == 0")]
                                 for e in ("ValueError", "UnicodeDecodeError")},
                                Disconnect=[("the-failing-token-yields-nothing",
                                             f"body_inputs('{AU}', 'got_frame') == 0 or body_yields('{AU}', '{AU}') == 0")]),
             loops={0: {"header": "for token in self._framer.add_and_parse(data)",
                        "modifies": [("self", "__state"), ("self", "_noise", "rx"), ("self", "_noise", "failed")],
                        "invariant": [COUPLED, NOISE_OK],
                        "body_ensures": [
                            f"body_inputs('{AU}', 'got_prologue') == ite(isinstance(token, Prologue), 1, 0)",
                            f"body_inputs('{AU}', 'got_frame') == ite({IS_FRAME}, 1, 0)",
                            f"implies({IS_FRAME}, body_input_arg('{AU}', 'got_frame', 0, 0) == token.frame)",
                            f"body_yields('{AU}', '{AU}') == ite({IS_FRAME}, 1, 0)",
                            f"implies({IS_FRAME}, isinstance(body_yield('{AU}', '{AU}', 0), Handshake_or_Records))",
                            f"body_calls('{AU}', 'decrypt_message') == ite({IS_FRAME} and at_iter(in_state(self, 'want_message')), 1, 0)",
                            f"body_calls('{AU}', 'process_handshake') == "
                            f"ite({IS_FRAME} and at_iter(in_state(self, 'want_handshake_leader', 'want_handshake_follower')), 1, 0)",
                            f"implies(body_calls('{AU}', 'decrypt_message') == 1, body_call_arg('{AU}', 'decrypt_message', 0, 1) == token.frame)",
                            f"implies(body_calls('{AU}', 'process_handshake') == 1, body_call_arg('{AU}', 'process_handshake', 0, 1) == token.frame)",
                            f"body_calls('{AU}', 'send_frame') == ite((isinstance(token, Prologue) and at_iter(in_state(self, 'want_prologue_leader')))"
                            f" or ({IS_FRAME} and at_iter(in_state(self, 'want_handshake_follower'))), 1, 0)",
                            f"body_bcalls('{AU}', 'write_message') == body_calls('{AU}', 'send_frame') and "
                            f"(body_calls('{AU}', 'send_frame') == 0 or body_call_arg('{AU}', 'send_frame', 0, 1) == noise_handshake_out(0))"]}},
             note="every Frame token of the framer goes to got_frame exactly once, in order, with exactly its bytes (so the k-th "
                  "frame meets the k-th Noise decrypt); one value is yielded per Frame and none for the Prologue; the Noise "
                  "handshake message is framed once: by the Leader on the prologue, by the Follower after reading the Leader's. "
                  "Framer loop invariants are re-proved here with this loop body running at every yield (real interleaving)"),
]

DCP_FIELDS = {"__state": "state", "_connector": "obj[ConnectorB]", "_manager": "opt[obj[ManagerB]]",
              "_inbound_record_queue": f"seq[{RECORD}]", "_can_send_records": "bool", "_disconnected": "obj[ObserverB]",
              "_role": "opaque[Role]", "_record": "obj[_Record]", "transport": "obj[Transport]"}
DCP_INV = "in_state(self, 'selected') == (self._manager is not None)"
LINK_INV = [x.replace("self", "self._record") for x in (COUPLED, FRAMER_INV_R)]
LINK_NOISE_OK = NOISE_OK.replace("self", "self._record")
PLAIN = "(not isinstance(token, Handshake) and not isinstance(token, KCM))"
FAILING = "'parse_prologue', 'parse_relay_ok', 'process_handshake', 'decrypt_message'"

GEN_CONTRACTS += [
    Contract(f"{CON}:{DR}", props=[PROP, "C11"], params={"data": "bytes"}, self_fields=DCP_FIELDS,
             requires=[DCP_INV, LINK_NOISE_OK] + LINK_INV,
             modifies=["__state", "_inbound_record_queue", "_record.__state", "_record._noise.rx", "_record._noise.tx",
                       "_record._noise.failed", "_record._framer.__state", "_record._framer._buffer",
                       "_record._framer._can_send_frames"],
             raises={"NoTransition": None, "ValueError": None, "UnicodeDecodeError": None},
             ensures_raise={
                 "NoTransition": [("only-from-this-protocol's-own-table-KCM-twice-or-record-before-KCM",
                                   "last_input_class() == 'DilatedConnectionProtocol'"),
                                  ("the-offending-token-reaches-nobody", "actions_after_last_input() == 0")],
                 "ValueError": [("nothing-at-all-happens-after-the-unparsable-record", "last_action() == 'decrypt_message'")],
                 "UnicodeDecodeError": [("nothing-at-all-happens-after-the-unparsable-record", "last_action() == 'decrypt_message'")]},
             ensures=[("selected-iff-manager", DCP_INV)] + [(f"link-invariant-{i}", x) for i, x in enumerate(LINK_INV)],
             internal_ensures=[
                 ("a-rejected-prologue-relay-reply-handshake-or-frame-always-closes-the-connection",
                  f"bcalls('loseConnection') == unreturned_calls({FAILING}) and unreturned_calls() == unreturned_calls({FAILING})"),
                 ("and-nothing-else-happens-after-the-rejected-token",
                  "unreturned_calls() == 0 or (actions_after_failure() == 1 and last_action() == 'loseConnection')"),
                 ("no-close-without-a-rejection", "unreturned_calls() > 0 or self._record._noise.failed == old(self._record._noise.failed)")],
             loops={0: {"header": "for token in self._record.add_and_unframe(data)",
                        "modifies": [("self", "__state"), ("self", "_inbound_record_queue"), ("self", "_record", "_noise", "tx")],
                        "invariant": [DCP_INV],
                        "body_ensures": [
                            f"body_bcalls('{DR}', 'got_record') == ite(at_iter(in_state(self, 'selected')) and {PLAIN}, 1, 0)",
                            f"implies(body_bcalls('{DR}', 'got_record') == 1, body_bcall_arg('{DR}', 'got_record', 0, 0) == token)",
                            f"implies(at_iter(in_state(self, 'selecting')) and {PLAIN}, "
                            f"self._inbound_record_queue == at_iter(self._inbound_record_queue) + [token])",
                            f"(at_iter(in_state(self, 'selecting')) and {PLAIN}) or "
                            f"self._inbound_record_queue == at_iter(self._inbound_record_queue)",
                            f"body_calls('{DR}', 'send_record') == ite(isinstance(token, Handshake) and is_role(self._role, 'FOLLOWER'), 1, 0)",
                            f"implies(body_calls('{DR}', 'send_record') == 1, isinstance(body_call_arg('{DR}', 'send_record', 0, 1), KCM))",
                            f"body_inputs('{DR}', 'got_kcm') == ite(isinstance(token, KCM), 1, 0)",
                            f"body_bcalls('{DR}', 'add_candidate') == body_inputs('{DR}', 'got_kcm')",
                            f"body_bcalls('{DR}') == body_bcalls('{DR}', 'got_record', 'add_candidate')",
                            f"body_inputs('{DR}', 'got_record') == ite({PLAIN}, 1, 0)"]}},
             note="the three real bodies (dataReceived, add_and_unframe, add_and_parse) run interleaved as Python runs them; a "
                  "Disconnect from the framer (wrong relay reply / prologue), from process_handshake or from decrypt_message "
                  "(NoiseInvalidMessage) is caught, transport.loseConnection() is the one and only thing that happens after it; "
                  "records reach manager.got_record only in `selected`, are queued in `selecting`; the Follower sends its KCM "
                  "once per Handshake token; got_kcm only for a KCM that decrypt_message returned"),
    Contract(f"{CON}:DilatedConnectionProtocol.connectionLost", props=[PROP, "C11"], params={"why": "opaque[Failure]"},
             self_fields=DCP_FIELDS, modifies=[],
             ensures=[("state-kept", "state_index(self) == old(state_index(self))")],
             internal_ensures=[("observers-of-this-link-are-told-once", "bcalls('fire') == 1 and len(bcall_names()) == 1 and "
                                                                        "bcall_arg('fire', 0, 0) is self")],
             note="when_disconnected() observers (Manager.connector_connection_lost, wired at select()) fire exactly once; nothing "
                  "is delivered to the manager from here"),
]


# ------------------------------------------------------------------ link set-up: who is keyed how, who says which prologue
CTR = "wormhole/_dilation/connector.py"
MGR = "wormhole/_dilation/manager.py"
NOISE_NAME = "b'Noise_NNpsk0_25519_ChaChaPoly_BLAKE2s'"          # docs/dilation-protocol.md: NNpsk0, the PSK is the dilation key
P_LEADER = "b'Magic-Wormhole Dilation Handshake v1 Leader\\n\\n'"      # docs/dilation-protocol.md, "Connection Negotiation"
P_FOLLOWER = "b'Magic-Wormhole Dilation Handshake v1 Follower\\n\\n'"
IS_LEADER = "is_role(self._role, 'LEADER')"
DCP_NEW_FIELDS = {"__state": "state", "_eventual_queue": "obj[EventualQueueB]", "_role": "opaque[Role]", "_description": "str",
                  "_connector": "obj[Connector]", "_noise": "obj[Noise]", "_outbound_prologue": "bytes",
                  "_inbound_prologue": "bytes", "_use_relay": "bool", "_relay_handshake": "opt[bytes]",
                  "_manager": "opt[obj[ManagerB]]", "_inbound_record_queue": f"seq[{RECORD}]", "_can_send_records": "bool",
                  "_disconnected": "obj[OneShotObserver]"}
DCP_CM_FIELDS = {"__state": "state", "transport": "obj[Transport]", "_role": "opaque[Role]", "_noise": "obj[Noise]",
                 "_outbound_prologue": "bytes", "_inbound_prologue": "bytes", "_use_relay": "bool",
                 "_relay_handshake": "opt[bytes]"}
REC = "self._record"
FRM = "self._record._framer"

HS_CONTRACTS = [
    Contract(f"{CON}:DilatedConnectionProtocol.use_relay", props=[PROP], params={"relay_handshake": "bytes"},
             self_fields={"_use_relay": "bool", "_relay_handshake": "opt[bytes]"}, modifies=["_use_relay", "_relay_handshake"],
             ensures=[("relay-handshake-configured", "self._use_relay and self._relay_handshake is not None and "
                                                     "self._relay_handshake == relay_handshake")],
             internal_ensures=[("nothing-is-written-yet", "len(bcall_names()) == 0")],
             note="the only place that sets _use_relay: it always comes with the handshake bytes (connectionMade's precondition)"),
    Contract(f"{CON}:DilatedConnectionProtocol.connectionMade", props=[PROP, "C11"], params={}, self_fields=DCP_CM_FIELDS,
             requires=["has_role(self._role)", "not self._use_relay or self._relay_handshake is not None"],
             modifies=["_record"],
             ensures=[("state-kept", "state_index(self) == old(state_index(self))"),
                      ("record-layer-has-this-link's-role", f"{REC}._role is self._role"),
                      ("role-set-leader-iff-LEADER",
                       f"in_state({REC}, 'want_prologue_leader') == {IS_LEADER} and "
                       f"in_state({REC}, 'want_prologue_follower') == (not {IS_LEADER})"),
                      ("framer-told-what-to-expect",
                       f"{FRM}._inbound_prologue == self._inbound_prologue and {FRM}._outbound_prologue == self._outbound_prologue"),
                      ("framer-waits-for-the-relay-reply-iff-a-relay-handshake-is-configured",
                       f"in_state({FRM}, 'want_relay') == self._use_relay and in_state({FRM}, 'want_prologue') == (not self._use_relay)"),
                      ("relay-reply-expected-is-ok-newline",
                       f"implies(self._use_relay, {FRM}._expected_relay_handshake == b'ok\\n' and "
                       f"{FRM}._outbound_relay_handshake == self._relay_handshake)"),
                      ("nothing-buffered-no-frames-yet", f"{FRM}._buffer == b'' and not {FRM}._can_send_frames"),
                      ("noise-untouched", "self._noise.failed == old(self._noise.failed) and self._noise.tx == old(self._noise.tx) "
                                          "and self._noise.rx == old(self._noise.rx)")] +
                     [(f"establishes-link-invariant-{i}", x) for i, x in enumerate(LINK_INV)],
             internal_ensures=[
                 ("exactly-one-write-relay-handshake-if-configured-else-this-role's-prologue",
                  "bcalls('write') == 1 and implies(self._use_relay, bcall_arg('write', 0, 0) == self._relay_handshake) and "
                  "implies(not self._use_relay, bcall_arg('write', 0, 0) == self._outbound_prologue)"),
                 ("nothing-else-happens-but-starting-the-noise-handshake-state",
                  "bcall_names() == ['start_handshake', 'write']"),
                 ("the-write-goes-to-this-transport", "bcall_recv('write', 0) is self.transport and "
                                                      "bcall_recv('start_handshake', 0) is self._noise"),
                 # object identities are callee-side clauses (a caller's view of a result object is a fresh object)
                 ("record-layer-uses-this-link's-noise-object", f"{REC}._noise is self._noise"),
                 ("framer-writes-to-this-transport", f"{FRM}._transport is self.transport")],
             note="through the real _Framer / _Record tables: with a relay handshake configured the relay handshake is the one "
                  "thing written and the framer waits for the relay's reply (the prologue follows on got_relay_ok, see "
                  "add_and_parse: iter_own_bcall_arg('write') == _outbound_prologue); without, the prologue of this role is the "
                  "one thing written. Establishes every precondition of dataReceived that concerns _record"),
    Contract(f"{CON}:DilatedConnectionProtocol.send_record", props=[PROP], params={"record": RECORD},
             self_fields={"_can_send_records": "bool", "_record": "obj[_Record]"},
             requires=["record_in_range(record)", "self._record._framer._can_send_frames", "payload_len(record) < 4000000000"],
             raises_exactly={"AssertionError": "not self._can_send_records"},
             ensures_raise={"AssertionError": [("nothing-sent", "n_calls('_Record.send_record') == 0 and len(bcall_names()) == 0")]},
             modifies=["_record._noise.tx"],
             internal_ensures=[("handed-to-the-record-layer-once-unchanged",
                                "n_calls('_Record.send_record') == 1 and call_arg('_Record.send_record', 0, 1) == record and "
                                "call_arg('_Record.send_record', 0, 0) is self._record")],
             note="the manager's records enter the L2 pipeline unchanged and exactly once; refused before select()"),
    Contract(f"{CTR}:build_noise", props=[PROP], params={}, returns="obj[Noise]",
             ensures=[("fresh-nonce-counters", "result.tx == 0 and result.rx == 0 and not result.failed")],
             internal_ensures=[("pattern-is-NNpsk0-25519-ChaChaPoly-BLAKE2s",
                                f"bcall_names() == ['from_name'] and bcall_arg('from_name', 0, 0) == {NOISE_NAME}"),
                               ("result-is-that-connection", "result is noise_made(0)")]),
    Contract(f"{CTR}:Connector.build_protocol", props=[PROP, "C11"], params={"addr": "opaque[address]", "description": "str"},
             self_fields={"_dilation_key": "bytes", "_role": "opaque[Role]", "_eventual_queue": "obj[EventualQueueB]"},
             modifies=[], returns="obj[DilatedConnectionProtocol]",
             ensures=[("outbound-prologue-is-this-role's", f"result._outbound_prologue == ite({IS_LEADER}, {P_LEADER}, {P_FOLLOWER})"),
                      ("inbound-prologue-is-the-other-role's", f"result._inbound_prologue == ite({IS_LEADER}, {P_FOLLOWER}, {P_LEADER})"),
                      ("protocol-knows-role-and-description", "result._role is self._role and result._description == description"),
                      ("new-protocol-is-unselected-without-manager-or-relay",
                       "in_state(result, 'unselected') and result._manager is None and not result._can_send_records and "
                       "len(result._inbound_record_queue) == 0 and not result._use_relay"),
                      ("noise-has-rejected-nothing", "not result._noise.failed and result._noise.tx == 0 and result._noise.rx == 0")],
             internal_ensures=[
                 ("protocol-reports-to-this-connector", "result._connector is self and result._eventual_queue is self._eventual_queue"),
                 ("one-noise-connection-of-pattern-NNpsk0", f"bcalls('from_name') == 1 and bcall_arg('from_name', 0, 0) == {NOISE_NAME} "
                                                            "and result._noise is noise_made(0)"),
                 ("psk-is-the-dilation-key", "bcalls('set_psks') == 1 and bcall_arg('set_psks', 0, 0) == self._dilation_key and "
                                             "bcall_recv('set_psks', 0) is noise_made(0)"),
                 ("leader-initiates-follower-responds",
                  f"bcalls('set_as_initiator') == ite({IS_LEADER}, 1, 0) and bcalls('set_as_responder') == ite({IS_LEADER}, 0, 1) and "
                  f"implies({IS_LEADER}, bcall_recv('set_as_initiator', 0) is noise_made(0)) and "
                  f"implies(not {IS_LEADER}, bcall_recv('set_as_responder', 0) is noise_made(0))"),
                 ("keyed-and-role-bound-before-anything-else-and-nothing-more",
                  f"bcall_names() == ['from_name', 'set_psks', ite({IS_LEADER}, 'set_as_initiator', 'set_as_responder')]")],
             note="role-to-pattern binding: both ends run NNpsk0 with the same PSK, the Leader as initiator and the Follower as "
                  "responder (two initiators or two responders never complete a handshake; a peer without the PSK fails "
                  "read_message); the prologues are the documented pair, crossed"),
    Contract(f"{MGR}:Dilator.got_key", props=[PROP], params={"key": "bytes"},
             self_fields={"_manager": "opt[obj[ManagerB]]", "_pending_dilation_key": "opt[bytes]"},
             modifies=["_pending_dilation_key"],
             ensures=[("without-a-manager-the-dilation-key-is-kept-for-it",
                       "implies(old(self._manager) is None, self._pending_dilation_key is not None and "
                       "self._pending_dilation_key == hkdf(key, 32, b'dilation-v1'))"),
                      ("with-a-manager-nothing-is-kept",
                       "implies(old(self._manager) is not None, self._pending_dilation_key is old(self._pending_dilation_key))")],
             internal_ensures=[
                 ("the-manager-gets-HKDF-of-the-wormhole-key-with-purpose-dilation-v1-32-bytes",
                  "implies(old(self._manager) is not None, bcall_names() == ['got_dilation_key'] and "
                  "bcall_arg('got_dilation_key', 0, 0) == hkdf(key, 32, b'dilation-v1'))"),
                 ("without-a-manager-nobody-is-called", "implies(old(self._manager) is None, len(bcall_names()) == 0)")],
             note="the Noise PSK of every L2 link (Connector._dilation_key, handed to noise.set_psks by build_protocol) is "
                  "derive_key(wormhole key, b'dilation-v1', 32); derive_key by its C01 contract (HKDF, purpose = info field)"),
    Contract("lemma:prologues_cross_match", props=[PROP, "C11"], source_module=CTR,
             params={"leader": "obj[Connector]", "follower": "obj[Connector]", "ta": "obj[Transport]", "tb": "obj[Transport]",
                     "addr": "opaque[address]", "description": "str", "more": "bytes"},
             source_text="""
             def prologues_cross_match(leader, follower, ta, tb, addr, description, more):
                 pa = leader.build_protocol(addr, description)
                 pb = follower.build_protocol(addr, description)
                 pa.transport = ta                       # Protocol.makeConnection
                 pb.transport = tb
                 pa.connectionMade()
                 pb.connectionMade()
                 fa = pa._record._framer
                 fb = pb._record._framer
                 a_wrote = bcall_arg("write", 0, 0)
                 b_wrote = bcall_arg("write", 1, 0)
                 out = []
                 fb._buffer = a_wrote + more            # B receives what A wrote, followed by anything
                 out.append(fb._get_expected("prologue", fb._inbound_prologue))
                 out.append(fb._buffer)
                 fa._buffer = b_wrote + more
                 out.append(fa._get_expected("prologue", fa._inbound_prologue))
                 out.append(fa._buffer)
                 for f, w in ((fa, a_wrote), (fb, b_wrote)):      # each side's own prologue reflected back at it
                     f._buffer = w + more
                     try:
                         f._get_expected("prologue", f._inbound_prologue)
                         out.append("accepted")
                     except Disconnect:
                         out.append("rejected")
                 return out
             """,
             requires=["is_role(leader._role, 'LEADER') and is_role(follower._role, 'FOLLOWER')"],
             ensures=[("follower-accepts-exactly-what-the-leader-wrote", "result[0] == True and result[1] == more"),
                      ("leader-accepts-exactly-what-the-follower-wrote", "result[2] == True and result[3] == more"),
                      ("a-reflected-prologue-is-rejected-on-both-roles", "result[4] == 'rejected' and result[5] == 'rejected'")],
             note="the REAL bodies of build_protocol, connectionMade (real _Framer / _Record tables) and _get_expected run in this "
                  "harness, none by contract: what role A's connectionMade writes is consumed as the prologue by role B's framer, "
                  "and A's own framer refuses it (Disconnect), whatever follows it on the wire"),
]


# build_protocol is verified with the two-line build_noise inlined (the pattern name is read off the real call)
HS_INLINE = {f"{CTR}:Connector.build_protocol": (f"{CTR}:build_noise",),
             "lemma:prologues_cross_match": (f"{CTR}:build_noise", f"{CTR}:Connector.build_protocol",
                                             f"{CON}:DilatedConnectionProtocol.connectionMade", f"{CON}:_Framer._get_expected")}


def noise_from_name(it, recv, meth, args, kwargs, fr):
    """assumed (noiseprotocol): NoiseConnection.from_name(name) returns a new connection object for that protocol name;
    its nonce counters start at 0 and it has rejected nothing (ghost fields of the Noise model above)"""
    o = VObj("Noise", {"tx": VInt(0), "rx": VInt(0), "failed": VBool(False)})
    it.ctx.event("bcall", "NoiseConnection", "from_name", list(args), dict(kwargs))
    it.ctx.event("noise.made", o)
    return o


def new_machine_real(name):
    """Cls(...) for a repository class with an Automat machine: the real attrs constructor and __attrs_post_init__ run;
    Automat: a new machine object is in its initial state (otherwise `__state` only appears at the first input)"""
    def h(it, klass, args, kwargs):
        saved = it.reg.ext_models.pop("new:" + name)
        try:
            o = it.instantiate(klass, args, kwargs, None)
        finally:
            it.reg.ext_models["new:" + name] = saved
        it.reg.automat.init_state(it, o, klass.cdef)
        return o
    return h


def regf_hs(inline=()):
    def f():
        reg = regf_dcp()
        from . import c13 as _c13
        reg.boundary["*.*"] = _c13.recording_boundary
        _c13.install_spec(reg)
        register_classes(reg, [CTR, MGR])
        from . import whmodels, whcontracts
        whmodels.install_crypto(reg)
        reg.contracts[whcontracts.DERIVE_KEY.target] = whcontracts.DERIVE_KEY
        for c in HS_CONTRACTS:
            reg.contracts[c.target] = c
        for t in inline:
            reg.contracts.pop(t, None)
        reg.ext_models[f"global:wormhole/_dilation/_noise.py:NoiseConnection"] = lambda it: VObj("NoiseConnection")
        reg.boundary["NoiseConnection.from_name"] = noise_from_name
        for cls in ("DilatedConnectionProtocol", "_Framer", "_Record"):
            reg.ext_models["new:" + cls] = new_machine_real(cls)
        reg.class_fields["DilatedConnectionProtocol"] = dict(DCP_NEW_FIELDS, transport="obj[Transport]", _record="obj[_Record]")
        reg.class_fields["_Record"]["_role"] = "opaque[Role]"
        reg.class_fields["Connector"] = {"_dilation_key": "bytes", "_role": "opaque[Role]", "_eventual_queue": "obj[EventualQueueB]"}

        def noise_made(it, k):
            evs = [e for e in it.ctx.trace if e[0] == "noise.made"]
            k = it.concrete(k)
            return evs[k][1][0] if k < len(evs) else VObj("<missing>")

        reg.spec_funcs["noise_made"] = noise_made
        return reg
    return f


def regf_gen():
    reg = regf()
    reg.automat = AutomatSupport()
    reg.automat.havoc_inputs = True        # a loop body that calls an Automat input may change the state / run its outputs
    reg.lazy_generators = True             # `for x in gen()` interleaves the two real bodies (pyvc/interp.py: for_generator)
    reg.check_loop_frame = True            # every location a loop iteration changes must be havocked at the cut
    _setup_spec(reg)
    _setup_gen_spec(reg)
    reg.class_fields["_Framer"] = dict(FRAMER_FIELDS)
    reg.class_fields["_Record"] = dict(RECORD_FIELDS)
    reg.boundary["Noise.write_message"] = noise_write_message
    reg.class_fields["_Record"]["_role"] = "opaque[Role]"
    from . import c11
    c11.install_roles(reg)
    return reg


def regf_dcp():
    """dataReceived: an input of the protocol's own machine that has no row raises automat.NoTransition (what Automat does);
    the contract says which inputs that can be (never one of the framer's or the record layer's)"""
    reg = regf_gen()
    reg.automat.notransition_raises = True
    return reg


def _iter_events(it, name):
    """events of the current loop iteration made by the loop's own function: what a consumer's loop body did while the
    generator was suspended at a yield (bracketed by for-body-start / for-body-end) is not the generator's doing"""
    tr = it.ctx.trace
    start = max([i for i, e in enumerate(tr) if e[0] == "loop-body-start"] + [-1])
    out, depth = [], 0
    for e in tr[start + 1:]:
        if e[0] == "for-body-start":
            depth += 1
        elif e[0] == "for-body-end":
            depth -= 1
        elif depth == 0 and e[0] == name:
            out.append(e)
    return out


def _setup_gen_spec(reg):
    sf = reg.spec_funcs

    def iter_yields(it, kind=None):
        """number of values the generator under verification yielded in the current loop iteration (of the given namedtuple type)"""
        evs = [e for e in _iter_events(it, "yield") if e[1][1].endswith("_Framer.add_and_parse")]
        if kind is not None:
            kind = it.concrete(kind)
            evs = [e for e in evs if isinstance(it.force(e[1][0]), VTuple) and it.force(e[1][0]).ntname == kind]
        return VInt(len(evs))

    sf["iter_yields"] = iter_yields

    def iter_frame_wire(it):
        """be4(len(f)) + f for every Frame token f yielded in the current iteration, concatenated in yield order"""
        out = VStr(z3.StringVal(""), "bytes")
        for e in _iter_events(it, "yield"):
            if not e[1][1].endswith("_Framer.add_and_parse"):
                continue
            v = it.force(e[1][0])
            if isinstance(v, VTuple) and v.ntname == "Frame":
                f = v.items[0]
                out = VStr(z3.Concat(out.z, models_be4(it, z3.Length(f.z)), f.z), "bytes")
        return out

    sf["iter_frame_wire"] = iter_frame_wire

    def iter_own_bcalls(it, *names):
        want = set(it.concrete(n) for n in names)
        return VInt(sum(1 for e in _iter_events(it, "bcall") if not want or e[1][1] in want))

    def iter_own_bcall_arg(it, name, k, i):
        name, k, i = it.concrete(name), it.concrete(k), it.concrete(i)
        evs = [e for e in _iter_events(it, "bcall") if e[1][1] == name]
        return evs[k][1][2][i] if k < len(evs) else VObj("<missing>")

    sf["iter_own_bcalls"] = iter_own_bcalls
    sf["iter_own_bcall_arg"] = iter_own_bcall_arg

    def handshake_bytes(it, fr_obj, before):
        """what a framer state change consumed: the relay reply (want_relay left), the prologue (want_frame entered);
        `before` is the state index before the change"""
        fr_obj = it.force(fr_obj)
        st = fr_obj.fields["__state"].z
        m = it.reg.automat.machine_of(it.reg.repo_classes[fr_obj.cls])
        relay, frm = m.index("want_relay"), m.index("want_frame")
        a = z3.If(z3.And(before.z == relay, st != relay), fr_obj.fields["_expected_relay_handshake"].z, z3.StringVal(""))
        b = z3.If(z3.And(before.z != frm, st == frm), fr_obj.fields["_inbound_prologue"].z, z3.StringVal(""))
        return VStr(z3.Concat(a, b), "bytes")

    sf["handshake_bytes"] = handshake_bytes

    def body_events(it, loop_fn):
        """events since the loop body of the generator-for in function `loop_fn` last started (for_generator marks it)"""
        loop_fn = it.concrete(loop_fn)
        tr = it.ctx.trace
        start = max([i for i, e in enumerate(tr) if e[0] == "for-body-start" and e[1][0].endswith(loop_fn)] + [-1])
        return tr[start + 1:]

    def body_inputs(it, loop_fn, *names):
        want = set(it.concrete(n) for n in names)
        return VInt(sum(1 for e in body_events(it, loop_fn) if e[0] == "input" and e[1][0] in want))

    def body_input_arg(it, loop_fn, name, k, i):
        name, k, i = it.concrete(name), it.concrete(k), it.concrete(i)
        evs = [e for e in body_events(it, loop_fn) if e[0] == "input" and e[1][0] == name]
        return evs[k][1][1][i] if k < len(evs) else VObj("<missing>")

    def body_yields(it, loop_fn, gen):
        gen = it.concrete(gen)
        return VInt(sum(1 for e in body_events(it, loop_fn) if e[0] == "yield" and e[1][1].endswith(gen)))

    def body_yield(it, loop_fn, gen, k):
        gen, k = it.concrete(gen), it.concrete(k)
        evs = [e for e in body_events(it, loop_fn) if e[0] == "yield" and e[1][1].endswith(gen)]
        return evs[k][1][0] if k < len(evs) else VObj("<missing>")

    def body_calls(it, loop_fn, *suffixes):
        want = tuple(it.concrete(n) for n in suffixes)
        return VInt(sum(1 for e in body_events(it, loop_fn) if e[0] == "call" and e[1][0].endswith(want)))

    def body_call_arg(it, loop_fn, suffix, k, i):
        suffix, k, i = it.concrete(suffix), it.concrete(k), it.concrete(i)
        evs = [e for e in body_events(it, loop_fn) if e[0] == "call" and e[1][0].endswith(suffix)]
        return evs[k][1][1][i] if k < len(evs) and i < len(evs[k][1][1]) else VObj("<missing>")

    def body_bcalls(it, loop_fn, *names):
        want = set(it.concrete(n) for n in names)
        return VInt(sum(1 for e in body_events(it, loop_fn) if e[0] == "bcall" and (e[1][1] in want or not want)))

    def body_bcall_arg(it, loop_fn, name, k, i):
        name, k, i = it.concrete(name), it.concrete(k), it.concrete(i)
        evs = [e for e in body_events(it, loop_fn) if e[0] == "bcall" and e[1][1] == name]
        return evs[k][1][2][i] if k < len(evs) else VObj("<missing>")

    for f_ in (body_inputs, body_input_arg, body_yields, body_yield, body_calls, body_call_arg, body_bcalls, body_bcall_arg):
        sf[f_.__name__] = f_

    def unreturned_calls(it, *suffixes):
        """contract-applied calls (to the named functions) that ended by raising: a `call` event not followed by its `callret`"""
        want = tuple(it.concrete(n) for n in suffixes)
        tr = it.ctx.trace
        n = 0
        for i, e in enumerate(tr):
            if e[0] == "call" and (not want or e[1][0].endswith(want)):
                if not (i + 1 < len(tr) and tr[i + 1][0] == "callret" and tr[i + 1][1][0] == e[1][0]):
                    n += 1
        return VInt(n)

    sf["unreturned_calls"] = unreturned_calls

    def noise_handshake_out(it, k):
        k = it.concrete(k)
        evs = [e for e in it.ctx.trace if e[0] == "noise.write_message"]
        return evs[-1 - k][1][0] if k < len(evs) else VObj("<missing>")

    sf["noise_handshake_out"] = noise_handshake_out

    def last_action(it):
        """name of the last boundary call / Automat input / contract call on this path"""
        for e in reversed(it.ctx.trace):
            if e[0] == "bcall":
                return VStr(e[1][1])
            if e[0] == "input":
                return VStr(e[1][0])
            if e[0] == "call":
                return VStr(e[1][0].split(".")[-1])
        return VStr("")

    sf["last_action"] = last_action

    def last_input_class(it):
        for e in reversed(it.ctx.trace):
            if e[0] == "input":
                return VStr(e[1][2] if len(e[1]) > 2 else "?")
        return VStr("")

    sf["last_input_class"] = last_input_class

    def _actions_after(it, idx):
        return VInt(sum(1 for e in it.ctx.trace[idx + 1:] if e[0] in ("bcall", "input", "call")))

    def actions_after_failure(it):
        """boundary calls / inputs / contract calls made after the last contract call that raised"""
        tr = it.ctx.trace
        last = -1
        for i, e in enumerate(tr):
            if e[0] == "call" and not (i + 1 < len(tr) and tr[i + 1][0] == "callret" and tr[i + 1][1][0] == e[1][0]):
                last = i
        return _actions_after(it, last) if last >= 0 else VInt(0)

    def actions_after_last_input(it):
        tr = it.ctx.trace
        idx = max([i for i, e in enumerate(tr) if e[0] == "input"] + [-1])
        return _actions_after(it, idx) if idx >= 0 else VInt(0)

    sf["actions_after_failure"] = actions_after_failure
    sf["actions_after_last_input"] = actions_after_last_input
    sf["state_index"] = lambda it, o: VInt(it.force(o).fields["__state"].z)


def models_be4(it, z):
    from pyvc import models
    return models.be4_of(it, z)


for _c in CONTRACTS:
    if _c.target.endswith(("_Record.send_record", "_Record.decrypt_message", "lemma:multi_packet_content")):
        _c.qf_feasibility = True      # branch pruning without the quantified per-packet facts (only ever keeps more paths)


def regf_lemma():
    return regf(exclude=("wormhole/_dilation/connection.py:parse_record",
                         "wormhole/_dilation/connection.py:encode_record"))


def _setup_spec(reg):
    sf = reg.spec_funcs

    def record_in_range(it, r):
        def one(v):
            if not isinstance(v, VTuple):
                return z3.BoolVal(False)
            cs = []
            for x, (fn, ft) in zip(v.items, values.NT_DEFS[v.ntname]):
                if ft == "int":
                    cs.append(z3.And(x.z >= 0, x.z < U32))
                if fn == "ping_id":
                    cs.append(z3.Length(x.z) == 4)
            return z3.And(cs + [z3.BoolVal(True)])
        if isinstance(r, VUnion):
            return VBool(z3.Or([z3.And(c, one(x)) for c, x in r.alts]))
        return VBool(one(r))

    sf["record_in_range"] = record_in_range
    def payload_len(it, r):
        from pyvc.models import uf
        def one(v):
            if v.ntname == "Data":
                return z3.Length(v.items[2].z)
            if v.ntname == "Open":
                return z3.Length(uf("encode_utf8", StringS, StringS)(v.items[2].z))
            return z3.IntVal(4)
        if isinstance(r, VUnion):
            e = one(r.alts[-1][1])
            for c, x in reversed(r.alts[:-1]):
                e = z3.If(c, one(x), e)
            return VInt(e)
        return VInt(one(r))

    sf["payload_len"] = payload_len

    def n_calls(it, suffix):
        suffix = it.concrete(suffix)
        return VInt(sum(1 for e in it.ctx.trace if e[0] == "call" and e[1][0].endswith(suffix)))

    sf["n_calls"] = n_calls
    return reg


def _wrap(f):
    def g():
        return _setup_spec(f())
    return g


def tasks():
    out = []
    for c in CONTRACTS:
        out.append(ContractTask(c, _wrap(regf_lemma) if c.target == "lemma:record_roundtrip" else _wrap(regf)))
    for c in GEN_CONTRACTS:
        out.append(ContractTask(c, regf_dcp if "DilatedConnectionProtocol" in c.target else regf_gen))
    for c in HS_CONTRACTS:
        out.append(ContractTask(c, regf_hs(inline=HS_INLINE.get(c.target, ()))))
    return out


TRUSTED = ["z3/cvc5", "pyvc semantics of the Python subset (slicing normalisation, bytes as code-point strings)",
           "pyvc semantics of Automat dispatch (state set first, outputs in order, collector) and of generators consumed by a "
           "for loop: the generator body and the loop body are run interleaved, as CPython does (pyvc/interp.py for_generator; "
           "refused when a yield sits inside try/with); loops inside are cut with their own invariants plus those of every "
           "enclosing generator-for, and every location an iteration changes must have been havocked (loop frame obligation)",
           "struct.pack/unpack('>L') implement the big-endian definition value = b0*2^24 + b1*2^16 + b2*2^8 + b3 (library "
           "axiom); that this definition is injective with range 0..2^32-1 - hence the round trip - is proved "
           "(lemma:be4_definition_injective); the model still adds the round-trip instances at each use for speed",
           "utf-8 codec: decode(encode(s)) == s (assumed contract)",
           "Noise (AEAD with stateful nonce counters, ghost fields tx/rx/failed): encrypt at sending nonce n returns c with "
           "len(c) == len(p) + 16, noise_ok(n, c) and noise_dec(n, c) == p, and advances tx; decrypt at receiving nonce n "
           "raises NoiseInvalidMessage iff not noise_ok(n, c), else returns noise_dec(n, c) (16 bytes shorter) and advances rx; "
           "read_message either rejects the handshake or accepts it; write_message returns at most 65535 bytes; that only a "
           "holder of the dilation key can produce a c with noise_ok(n, c) is the AEAD idealisation (not proved)",
           "noiseprotocol set-up calls: NoiseConnection.from_name(name) returns a new connection object (ghost nonce counters 0, "
           "nothing rejected); set_psks / set_as_initiator / set_as_responder / start_handshake are recorded boundary calls "
           "(receiver, arguments, order are proved). That Noise_NNpsk0 completes exactly between one initiator and one responder "
           "holding the same PSK - so two Leaders, two Followers or a peer without the dilation key fail at read_message - is the "
           "Noise handshake idealisation behind `noise_read_message` (assumed)",
           "Twisted: an exception escaping dataReceived makes the reactor drop the connection; transport.loseConnection() "
           "stops further dataReceived calls"]
ASSUMPTIONS = [
    "Noise AEAD strength (see TRUSTED)",
    "multi-packet content equality is proved in three steps, not as one run of both real bodies in a single harness: "
    "send_record (every packet k opens at nonce tx0+k to message[65519k:65519(k+1)]), decrypt_message (plaintext slice k == "
    "noise_dec(rx0+k, frame[65535k:65535(k+1)])), and lemma:multi_packet_content (induction over the packets: the plaintext "
    "parsed == the message encoded, every length) whose premises are exactly those two postconditions with tx0 == rx0; "
    "that parse_record is a function of its argument (no hidden state) is what lets record_roundtrip finish the argument",
    "dataReceived: a key holder's frame that decrypts but does not parse (unknown type byte, short field, non-UTF8 "
    "subprotocol) raises ValueError / UnicodeDecodeError out of dataReceived, a second KCM or a record before any KCM raises "
    "automat.NoTransition; in each case nothing at all happens after the offending token (proved) and the connection is "
    "dropped by Twisted (trusted), not by loseConnection()",
    "preconditions of the inbound loops: the role is set, framer and record machines are in lock step (framer want_frame <=> "
    "record past want_prologue_*), _can_send_frames <=> want_frame, Noise has rejected nothing so far, selected <=> a manager is "
    "set. They are now ESTABLISHED under contract: DilatedConnectionProtocol.connectionMade (real _Framer / _Record "
    "construction and tables) ensures the two link invariants and leaves the Noise object untouched, Connector.build_protocol "
    "returns a protocol that is unselected, without manager, whose Noise object is new (nonce counters 0, nothing rejected); "
    "dataReceived re-establishes them (its ensures). That the calls in between (select(), got_kcm - C11's contracts - and "
    "send_record, which touches only the sending nonce) keep them is the induction these per-call statements are the steps of "
    "(argued, not one machine-checked run)",
    "attrs validators are not executed by the interpreter (instance_of(bytes) on the prologues, provides(ITransport) / "
    "provides(IFramer), _Record's `_is_role`): their conditions appear as the field types of the contracts and as the "
    "precondition has_role(self._role) of connectionMade (with any other role value the real constructor raises ValueError "
    "inside connectionMade; the Manager only ever hands LEADER or FOLLOWER to the Connector: C11 choose_role)",
    "connectionMade with a relay: only the relay handshake is written and the framer waits for b'ok\\n'; the prologue then goes "
    "out on got_relay_ok inside add_and_parse (proved there: the one write of that iteration is _outbound_prologue). "
    "connectionMade's precondition `_use_relay => _relay_handshake is not None` is what DilatedConnectionProtocol.use_relay, "
    "the only writer of both fields, ensures (proved); Twisted's Protocol.makeConnection sets .transport before connectionMade",
    "Dilator.got_key: the dilation key is derive_key(wormhole key, b'dilation-v1', 32) (proved, derive_key by its C01 contract: "
    "HKDF with the purpose as info); that this value is what reaches Connector._dilation_key (Manager.got_dilation_key stores it, "
    "Manager._start_connecting passes it to Connector(...)) is plain data flow, argued here (C17 runs the real constructor call)",
    "lemma:prologues_cross_match runs the real build_protocol / connectionMade / _get_expected bodies for one Leader and one "
    "Follower Connector; the literal prologues and the Noise protocol name in the clauses are those of docs/dilation-protocol.md",
    "any chunking: proved per call of add_and_parse for an arbitrary buffered remainder and an arbitrary chunk (old buffer + "
    "data == consumed handshake bytes ++ be4-framed frames yielded in order ++ new remainder, remainder holds no complete "
    "token); the composition over a sequence of calls is the induction this per-call statement is the step of (argued)"]
