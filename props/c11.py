"""C11 - dilation peers agree on roles, use one connection at a time (safety part; re-convergence is
a two-party liveness property that per-function contracts do not express: see ASSUMPTIONS)."""
import z3

from pyvc.contract import Contract
from pyvc.runner import ContractTask
from pyvc.automat import AutomatSupport
from pyvc.values import *   # noqa
from pyvc import values, source
from .common import make_registry, install_trace_funcs, register_classes
from .c12 import RECORD        # the seven L2 record types (NT_DEFS registered there)
from . import c13 as _c13

PROP = "C11"

MGR = "wormhole/_dilation/manager.py"
CTR = "wormhole/_dilation/connector.py"
CON = "wormhole/_dilation/connection.py"
BOSS = "wormhole/_boss.py"
ROLES = "wormhole/_dilation/roles.py"


# ------------------------------------------------------------------ registry
def _role(which):
    return VOpaque(z3.Const("ROLE_" + which, opaque_sort("Role")), "Role")


def install_roles(reg):
    """LEADER / FOLLOWER are two module-level singletons compared by identity: two distinct constants"""
    def mk(which):
        def g(it):
            it.ctx.assume(_role("LEADER").z != _role("FOLLOWER").z)
            return _role(which)
        return g
    reg.ext_models[f"global:{ROLES}:LEADER"] = mk("LEADER")
    reg.ext_models[f"global:{ROLES}:FOLLOWER"] = mk("FOLLOWER")
    sf = reg.spec_funcs

    def is_role(it, v, which):
        which = it.concrete(which)
        it.ctx.assume(_role("LEADER").z != _role("FOLLOWER").z)
        return VBool(it.same(v, _role(which)))

    sf["is_role"] = is_role
    sf["has_role"] = lambda it, v: VBool(z3.Or(it.same(v, _role("LEADER")), it.same(v, _role("FOLLOWER"))))


def base_registry(extra_classes=()):
    reg = make_registry()
    install_trace_funcs(reg)
    register_classes(reg, ["wormhole/errors.py"] + list(extra_classes))
    reg.automat = AutomatSupport()
    reg.automat.notransition_raises = True
    reg.boundary["*.*"] = _c13.recording_boundary
    _c13.install_spec(reg)
    install_roles(reg)
    sf = reg.spec_funcs

    def is_bound_method(it, v, obj, name):
        """v is the bound method obj.<name> (e.g. the callable handed to eventual_queue.eventually)"""
        v = it.force(v)
        return VBool(isinstance(v, VFunc) and v.bound is it.force(obj) and
                     v.fdef.qualname.split(".")[-1] == it.concrete(name))

    sf["is_bound_method"] = is_bound_method

    def is_record(it, v, ntname):
        v = it.force(v)
        return VBool(isinstance(v, VTuple) and v.ntname == it.concrete(ntname))

    sf["is_record"] = is_record

    def bcall_index(it, name, k):
        """position of the k-th call named `name` among all boundary calls (to state call order)"""
        name, k = it.concrete(name), it.concrete(k)
        idx = [i for i, e in enumerate([e for e in it.ctx.trace if e[0] in ("bcall", "new")])
               if (e[0] == "bcall" and e[1][1] == name) or (e[0] == "new" and e[1][0] == name)]
        return VInt(idx[k] if k < len(idx) else -1)

    sf["bcall_index"] = bcall_index
    return reg


# ------------------------------------------------------------------ (a) roles and subchannel ids
MGR_ROLE_FIELDS = {"_my_side": "str", "_my_role": "opt[opaque[Role]]", "_next_subchannel_id": "opt[int]"}
SIDE_IS_STR = '"side" in message and isinstance(message["side"], str)'

ROLE_CONTRACTS = [
    Contract(f"{MGR}:Manager.choose_role", props=[PROP, "C13"], params={"message": "json"}, self_fields=MGR_ROLE_FIELDS,
             requires=["isinstance(message, dict)"], modifies=["_my_role", "_next_subchannel_id"],
             raises_exactly={"KeyError": '"side" not in message',
                             "TypeError": '"side" in message and not isinstance(message["side"], str)',
                             "ValueError": f'{SIDE_IS_STR} and message["side"] == self._my_side'},
             ensures=[("a-role-is-chosen", "has_role(self._my_role)"),
                      ("first-subchannel-id-is-not-the-control-channel", "self._next_subchannel_id >= 1"),
                      ("id-parity-is-a-function-of-the-role",
                       "self._next_subchannel_id % 2 == ite(is_role(self._my_role, 'LEADER'), 1, 0)")],
             note="the `please` message is a dict (its caller received_dilation_message has just read message['type']); "
                  "which side leads is deliberately not fixed here - agreement is the lemma below, over the real body"),
    Contract("lemma:role_agreement", props=[PROP, "C13"], source_module=MGR,
             params={"ma": "obj[Manager]", "mb": "obj[Manager]", "a": "str", "b": "str"},
             source_text="""
             def role_agreement(ma, mb, a, b):
                 ma._my_side = a
                 mb._my_side = b
                 ma.choose_role({"type": "please", "side": b})     # what B's send_please carries
                 mb.choose_role({"type": "please", "side": a})
                 return (ma._my_role, mb._my_role, ma._next_subchannel_id, mb._next_subchannel_id)
             """,
             raises_exactly={"ValueError": "a == b"},
             ensures=[("exactly-one-leader-one-follower",
                       "(is_role(result[0], 'LEADER') and is_role(result[1], 'FOLLOWER')) or "
                       "(is_role(result[0], 'FOLLOWER') and is_role(result[1], 'LEADER'))"),
                      ("subchannel-id-spaces-start-with-different-parity", "result[2] % 2 != result[3] % 2")],
             note="both Managers run the REAL choose_role body (inlined, not its contract) on each other's side string; z3's "
                  "string order is a strict total order, so for a != b exactly one of a > b, b > a holds"),
    Contract(f"{MGR}:Manager.allocate_subchannel_id", props=[PROP, "C13"], params={}, self_fields={"_next_subchannel_id": "int"},
             modifies=["_next_subchannel_id"], returns="int",
             ensures=[("returns-the-current-id", "result == old(self._next_subchannel_id)"),
                      ("steps-by-two", "self._next_subchannel_id == old(self._next_subchannel_id) + 2"),
                      ("parity-kept", "result % 2 == old(self._next_subchannel_id) % 2 and "
                                      "self._next_subchannel_id % 2 == old(self._next_subchannel_id) % 2"),
                      ("never-reused", "self._next_subchannel_id > result")]),
    Contract("lemma:subchannel_ids_disjoint_step", props=[PROP, "C13"], source_module=MGR,
             params={"ma": "obj[Manager]", "mb": "obj[Manager]"},
             source_text="""
             def subchannel_ids_disjoint_step(ma, mb):
                 x = ma.allocate_subchannel_id()
                 y = mb.allocate_subchannel_id()
                 return (x, y, ma._next_subchannel_id, mb._next_subchannel_id)
             """,
             requires=["ma._next_subchannel_id % 2 != mb._next_subchannel_id % 2"],
             ensures=[("the-two-sides-never-allocate-the-same-id", "result[0] != result[1]"),
                      ("and-the-parities-stay-different", "result[2] % 2 != result[3] % 2")],
             note="inductive step over allocate_subchannel_id's contract: with role_agreement as the base case every id of one "
                  "side has one parity and every id of the other side the other parity"),
]


def regf_roles():
    reg = base_registry([MGR])
    reg.class_fields["Manager"] = dict(MGR_ROLE_FIELDS)
    for c in ROLE_CONTRACTS:
        reg.contracts[c.target] = _c13.caller_view(c)
    return reg


def regf_role_lemma():
    # role_agreement executes the real choose_role on both sides
    reg = regf_roles()
    del reg.contracts[f"{MGR}:Manager.choose_role"]
    return reg


def regf_ids_lemma():
    reg = regf_roles()
    reg.class_fields["Manager"] = {"_next_subchannel_id": "int"}
    return reg


# ------------------------------------------------------------------ (c) one L2 link: unselected -> selecting -> selected
DCP_FIELDS = {"__state": "state", "_connector": "obj[ConnectorB]", "_manager": "opt[obj[ManagerB]]",
              "_inbound_record_queue": f"seq[{RECORD}]", "_can_send_records": "bool", "_disconnected": "obj[ObserverB]",
              "_role": "opaque[Role]"}
DCP_INV = "in_state(self, 'selected') == (self._manager is not None)"
SILENT = [("nothing-called", "len(bcall_names()) == 0")]

DCP_CONTRACTS = [
    Contract(f"{CON}:DilatedConnectionProtocol.got_record", props=[PROP], params={"record": RECORD}, self_fields=DCP_FIELDS,
             requires=[DCP_INV], modifies=["_inbound_record_queue"],
             raises_exactly={"NoTransition": "in_state(self, 'unselected')"},
             ensures_raise={"NoTransition": SILENT + [("not-queued-either", "self._inbound_record_queue == old(self._inbound_record_queue)")]},
             ensures=[("manager-gets-records-only-from-the-selected-link",
                       "bcalls('got_record') == ite(in_state(self, 'selected'), 1, 0) and len(bcall_names()) == bcalls('got_record')"),
                      ("delivered-unchanged-to-the-manager-it-was-selected-by",
                       "not in_state(self, 'selected') or (bcall_arg('got_record', 0, 0) == record and "
                       "bcall_recv('got_record', 0) is self._manager and self._inbound_record_queue == old(self._inbound_record_queue))"),
                      ("queued-in-order-while-selection-is-pending",
                       "not in_state(self, 'selecting') or self._inbound_record_queue == old(self._inbound_record_queue) + [record]"),
                      ("state-kept", "state_of(self) == old(state_of(self))"), ("invariant-kept", DCP_INV)],
             note="a link that has not seen the peer's KCM (unselected) delivers nothing; between KCM and select() records wait"),
    Contract(f"{CON}:DilatedConnectionProtocol.got_kcm", props=[PROP], params={}, self_fields=DCP_FIELDS,
             requires=[DCP_INV], modifies=["__state"],
             raises_exactly={"NoTransition": "not in_state(self, 'unselected')"},
             ensures_raise={"NoTransition": SILENT},
             ensures=[("offered-to-the-connector-exactly-once",
                       "len(bcall_names()) == 1 and bcalls('add_candidate') == 1 and bcall_recv('add_candidate', 0) is self._connector "
                       "and bcall_arg('add_candidate', 0, 0) is self"),
                      ("now-awaiting-selection", "in_state(self, 'selecting')"), ("invariant-kept", DCP_INV)],
             note="add_candidate only from got_kcm in `unselected`: a link becomes a candidate at most once, only after the "
                  "peer's KCM was decrypted on it"),
    Contract(f"{CON}:DilatedConnectionProtocol.process_inbound_queue", props=[PROP], params={"manager": "obj[ManagerB]"},
             self_fields=DCP_FIELDS, requires=["self._manager is not None"], modifies=["_inbound_record_queue"],
             ensures=[("queue-drained", "len(self._inbound_record_queue) == 0")],
             internal_ensures=[("every-queued-record-delivered-once-in-arrival-order",
                                "queued == old(self._inbound_record_queue) and n == len(queued)")],
             loops={0: {"header": "self._inbound_record_queue",
                        "ghost_init": {"n": "0", "queued": "self._inbound_record_queue[:]"},
                        "ghost_update": {"n": "n + 1"},
                        "body_ensures": ["iter_bcall_arg('got_record', 0) == queued[at_iter(n)]"],
                        "invariant": ["queued == at_entry(self._inbound_record_queue)", "0 <= n and n <= len(queued)",
                                      "self._inbound_record_queue == queued[n:]", "self._manager is not None"]}},
             note="iteration k hands exactly queued[k] to manager.got_record (single boundary call per iteration)"),
    Contract(f"{CON}:DilatedConnectionProtocol.select", props=[PROP], params={"manager": "obj[ManagerB]"}, self_fields=DCP_FIELDS,
             requires=[DCP_INV], modifies=["__state", "_manager", "_can_send_records", "_inbound_record_queue"],
             raises_exactly={"NoTransition": "not in_state(self, 'selecting')"},
             ensures_raise={"NoTransition": SILENT},
             ensures=[("selected-by-this-manager", "in_state(self, 'selected') and self._manager is manager"),
                      ("may-send-now", "self._can_send_records"),
                      ("queued-records-flushed-by-process_inbound_queue",
                       "n_calls('process_inbound_queue') == 1 and len(self._inbound_record_queue) == 0"),
                      ("manager-told-once", "bcalls('have_peer') == 1 and bcall_recv('have_peer', 0) is manager"),
                      ("loss-of-the-selected-link-will-be-reported",
                       "bcalls('when_fired') == 1 and bcalls('addCallback') == 1"),
                      ("invariant-kept", DCP_INV)],
             note="select() has a row only after got_kcm: a Follower link is used only once the Leader's KCM arrived on it"),
]


def regf_dcp():
    reg = base_registry([CON])
    for c in DCP_CONTRACTS:
        reg.contracts[c.target] = _c13.caller_view(c)
    reg.boundary_returns["ObserverB.when_fired"] = "obj[DeferredB]"
    return reg


# ------------------------------------------------------------------ (b2) one generation's race: Connector
CTR_FIELDS = {"__state": "state", "_role": "opaque[Role]", "_manager": "obj[ManagerB]", "_eventual_queue": "obj[EventualQueueB]",
              "_contenders": "set[opaque[Conn]]", "_winning_connection": "opt[opaque[Conn]]",
              "_pending_connections": "obj[EmptyableSetB]", "_listeners": "set[opaque[Port]]",
              "_pending_connectors": "set[opaque[Deferred]]"}
CTR_INV = "in_state(self, 'connected') or self._winning_connection is None"
STOPPED_SILENT = SILENT + [("no-winner-appears", "self._winning_connection == old(self._winning_connection)")]
TEARDOWN = "'stop_listeners', 'stop_pending_connectors', 'stop_pending_connections'"

CTR_CONTRACTS = [
    Contract(f"{CTR}:Connector.add_candidate", props=[PROP], params={"c": "opaque[Conn]"}, self_fields=CTR_FIELDS,
             requires=[CTR_INV], modifies=["_contenders"],
             raises_exactly={"NoTransition": "in_state(self, 'stopped')"}, ensures_raise={"NoTransition": STOPPED_SILENT},
             ensures=[("while-connecting-one-accept-is-scheduled-for-this-link",
                       "not in_state(self, 'connecting') or (len(bcall_names()) == 1 and bcalls('eventually') == 1 and "
                       "is_bound_method(bcall_arg('eventually', 0, 0), self, 'accept') and bcall_arg('eventually', 0, 1) == c "
                       "and c in self._contenders)"),
                      ("once-connected-later-candidates-are-ignored",
                       "not in_state(self, 'connected') or (len(bcall_names()) == 0 and self._contenders == old(self._contenders))"),
                      ("state-kept", "state_of(self) == old(state_of(self))"), ("invariant-kept", CTR_INV)]),
    Contract(f"{CTR}:Connector.accept", props=[PROP], params={"c": "opaque[Conn]"}, self_fields=CTR_FIELDS,
             requires=[CTR_INV], modifies=["__state", "_contenders", "_winning_connection"],
             raises_exactly={"NoTransition": "in_state(self, 'stopped')"}, ensures_raise={"NoTransition": STOPPED_SILENT},
             ensures=[("takes-effect-once-first-accept-wins",
                       "in_state(self, 'connected') and ((old(in_state(self, 'connecting')) and self._winning_connection == c) or "
                       "(old(in_state(self, 'connected')) and self._winning_connection == old(self._winning_connection)))"),
                      ("later-accepts-do-nothing", "not old(in_state(self, 'connected')) or len(bcall_names()) == 0"),
                      ("winner-selected-and-handed-to-the-manager-exactly-once",
                       "not old(in_state(self, 'connecting')) or (bcalls('select') == 1 and bcall_recv('select', 0) == c and "
                       "bcall_arg('select', 0, 0) is self._manager and bcalls('connector_connection_made') == 1 and "
                       "bcall_recv('connector_connection_made', 0) is self._manager and bcall_arg('connector_connection_made', 0, 0) == c)"),
                      ("KCM-from-the-Leader-only-on-the-chosen-link-after-selecting-it",
                       "not old(in_state(self, 'connecting')) or (bcalls('send_record') == ite(is_role(self._role, 'LEADER'), 1, 0) and "
                       "(bcalls('send_record') == 0 or (bcall_recv('send_record', 0) == c and is_record(bcall_arg('send_record', 0, 0), 'KCM') "
                       "and bcall_index('select', 0) < bcall_index('send_record', 0) and "
                       "bcall_index('send_record', 0) < bcall_index('connector_connection_made', 0))))"),
                      ("winner-kept-out-of-the-teardown-of-the-losers",
                       "not old(in_state(self, 'connecting')) or (bcalls('discard') == 1 and bcall_arg('discard', 0, 0) == c and "
                       "bcall_recv('discard', 0) is self._pending_connections and bcalls('stop_pending_connections') == 1 and "
                       "bcall_index('discard', 0) < bcall_index('stop_pending_connections', 0) and "
                       "bcall_index('stop_pending_connections', 0) < bcall_index('select', 0))"),
                      ("nothing-else", f"len(bcall_names()) == bcalls('select', 'send_record', 'connector_connection_made', 'discard', {TEARDOWN})"),
                      ("invariant-kept", CTR_INV)],
             note="stop_listeners / stop_pending_connectors / stop_pending_connections are boundary events here (teardown of the "
                  "losing attempts; their bodies iterate sets of Twisted objects)"),
    Contract(f"{CTR}:Connector.stop", props=[PROP], params={}, self_fields=CTR_FIELDS,
             requires=[CTR_INV], modifies=["__state", "_winning_connection", "_listeners", "_pending_connectors"],
             raises_exactly={"NoTransition": "in_state(self, 'stopped')"}, ensures_raise={"NoTransition": STOPPED_SILENT},
             ensures=[("stopped-for-good", "in_state(self, 'stopped') and self._winning_connection is None"),
                      ("attempts-torn-down", "bcalls('stop_listeners') == 1 and bcalls('stop_pending_connectors') == 1 and "
                                             "bcalls('stop_pending_connections') == 1"),
                      ("manager-not-called", "bcalls('connector_connection_made', 'select', 'send_record') == 0"),
                      ("invariant-kept", CTR_INV)]),
    Contract(f"{CTR}:Connector.got_hints", props=[PROP], params={"hint_objs": "seq[opaque[Hint]]"}, self_fields=CTR_FIELDS,
             requires=[CTR_INV], modifies=[],
             raises_exactly={"NoTransition": "in_state(self, 'stopped')"}, ensures_raise={"NoTransition": STOPPED_SILENT},
             ensures=[("used-only-while-connecting", "bcalls('_use_hints') == ite(in_state(self, 'connecting'), 1, 0) and "
                                                     "len(bcall_names()) == bcalls('_use_hints')"),
                      ("invariant-kept", CTR_INV)],
             note="_use_hints (dialling) is C20's business; here: a connected or stopped Connector dials nothing"),
    Contract(f"{CTR}:Connector.listener_ready", props=[PROP], params={"hint_objs": "seq[opaque[Hint]]"}, self_fields=CTR_FIELDS,
             requires=[CTR_INV], modifies=[],
             raises_exactly={"NoTransition": "in_state(self, 'stopped')"}, ensures_raise={"NoTransition": STOPPED_SILENT},
             ensures=[("published-only-while-connecting", "bcalls('_publish_hints') == ite(in_state(self, 'connecting'), 1, 0) and "
                                                          "len(bcall_names()) == bcalls('_publish_hints')"),
                      ("invariant-kept", CTR_INV)]),
]


def regf_ctr():
    reg = base_registry([CTR])
    for c in CTR_CONTRACTS:
        reg.contracts[c.target] = _c13.caller_view(c)

    def as_event(name):
        def fm(it, args, kwargs, fr):
            it.ctx.event("bcall", "Connector", name, list(args[1:]), dict(kwargs), recv=args[0])
            return NONE
        return fm
    for nm in ("stop_listeners", "stop_pending_connectors", "stop_pending_connections", "_use_hints", "_publish_hints"):
        reg.func_models[f"{CTR}:Connector.{nm}"] = as_event(nm)
    return reg


# ------------------------------------------------------------------ (d) control messages reach the Dilator in order, once
SEQ = "self._next_rx_dilate_seqnum"
MAP = "self._rx_dilate_seqnums"
BOSS_CONTRACTS = [
    Contract(f"{BOSS}:Boss.D_received_dilate", props=[PROP], params={"seqnum": "int", "plaintext": "bytes"},
             self_fields={"_next_rx_dilate_seqnum": "int", "_rx_dilate_seqnums": "dict[int,bytes]", "_D": "obj[DilatorB]"},
             requires=[f"{SEQ} not in {MAP}"],
             modifies=["_next_rx_dilate_seqnum", "_rx_dilate_seqnums"],
             ensures=[("nothing-deliverable-left-waiting", f"{SEQ} not in {MAP}"),
                      ("never-goes-back", f"{SEQ} >= old({SEQ})"),
                      ("later-messages-wait-for-the-gap",
                       f"forall(lambda k: implies(k >= {SEQ}, (k in {MAP}) == (k in old({MAP}) or k == seqnum)))"),
                      ("and-keep-their-content",
                       f"forall(lambda k: implies(k >= {SEQ} and k in {MAP}, {MAP}[k] == ite(k == seqnum, plaintext, old({MAP})[k])))")],
             internal_ensures=[
                 ("delivered-now-exactly-the-consecutive-run-starting-at-next", f"{SEQ} == old({SEQ}) + n"),
                 ("delivery-happens-iff-this-message-is-the-next-one", f"(n > 0) == (seqnum == old({SEQ}))")],
             loops={0: {"header": f"{SEQ} in {MAP}",
                        "ghost_init": {"n": "0", "first": SEQ, "stored": f"{MAP}.copy()"},
                        "ghost_update": {"n": "n + 1"},
                        "body_ensures": [f"iter_bcall_arg('received_dilate', 0) == stored[first + at_iter(n)]",
                                         f"bcall_recv('received_dilate', bcalls('received_dilate') - 1) is self._D"],
                        "invariant": ["n >= 0", f"{SEQ} == first + n", f"first == at_entry({SEQ})",
                                      f"forall(lambda k: (k in stored) == (k in at_entry({MAP})) and "
                                      f"implies(k in stored, stored[k] == at_entry({MAP})[k]))",
                                      f"forall(lambda k: implies(k >= {SEQ}, (k in {MAP}) == (k in stored) and "
                                      f"implies(k in stored, {MAP}[k] == stored[k])))",
                                      f"implies(n > 0, first in stored)"]}},
             note="same reorder buffer as W_received: iteration i delivers exactly the message stored under next+i (ghost stored = "
                  "the buffer at loop entry, i.e. with this message added) and removes it; dilate-N is handed to the Dilator "
                  "iff every dilate-M, M < N, was handed over before, and at most once because next only grows"),
]


def regf_boss():
    reg = base_registry([BOSS])
    for c in BOSS_CONTRACTS:
        reg.contracts[c.target] = _c13.caller_view(c)
    return reg


# ------------------------------------------------------------------ (b1) Manager: one connection slot, tied to the state
M_FIELDS = {"__state": "state", "_S": "obj[SendB]", "_my_side": "str", "_my_role": "opt[opaque[Role]]",
            "_next_subchannel_id": "opt[int]", "_connection": "opt[opaque[Conn]]", "_connector": "obj[ConnectorB]",
            "_dilation_key": "opt[bytes]", "_dilation_version": "opt[str]", "_transit_relay_location": "opt[str]",
            "_reactor": "obj[ReactorB]", "_eventual_queue": "obj[EventualQueueB]", "_no_listen": "bool",
            "_debug_stall_connector": "bool", "_latest_status": "opaque[DilationStatus]", "_status": "opt[callable]",
            "_next_dilation_generation": "int", "_stopped": "obj[ObserverB]", "_main_channel": "obj[ObserverB]",
            "_timer": "opt[obj[TimerB]]", "_traffic": "opt[obj[TrafficTimerB]]", "_inbound": "obj[InboundB]",
            "_outbound": "obj[OutboundB]", "_made_first_connection": "bool", "_ping_interval": "real"}
USING = "in_state(self, 'CONNECTED', 'ABANDONING', 'STOPPING')"
M_INV = (f"(self._connection is not None) == {USING} and "
         "(in_state(self, 'WAITING', 'WANTING', 'STOPPED') or has_role(self._my_role))")
M_ENV = ["self._dilation_key is not None", "not self._debug_stall_connector"]
M_MOD = ["__state", "_my_role", "_next_subchannel_id", "_connector", "_latest_status", "_next_dilation_generation", "_timer"]
NEW_GENERATION = ("news('Connector') == 1 and bcalls('start') == 1 and bcall_recv('start', 0) is self._connector and "
                  "self._connector is new_obj('Connector', 0) and new_field('Connector', 0, '_manager') is self and "
                  "new_field('Connector', 0, '_role') == self._my_role and new_field('Connector', 0, '_dilation_key') == self._dilation_key")
NO_NEW_GENERATION = "news('Connector') == 0 and bcalls('start') == 0 and self._connector is old(self._connector)"
STATUS_ONLY = "'seconds', '__call__'"     # reactor.seconds() and the application's status callback


def m_contract(name, params, raises_exactly, ensures, requires=(), modifies=None, note="", extra_raises=None):
    return Contract(f"{MGR}:Manager.{name}", props=[PROP], params=params, self_fields=M_FIELDS,
                    requires=[M_INV] + list(requires), modifies=M_MOD if modifies is None else modifies,
                    raises_exactly=raises_exactly, raises=extra_raises or {},
                    ensures_raise={"NoTransition": [("nothing-sent-or-started", "len(bcall_names()) == 0 and news('Connector') == 0"),
                                                    ("connection-slot-kept", "self._connection == old(self._connection)")]},
                    ensures=ensures + [("connection-slot-matches-state", M_INV)], note=note)


MGR_CONTRACTS = [
    m_contract("start", {}, {"NoTransition": "not in_state(self, 'WAITING')"},
               [("asks-once", "in_state(self, 'WANTING') and bcalls('send') == 1 and sent_type(0) == 'please' and sent_field(0, 'side') == self._my_side"),
                ("no-connector-yet", NO_NEW_GENERATION)]),
    m_contract("rx_PLEASE", {"message": "json"}, {"NoTransition": "not in_state(self, 'WANTING')"},
               [("first-generation-started-once-with-the-chosen-role", f"in_state(self, 'CONNECTING') and {NEW_GENERATION}"),
                ("nothing-sent", "bcalls('send') == 0")],
               requires=["isinstance(message, dict)"] + M_ENV,
               extra_raises={"KeyError": "in_state(self, 'WANTING')", "TypeError": "in_state(self, 'WANTING')",
                             "ValueError": "in_state(self, 'WANTING')"},
               note="choose_role is used through its contract; its three refusals (no side / side not a str / reflected side) escape"),
    m_contract("rx_HINTS", {"hint_message": "json"}, {"NoTransition": "in_state(self, 'WAITING', 'STOPPED')"},
               [("hints-used-only-while-connecting",
                 "bcalls('use_hints') == ite(in_state(self, 'CONNECTING'), 1, 0) and len(bcall_names()) == bcalls('use_hints')"),
                ("state-kept", "state_of(self) == old(state_of(self))"), ("no-new-generation", NO_NEW_GENERATION)],
               note="stale or early hints never reach a Connector: Manager.use_hints (C20) is a boundary event here"),
    m_contract("rx_RECONNECT", {}, {"NoTransition": "not in_state(self, 'CONNECTED', 'LONELY', 'CONNECTING')"},
               [("connected-follower-drops-its-link-and-waits-for-the-loss",
                 "not old(in_state(self, 'CONNECTED')) or (in_state(self, 'ABANDONING') and bcalls('disconnect') == 1 and "
                 f"bcall_recv('disconnect', 0) == self._connection and bcalls('send') == 0 and {NO_NEW_GENERATION})"),
                ("otherwise-answers-reconnecting-once-and-starts-one-new-generation",
                 "old(in_state(self, 'CONNECTED')) or (in_state(self, 'CONNECTING') and bcalls('send') == 1 and "
                 f"sent_type(0) == 'reconnecting' and bcalls('disconnect') == 0 and {NEW_GENERATION})"),
                ("previous-attempt-stopped-before-the-next-is-built",
                 "not old(in_state(self, 'CONNECTING')) or (bcalls('stop') == 1 and bcall_recv('stop', 0) is old(self._connector) "
                 "and bcall_index('stop', 0) < bcall_index('Connector', 0))"),
                ("reconnecting-is-answered-before-the-new-generation-can-announce-its-hints",
                 "old(in_state(self, 'CONNECTED')) or bcall_index('send', 0) < bcall_index('start', 0)"),
                ("generation-counts-messages", "self._next_dilation_generation == old(self._next_dilation_generation) + bcalls('send')")],
               requires=M_ENV,
               note="Connector.start() publishes this side's connection hints; the Leader accepts hints only once it has seen "
                    "`reconnecting` (it ignores them as stale while FLUSHING), so the answer must be on the wire before start()"),
    m_contract("rx_RECONNECTING", {}, {"NoTransition": "not in_state(self, 'FLUSHING')"},
               [("leader-starts-the-new-generation-only-after-the-follower-answered", f"in_state(self, 'CONNECTING') and {NEW_GENERATION}"),
                ("nothing-sent", "bcalls('send') == 0")], requires=M_ENV),
    m_contract("stop", {}, {"NoTransition": "in_state(self, 'STOPPING', 'STOPPED')"},
               [("live-link-is-dropped-first", f"old({USING}) == in_state(self, 'STOPPING')"),
                ("otherwise-stopped-now", f"old({USING}) or (in_state(self, 'STOPPED') and bcalls('fire') == 1 and bcall_recv('fire', 0) is self._stopped)"),
                ("pending-attempt-stopped", "bcalls('stop') == ite(old(in_state(self, 'CONNECTING')), 1, 0)"),
                ("link-told-to-disconnect", "bcalls('disconnect') == ite(old(in_state(self, 'CONNECTED')), 1, 0)"),
                ("no-new-generation", NO_NEW_GENERATION), ("nothing-sent", "bcalls('send') == 0")]),
    Contract(f"{MGR}:Manager.connector_connection_made", props=[PROP], params={"c": "opaque[Conn]"}, self_fields=M_FIELDS,
             requires=[M_INV], modifies=["__state", "_connection", "_traffic", "_made_first_connection", "_timer"],
             raises_exactly={"NoTransition": "not in_state(self, 'CONNECTING')"},
             ensures_raise={"NoTransition": [("connection-in-use-not-replaced", "self._connection == old(self._connection)"),
                                             ("not-handed-to-inbound-outbound", "bcalls('use_connection') == 0")]},
             ensures=[("never-replaces-a-live-connection", "old(self._connection) is None"),
                      ("adopted", "self._connection == c and in_state(self, 'CONNECTED')"),
                      ("inbound-and-outbound-switch-to-it-once",
                       "bcalls('use_connection') == 2 and bcall_recv('use_connection', 0) is self._inbound and "
                       "bcall_recv('use_connection', 1) is self._outbound and bcall_arg('use_connection', 0, 0) == c and "
                       "bcall_arg('use_connection', 1, 0) == c"),
                      ("first-connection-announced-once",
                       "bcalls('fire') == ite(old(self._made_first_connection), 0, 1) and self._made_first_connection"),
                      ("connection-slot-matches-state", M_INV)],
             note="the connection slot is written only here, only in CONNECTING, where the invariant says it is empty"),
    Contract(f"{MGR}:Manager.connector_connection_lost", props=[PROP], params={}, self_fields=M_FIELDS,
             requires=[M_INV, "self._connection is not None"] + M_ENV,
             modifies=M_MOD + ["_connection"],
             raises_exactly={"NoTransition": "in_state(self, 'ABANDONING') and is_role(self._my_role, 'LEADER')"},
             ensures=[("slot-emptied", "self._connection is None"),
                      ("inbound-and-outbound-stop-using-it-once",
                       "bcalls('stop_using_connection') == 2 and bcall_recv('stop_using_connection', 0) is self._inbound and "
                       "bcall_recv('stop_using_connection', 1) is self._outbound"),
                      ("leader-asks-for-reconnect-once-and-waits-for-the-answer",
                       "not (old(in_state(self, 'CONNECTED')) and is_role(self._my_role, 'LEADER')) or (in_state(self, 'FLUSHING') and "
                       f"bcalls('send') == 1 and sent_type(0) == 'reconnect' and {NO_NEW_GENERATION})"),
                      ("follower-that-notices-first-just-waits",
                       "not (old(in_state(self, 'CONNECTED')) and is_role(self._my_role, 'FOLLOWER')) or (in_state(self, 'LONELY') and "
                       f"bcalls('send') == 0 and {NO_NEW_GENERATION})"),
                      ("abandoning-follower-answers-and-starts-the-new-generation",
                       "not old(in_state(self, 'ABANDONING')) or (in_state(self, 'CONNECTING') and bcalls('send') == 1 and "
                       f"sent_type(0) == 'reconnecting' and {NEW_GENERATION} and "
                       "bcall_index('send', 0) < bcall_index('start', 0))"),
                      ("stopping-finishes", "not old(in_state(self, 'STOPPING')) or (in_state(self, 'STOPPED') and bcalls('fire') == 1 "
                                            f"and bcalls('send') == 0 and {NO_NEW_GENERATION})"),
                      ("generation-counts-messages", "self._next_dilation_generation == old(self._next_dilation_generation) + bcalls('send')"),
                      ("connection-slot-matches-state", M_INV)],
             note="loss is reported for the connection in use (wired by DilatedConnectionProtocol.set_manager at select()); a "
                  "Leader in ABANDONING would need a `reconnect` from its peer, which role agreement excludes"),
]


def regf_mgr():
    reg = base_registry([MGR])
    for c in ROLE_CONTRACTS[:1] + MGR_CONTRACTS:
        reg.contracts[c.target] = _c13.caller_view(c)
    _c13.new_as_boundary(reg, "Connector")
    _c13.new_as_boundary(reg, "TrafficTimer")
    reg.boundary_returns["ReactorB.seconds"] = "real"
    reg.ext_models["attr.evolve"] = lambda it, args, kw: it.fresh("opaque[DilationStatus]", "evolved_status")

    def call_status(it, f, args, kwargs):
        it.ctx.event("bcall", "callable", "__call__", list(args), dict(kwargs), recv=f)
        return NONE

    reg.ext_models["call_opaque:callable"] = call_status

    def dict_to_bytes(it, args, kwargs, fr):
        it.ctx.event("msg", it.force(args[0]))
        return it.fresh("bytes", "dilation_msg")

    reg.func_models["wormhole/util.py:dict_to_bytes"] = dict_to_bytes

    def use_hints(it, args, kwargs, fr):
        it.ctx.event("bcall", "Manager", "use_hints", list(args[1:]), dict(kwargs), recv=args[0])
        return NONE

    reg.func_models[f"{MGR}:Manager.use_hints"] = use_hints
    sf = reg.spec_funcs

    def sent_field(it, k, field):
        k, field = it.concrete(k), it.concrete(field)
        evs = [e for e in it.ctx.trace if e[0] == "msg"]
        if k >= len(evs) or not isinstance(evs[k][1][0], VDict) or field not in evs[k][1][0].d:
            return VObj("<missing>")
        return evs[k][1][0].d[field]

    sf["sent_field"] = sent_field
    sf["sent_type"] = lambda it, k: sent_field(it, k, VStr("type"))
    return reg


CONTRACTS = ROLE_CONTRACTS + MGR_CONTRACTS + CTR_CONTRACTS + DCP_CONTRACTS + BOSS_CONTRACTS


def tasks():
    out = []
    for c in CONTRACTS:
        if c.target == "lemma:role_agreement":
            out.append(ContractTask(c, regf_role_lemma))
        elif c.target == "lemma:subchannel_ids_disjoint_step":
            out.append(ContractTask(c, regf_ids_lemma))
        elif c in DCP_CONTRACTS:
            out.append(ContractTask(c, regf_dcp))
        elif c in CTR_CONTRACTS:
            out.append(ContractTask(c, regf_ctr))
        elif c in BOSS_CONTRACTS:
            out.append(ContractTask(c, regf_boss))
        elif c in MGR_CONTRACTS:
            out.append(ContractTask(c, regf_mgr))
        else:
            out.append(ContractTask(c, regf_roles))
    # the inbound loops of one L2 link (C12 proves them on the three interleaved real bodies): the Follower sends its KCM once
    # per Handshake token, got_kcm only for a KCM that decrypt_message returned on this link, records reach the manager only in
    # `selected`, connectionLost fires the link's observers once
    from . import c12
    for t in c12.tasks():
        if t.contract.target.endswith(("DilatedConnectionProtocol.dataReceived", "DilatedConnectionProtocol.connectionLost",
                                       "_Record.add_and_unframe",
                                       # a correctly keyed link must get through its prologue under any fragmentation, or no
                                       # generation ever converges: the framer's handshake matching belongs here as well
                                       "_Framer._get_expected", "_Framer.parse_prologue", "_Framer.parse_relay_ok",
                                       "_Framer.add_and_parse",
                                       # the role a side has agreed on is what its links are built with: Leader = Noise initiator
                                       # saying the Leader prologue, Follower = responder; each side accepts only the other role's
                                       # prologue (a link to oneself / a reflected stream never becomes a candidate)
                                       "DilatedConnectionProtocol.connectionMade", "Connector.build_protocol",
                                       "lemma:prologues_cross_match")):
            out.append(t)
    # noticing a lost connection (the precondition of any re-convergence) rests on the Leader's timer discipline:
    # C16's timer tasks are run here too, so that a change which wedges the timer fails this check as well
    from . import c16
    for t in c16.tasks():
        n = t.contract.target
        if n.startswith("lemma:timer_expiry") or n.endswith(("Manager._send_ping_reset_timer", "Manager._stop_using_connection",
                                                             "Manager.connector_connection_lost")):
            out.append(t)
    return out


TRUSTED = ["z3/cvc5 (string order str.< is lexicographic by code point, as Python's str comparison)",
           "pyvc semantics of the Python subset and of Automat dispatch (state set first, outputs in order, an input without a "
           "row raises automat.NoTransition with the state unchanged; tables are extracted from the class bodies on every run)",
           "LEADER / FOLLOWER (module singletons compared by identity) are two distinct constants",
           "collaborators (Send, reactor, eventual queue, Inbound/Outbound, observers, the Connector as seen from the Manager and "
           "vice versa, connections as seen from Manager/Connector, the Dilator as seen from Boss) are boundary objects: calls "
           "recorded with receiver and arguments, arbitrary results; attr.evolve returns an arbitrary status value",
           "Connector.stop_listeners / stop_pending_connectors / stop_pending_connections / _use_hints / _publish_hints and "
           "Manager.use_hints are boundary events inside the machine contracts (teardown and dialling; C20 covers the hints); "
           "util.dict_to_bytes is modelled as an arbitrary bytes value carrying the dict it was given"]
ASSUMPTIONS = [
    "NOT ATTEMPTED: 'after any loss the two sides converge on a new shared connection without deadlock' is a liveness property of the "
    "product of two Managers, two Connectors and unbounded in-flight control messages; no per-function contract expresses it. What is "
    "proved is the single-side safety part: role agreement, disjoint id spaces, one connection slot tied to the Manager state, one "
    "winner per Connector generation, records only from a selected link, the previous generation stopped before the next is built, "
    "exactly one reconnect / reconnecting per loss on the side that must send it, in-order exactly-once hand-over of dilate-N",
    "which control inputs can arrive in which Manager state is stated, not excluded: every input raises automat.NoTransition (and does "
    "nothing) outside the states listed in its contract; that a conformant peer never triggers those needs the two-party product",
    "environment preconditions of the Manager inputs that start a Connector: the dilation key is known (Boss delivers the key before any "
    "dilate-N phase can be decrypted; the code asserts it) and the unit-test hook _debug_stall_connector is off",
    "Manager.rx_PLEASE / choose_role: the message is a dict (received_dilation_message has just read message['type']); a missing, "
    "non-str or reflected 'side' raises KeyError / TypeError / ValueError and leaves the Manager without a role (stated, not excluded)",
    "Manager.connector_connection_lost is called for the connection in use (wired by DilatedConnectionProtocol.set_manager at select())",
    "DilatedConnectionProtocol.dataReceived / _Record.add_and_unframe / connectionLost are verified by the C12 tasks run here too "
    "(real bodies interleaved): the Follower's own KCM is sent once per Handshake token, got_kcm is called only for a KCM that "
    "decrypt_message returned on this link; a second KCM, or a record before any KCM, raises automat.NoTransition out of "
    "dataReceived and reaches nobody (Twisted drops a connection whose dataReceived raises: trusted); the Leader's KCM is sent only "
    "in Connector.select_and_stop_remaining (proved)",
    "Noise authenticity (C12 assumption) is what makes 'KCM decrypted on this link' mean 'the Leader confirmed this link'",
    "role -> link binding is verified by the C12 tasks run here too: Connector.build_protocol (Leader = Noise initiator with the "
    "Leader prologue outbound, Follower = responder, PSK = dilation key), DilatedConnectionProtocol.connectionMade (record machine "
    "gets set_role_leader iff LEADER) and lemma:prologues_cross_match (each role accepts exactly the other role's prologue and "
    "rejects its own); that Connector._role is Manager._my_role is the constructor call in Manager._start_connecting (C17)",
]
