"""C10 - Dilation delivers every record exactly once, in order, across reconnects.

Sender: Outbound keeps every un-acked record (contiguous seqnums ending at _next_outbound_seqnum-1),
hands them to the current connection strictly in queue order, replays the whole queue on a new
connection before anything newer, and retires exactly the records an ack covers.
Receiver: Manager.got_record always acks, dispatches a record iff its seqnum is above the
watermark, and raises the watermark.  lemma:receive_run puts the two together for one connection.
"""
from pyvc.contract import Contract
from pyvc.runner import ContractTask, FuncTask
from . import dilq
from .dilq import *   # noqa

PROP = "C10"
OBJ = "self._outbound"
WM = "self._inbound._highest_inbound_acked"
REC4 = "union[nt[Open],nt[Data],nt[Close],nt[Ack]]"


def send_contract(name, params, record_expr):
    q, n, u = f"{OBJ}._outbound_queue", f"{OBJ}._next_outbound_seqnum", f"{OBJ}._queued_unsent"
    rec = f"[{record_expr}]"
    rely = [(nm, e.replace("self.", OBJ + ".").replace("(self)", f"({OBJ})").replace("W", rec))
            for nm, e in zip(dilq.RELY_NAMES, dilq.RELY)]
    c = Contract(
        MG + name, props=[PROP], params=params, self_fields={"_outbound": "obj[Outbound]"}, assert_mode="prove",
        requires=on(OBJ, INV_W),
        ensures=[(nm, e.replace("self.", OBJ + ".")) for nm, e in named(INV_W)] +
                [("rely." + nm, e) for nm, e in rely] + [
            ("c10.one-record-per-call", f"{q} == old({q}) + {rec}"),
            ("c10.sent-now-iff-connected-and-no-backlog",
             f"{OBJ}._connection is None or len(old({u})) > 0 or conn_sent({OBJ}) == old(conn_sent({OBJ})) + {rec}"),
            ("c10.behind-the-backlog-otherwise",
             f"{OBJ}._connection is None or len(old({u})) == 0 or "
             f"({u} == old({u}) + {rec} and conn_sent({OBJ}) == old(conn_sent({OBJ})))"),
            ("c10.kept-for-the-next-connection", f"{OBJ}._connection is not None or len({u}) == 0")],
        note="application write / open / close: exactly one record, carrying the next seqnum and exactly the given "
             "payload (write boundaries), is appended to the un-acked queue and to the stream of the current connection")
    c.qf_feasibility = True
    return c


NSEQ = f"old({OBJ}._next_outbound_seqnum)"
SEND = [send_contract("send_data", {"scid": "int", "data": "bytes"}, f"Data({NSEQ}, scid, data)"),
        send_contract("send_open", {"scid": "int", "subprotocol": "str"}, f"Open({NSEQ}, scid, subprotocol)"),
        send_contract("send_close", {"scid": "int"}, f"Close({NSEQ}, scid)")]

INBOUND = [
    Contract(IB + "is_record_old", props=[PROP], params={"r": SEQREC}, self_fields={"_highest_inbound_acked": "int"},
             returns="bool", ensures=[("old-iff-at-or-below-watermark", "result == (seqnum(r) <= self._highest_inbound_acked)")]),
    Contract(IB + "update_ack_watermark", props=[PROP], params={"seqnum": "int"},
             self_fields={"_highest_inbound_acked": "int"}, modifies=["_highest_inbound_acked"],
             ensures=[("watermark-is-max", "self._highest_inbound_acked == max(old(self._highest_inbound_acked), seqnum)")]),
    Contract(IB + "handle_data", props=[PROP], params={"scid": "int", "data": "bytes"},
             self_fields={"_open_subchannels": f"dict[int,{SUBCH}]", "_highest_inbound_acked": "int"},
             ensures=[("delivered-whole-or-dropped", "bcalls('remote_data') <= 1 and len(bcall_names()) == bcalls('remote_data')"),
                      ("exact-bytes", "bcalls('remote_data') == 0 or bcall_arg('remote_data', 0, 0) == data")],
             note="frame: the watermark and the subchannel table are untouched; the payload reaches the subchannel as one piece"),
    Contract(IB + "handle_close", props=[PROP], params={"scid": "int"},
             self_fields={"_open_subchannels": f"dict[int,{SUBCH}]", "_highest_inbound_acked": "int"},
             ensures=[("at-most-one-close", "bcalls('remote_close') <= 1 and len(bcall_names()) == bcalls('remote_close')")]),
]
# Inbound.handle_open builds a SubChannel and talks to the subprotocol factories: C13's business.  Here it is a
# dispatch boundary: assumed to return normally and (by inspection: it only touches _open_subchannels) to leave
# the watermark alone.
HANDLE_OPEN_STUB = Contract(IB + "handle_open", props=[], params={"scid": "int", "subprotocol": "str"},
                            self_fields={"_open_subchannels": f"dict[int,{SUBCH}]"}, modifies=["_open_subchannels"])

GOT = Contract(
    MG + "got_record", props=[PROP], params={"r": REC4},
    self_fields={"_inbound": "obj[Inbound]", "_outbound": "obj[Outbound]"}, assert_mode="prove",
    requires=on(OBJ, INV_W),
    ensures=[(nm, e.replace("self.", OBJ + ".")) for nm, e in named(INV_W)] + [
        ("c10.always-acked",
         f"isinstance(r, Ack) or {OBJ}._connection is None or "
         "(bcalls('send_record') == 1 and bcall_arg('send_record', 0, 0) == Ack(seqnum(r)))"),
        ("c10.dispatched-iff-new",
         f"isinstance(r, Ack) or n_calls('Inbound.handle_') == ite(seqnum(r) > old({WM}), 1, 0)"),
        ("c10.data-dispatched-unchanged",
         f"implies(isinstance(r, Data) and seqnum(r) > old({WM}), n_calls('handle_data') == 1 and "
         "call_arg('handle_data', 0, 1) == r.scid and call_arg('handle_data', 0, 2) == r.data)"),
        ("c10.open-dispatched-unchanged",
         f"implies(isinstance(r, Open) and seqnum(r) > old({WM}), n_calls('handle_open') == 1 and "
         "call_arg('handle_open', 0, 1) == r.scid and call_arg('handle_open', 0, 2) == r.subprotocol)"),
        ("c10.close-dispatched-unchanged",
         f"implies(isinstance(r, Close) and seqnum(r) > old({WM}), n_calls('handle_close') == 1 and "
         "call_arg('handle_close', 0, 1) == r.scid)"),
        ("c10.watermark-is-max", f"isinstance(r, Ack) or {WM} == max(old({WM}), seqnum(r))"),
        ("c10.ack-does-not-move-watermark", f"not isinstance(r, Ack) or {WM} == old({WM})"),
        ("c10.ack-retires", f"implies(isinstance(r, Ack), all_above({OBJ}._outbound_queue, r.resp_seqnum) and "
                            f"dropped_acked(old({OBJ}._outbound_queue), {OBJ}._outbound_queue, r.resp_seqnum))"),
        ("c10.data-does-not-touch-queue", f"isinstance(r, Ack) or ({OBJ}._outbound_queue == old({OBJ}._outbound_queue) and "
                                          f"{OBJ}._queued_unsent == old({OBJ}._queued_unsent))")],
    note="records with a seqnum (Open/Data/Close) and Ack; Ping/Pong/KCM are C16's business. A duplicate is acked but not "
         "dispatched; a new record is acked, raises the watermark and is dispatched once, unchanged")
GOT.qf_feasibility = True

LEMMAS = [
    Contract("lemma:receive_run", props=[PROP], source_module="wormhole/_dilation/manager.py",
             params={"inb": "obj[Inbound]", "recs": f"seq[{SEQREC}]", "end": "int"},
             source_text="""
             def receive_run(inb, recs, end):
                 dispatched = []
                 for r in recs:
                     if not inb.is_record_old(r):
                         inb.update_ack_watermark(r.seqnum)
                         dispatched.append(r)
                 return dispatched
             """,
             requires=["contig(recs, end)", "end - len(recs) <= inb._highest_inbound_acked + 1",
                       "inb._highest_inbound_acked >= -1"],
             ensures=[("dispatched-are-the-new-ones-in-order", "suffix_of(result, recs)"),
                      ("no-gap-no-repeat", "contig(result, max(end, old(inb._highest_inbound_acked) + 1)) and "
                                           "len(result) == max(0, end - 1 - old(inb._highest_inbound_acked))"),
                      ("watermark", "inb._highest_inbound_acked == max(old(inb._highest_inbound_acked), end - 1)")],
             loops={0: {"retype": {"dispatched": f"seq[{SEQREC}]"},
                        "invariant": ["len(dispatched) == max(0, end - len(recs) + _i - 1 - at_entry(inb._highest_inbound_acked))",
                                      "len(dispatched) <= _i",
                                      "forall(lambda k: implies(0 <= k and k < len(dispatched), "
                                      "dispatched[k] == recs[_i - len(dispatched) + k]))",
                                      "inb._highest_inbound_acked == max(at_entry(inb._highest_inbound_acked), "
                                      "end - len(recs) + _i - 1)"],
                        "modifies": [("local", "inb", "_highest_inbound_acked")]}},
             note="one connection, FIFO: whatever prefix of the sender's contiguous stream arrives (first seqnum at most "
                  "watermark+1, as the sender only retires what was acked), the receiver dispatches exactly the records "
                  "above its watermark, each once, in order, and ends with watermark = last seqnum seen"),
]


def _rel(e, new, old):
    """a RELY clause (about self / old(self)) as a relation between two Outbound objects"""
    import re
    e = e.replace("old(conn_sent(self))", f"conn_sent({old})")
    e = re.sub(r"old\(self\.(\w+)\)", old + r".\1", e)
    return e.replace("(self)", f"({new})").replace("self.", new + ".")


LEMMAS.append(Contract(
    "lemma:rely_transitive", props=[PROP], source_module="wormhole/_dilation/outbound.py",
    params={"a": "obj[Outbound]", "b": "obj[Outbound]", "c": "obj[Outbound]", "w1": f"seq[{SEQREC}]", "w2": f"seq[{SEQREC}]"},
    source_text="""
    def rely_transitive(a, b, c, w1, w2):
        return None
    """,
    requires=["(a._connection is None) == (b._connection is None) and (b._connection is None) == (c._connection is None)"] +
             [_rel(e, "b", "a").replace("W", "w1") for e in dilq.RELY] + [_rel(e, "c", "b").replace("W", "w2") for e in dilq.RELY],
    ensures=[(nm, _rel(e, "c", "a").replace("W", "(w1 + w2)")) for nm, e in zip(dilq.RELY_NAMES, dilq.RELY)],
    note="the guarantee that every re-entrant Outbound entry point gives (the rely.* clauses) is closed under "
         "composition, so assuming it once for a whole producer turn (any number of re-entrant calls) is justified; "
         "reflexivity is immediate (W = [])"))

for _c in INBOUND + LEMMAS:
    _c.qf_feasibility = True
for _c in INBOUND + SEND + [GOT]:
    _c.replay = dilq.REPLAY

CONTRACTS = dilq.outbound_contracts() + SEND + INBOUND + [GOT] + LEMMAS


def regf(exclude=()):
    reg = dilq.make_reg(CONTRACTS + [HANDLE_OPEN_STUB], exclude)
    reg.boundary_returns = {}
    return reg


def tasks():
    return [ContractTask(c, regf) for c in CONTRACTS if PROP in c.props] + \
        [FuncTask("list-op-facts", dilq.list_facts_task, False, "model-validation")]


TRUSTED = list(dilq.TRUSTED_COMMON) + [
    "boundary model: connection.send_record(r) appends r to the connection's ghost stream `sent` and may synchronously "
    "call Outbound.pauseProducing() (the transport's buffer filled up) - nothing else",
    "boundary model: an application producer's resumeProducing() may re-enter Outbound any number of times through "
    "Manager.send_open/send_data/send_close, subchannel_registerProducer, subchannel_unregisterProducer and (via the "
    "transport) pauseProducing: havoc under the rely.* clauses those entry points are proved to guarantee "
    "(closed under composition: lemma:rely_transitive)",
    "transport.registerProducer / unregisterProducer and Producer.pauseProducing / PullToPush.startStreaming / "
    "stopStreaming do not call back into Outbound",
]
ASSUMPTIONS = [
    "L2 delivers the records handed to one connection whole, in order, possibly cut short (C12); acks are only produced by "
    "Manager.got_record, so an ack's seqnum never exceeds the receiver's watermark",
    "glue between the two sides that is argued, not machine-checked: (a) by use_connection.c10.everything-unacked-replayed-first "
    "and inv.q-contiguous-seqnums the stream of a connection is the un-acked queue from its oldest record on, a contiguous run; a "
    "prefix of it is again contiguous; (b) by handle_ack.c10.first-unretired the oldest un-acked seqnum is at most (highest ack)+1 "
    "<= receiver watermark+1. (a)+(b) are the preconditions of lemma:receive_run, which gives: dispatched seqnums are "
    "watermark+1, watermark+2, ... each once, in order, on every connection",
    "Outbound.use_connection is only called while there is no connection (Manager stops the old one first; one connection at "
    "a time is C11) and, like resumeProducing/stop_using_connection/handle_ack, from the reactor, not from inside a producer's turn",
    "Manager.got_record is under contract for Open/Data/Close/Ack; Ping/Pong/KCM handling is C16's",
    "Inbound.handle_open (builds a SubChannel, subprotocol factories) is a dispatch boundary here: assumed to return and not to "
    "touch the watermark (C13 covers it); handle_data/handle_close are verified",
    "not decided: that a replacement connection is eventually made, and that the peer eventually acks (liveness, C11/C16)",
]
