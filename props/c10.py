"""C10 - Dilation delivers every record exactly once, in order, across reconnects."""
from pyvc.contract import Contract
from pyvc.runner import ContractTask
from . import dilq
from .dilq import *   # noqa

PROP = "C10"

CONTRACTS = dilq.outbound_contracts()


def regf():
    return dilq.make_reg(CONTRACTS)


def tasks():
    return [ContractTask(c, regf) for c in CONTRACTS if PROP in c.props]


TRUSTED = list(dilq.TRUSTED_COMMON)
ASSUMPTIONS = []
