"""C10 - Dilation delivers every record exactly once, in order, across reconnects.

Sender: Outbound keeps every un-acked record (contiguous seqnums ending at _next_outbound_seqnum-1),
hands them to the current connection strictly in queue order, replays the whole queue on a new
connection before anything newer, and retires exactly the records an ack covers.
Receiver: Manager.got_record always acks, dispatches a record iff its seqnum is above the
watermark, and raises the watermark.  lemma:receive_run puts the two together for one connection.
"""
from pyvc.contract import Contract
from pyvc.runner import ContractTask, FuncTask
from . import dilq
from .dilq import *   # noqa

PROP = "C10"
OBJ = "self._outbound"
WM = "self._inbound._highest_inbound_acked"
REC4 = "union[nt[Open],nt[Data],nt[Close],nt[Ack]]"


def send_contract(name, params, record_expr):
    q, n, u = f"{OBJ}._outbound_queue", f"{OBJ}._next_outbound_seqnum", f"{OBJ}._queued_unsent"
    rec = f"[{record_expr}]"
    rely = [(nm, e.replace("self.", OBJ + ".").replace("(self)", f"({OBJ})").replace("W", rec))
            for nm, e in zip(dilq.RELY_NAMES, dilq.RELY)]
    c = Contract(
        MG + name, props=[PROP], params=params, self_fields={"_outbound": "obj[Outbound]"}, assert_mode="prove",
        requires=on(OBJ, INV_W), modifies=["_outbound." + f for f in dilq.ALLMOD],
        ensures=[(nm, e.replace("self.", OBJ + ".")) for nm, e in named(INV_W)] +
                [("rely." + nm, e) for nm, e in rely] + [
            ("c10.one-record-per-call", f"{q} == old({q}) + {rec}"),
            ("c10.sent-now-iff-connected-and-no-backlog",
             f"{OBJ}._connection is None or len(old({u})) > 0 or conn_sent({OBJ}) == old(conn_sent({OBJ})) + {rec}"),
            ("c10.behind-the-backlog-otherwise",
             f"{OBJ}._connection is None or len(old({u})) == 0 or "
             f"({u} == old({u}) + {rec} and conn_sent({OBJ}) == old(conn_sent({OBJ})))"),
            ("c10.kept-for-the-next-connection", f"{OBJ}._connection is not None or len({u}) == 0")],
        note="application write / open / close: exactly one record, carrying the next seqnum and exactly the given "
             "payload (write boundaries), is appended to the un-acked queue and to the stream of the current connection")
    c.qf_feasibility = True
    return c


NSEQ = f"old({OBJ}._next_outbound_seqnum)"
SEND = [send_contract("send_data", {"scid": "int", "data": "bytes"}, f"Data({NSEQ}, scid, data)"),
        send_contract("send_open", {"scid": "int", "subprotocol": "str"}, f"Open({NSEQ}, scid, subprotocol)"),
        send_contract("send_close", {"scid": "int"}, f"Close({NSEQ}, scid)")]

INBOUND = [
    Contract(IB + "is_record_old", props=[PROP], params={"r": SEQREC}, self_fields={"_highest_inbound_acked": "int"},
             returns="bool", ensures=[("old-iff-at-or-below-watermark", "result == (seqnum(r) <= self._highest_inbound_acked)")]),
    Contract(IB + "update_ack_watermark", props=[PROP], params={"seqnum": "int"},
             self_fields={"_highest_inbound_acked": "int"}, modifies=["_highest_inbound_acked"],
             ensures=[("watermark-is-max", "self._highest_inbound_acked == max(old(self._highest_inbound_acked), seqnum)")]),
    Contract(IB + "handle_data", props=[PROP], params={"scid": "int", "data": "bytes"},
             self_fields={"_open_subchannels": f"dict[int,{SUBCH}]", "_highest_inbound_acked": "int"},
             ensures=[("delivered-whole-or-dropped", "bcalls('remote_data') <= 1 and len(bcall_names()) == bcalls('remote_data')"),
                      ("exact-bytes", "bcalls('remote_data') == 0 or bcall_arg('remote_data', 0, 0) == data")],
             note="frame: the watermark and the subchannel table are untouched; the payload reaches the subchannel as one piece"),
    Contract(IB + "handle_close", props=[PROP], params={"scid": "int"},
             self_fields={"_open_subchannels": f"dict[int,{SUBCH}]", "_highest_inbound_acked": "int"},
             ensures=[("at-most-one-close", "bcalls('remote_close') <= 1 and len(bcall_names()) == bcalls('remote_close')")]),
]
# Inbound.handle_open: the REAL body, with the demultiplexer used through C13's contract of _got_open and
# Manager.send_close (the refusal of an unexpected subprotocol) through its contract above.  What C10 needs of it:
# it returns, it leaves the watermark alone (frame), and the only thing it may do to the sender side is queue
# exactly one CLOSE - the refusal - which then is an ordinary record of this side's stream.
from . import c13 as _c13   # noqa: E402

MOB = "self._manager._outbound"
MDX = "self._manager._subprotocol_factories"
OPEN_REFUSED = (f"(scid not in self._open_subchannels) and (subprotocol not in {MDX}._factories) and "
                f"not allows({MDX}._expected, subprotocol)")
HO_Q, HO_U, HO_N = f"{MOB}._outbound_queue", f"{MOB}._queued_unsent", f"{MOB}._next_outbound_seqnum"
HO_KEPT = ("forall(lambda k: k == scid or ((k in self._open_subchannels) == (k in old(self._open_subchannels)) and "
           "self._open_subchannels[k] == old(self._open_subchannels)[k]))")
HANDLE_OPEN = Contract(
    IB + "handle_open", props=[PROP], params={"scid": "int", "subprotocol": "str"},
    self_fields={"_open_subchannels": f"dict[int,{SUBCH}]", "_highest_inbound_acked": "int", "_manager": "obj[Manager]",
                 "_host_addr": "opaque[Addr]", "_connection": "opt[obj[Conn]]", "_paused_subchannels": f"set[{SUBCH}]"},
    assert_mode="prove", requires=on(MOB, INV_W),
    modifies=["_open_subchannels", "_manager._subprotocol_factories._pending_opens"] + ["_manager._outbound." + f for f in dilq.ALLMOD],
    ensures=[(nm, e.replace("self.", MOB + ".")) for nm, e in named(INV_W)] + [
        ("c10.duplicate-open-ignored",
         "not old(scid in self._open_subchannels) or (self._open_subchannels[scid] == old(self._open_subchannels)[scid] and "
         f"no_records(new_part({HO_Q}, old({HO_Q}))))"),
        ("c10.refused-open-queues-exactly-one-close",
         f"not old({OPEN_REFUSED}) or {HO_Q} == old({HO_Q}) + [close_record(old({HO_N}), scid)]"),
        ("c10.refused-open-not-kept", f"not old({OPEN_REFUSED}) or scid not in self._open_subchannels"),
        ("c10.accepted-open-leaves-the-sender-side-alone",
         f"old({OPEN_REFUSED}) or ({HO_Q} == old({HO_Q}) and {HO_U} == old({HO_U}) and {HO_N} == old({HO_N}) and "
         f"conn_sent({MOB}) == old(conn_sent({MOB})) and conn_same({MOB}, old({MOB})))"),
        ("c10.accepted-new-open-registered",
         f"old(scid in self._open_subchannels) or old({OPEN_REFUSED}) or scid in self._open_subchannels"),
        ("c10.other-subchannels-untouched", HO_KEPT)],
    internal_ensures=[
        ("c10.one-subchannel-built-and-offered-once-iff-new",
         "news('SubChannel') == ite(old(scid in self._open_subchannels), 0, 1) and "
         "n_calls('SubchannelDemultiplex._got_open') == news('SubChannel') and "
         f"n_calls('Manager.send_close') == ite(old({OPEN_REFUSED}), 1, 0) and len(bcall_names()) == 0")],
    note="frame: _highest_inbound_acked (the seqnum watermark), _connection and _paused_subchannels are not touched; "
         "SubChannel construction is a boundary event, the demultiplexer is used through C13's contract of _got_open")
HANDLE_OPEN.qf_feasibility = True

GDX = "self._subprotocol_factories"
GOT_REFUSED = (f"seqnum(r) > old({WM}) and old(r.scid not in self._inbound._open_subchannels) and "
               f"old(r.subprotocol not in {GDX}._factories) and not allows(old({GDX}._expected), r.subprotocol)")
GOT = Contract(
    MG + "got_record", props=[PROP], params={"r": REC4},
    self_fields={"_inbound": "obj[Inbound]", "_outbound": "obj[Outbound]", "_subprotocol_factories": "obj[SubchannelDemultiplex]"},
    assert_mode="prove", pre_hook=lambda it, fr: fr.selfobj.fields["_inbound"].fields.__setitem__("_manager", fr.selfobj),
    requires=on(OBJ, INV_W),
    ensures=[(nm, e.replace("self.", OBJ + ".")) for nm, e in named(INV_W)] + [
        ("c10.always-acked",
         f"isinstance(r, Ack) or {OBJ}._connection is None or "
         "(bcalls('send_record') == 1 and bcall_arg('send_record', 0, 0) == Ack(seqnum(r)))"),
        ("c10.dispatched-iff-new",
         f"isinstance(r, Ack) or n_calls('Inbound.handle_') == ite(seqnum(r) > old({WM}), 1, 0)"),
        ("c10.data-dispatched-unchanged",
         f"implies(isinstance(r, Data) and seqnum(r) > old({WM}), n_calls('handle_data') == 1 and "
         "call_arg('handle_data', 0, 1) == r.scid and call_arg('handle_data', 0, 2) == r.data)"),
        ("c10.open-dispatched-unchanged",
         f"implies(isinstance(r, Open) and seqnum(r) > old({WM}), n_calls('handle_open') == 1 and "
         "call_arg('handle_open', 0, 1) == r.scid and call_arg('handle_open', 0, 2) == r.subprotocol)"),
        ("c10.close-dispatched-unchanged",
         f"implies(isinstance(r, Close) and seqnum(r) > old({WM}), n_calls('handle_close') == 1 and "
         "call_arg('handle_close', 0, 1) == r.scid)"),
        ("c10.watermark-is-max", f"isinstance(r, Ack) or {WM} == max(old({WM}), seqnum(r))"),
        ("c10.ack-does-not-move-watermark", f"not isinstance(r, Ack) or {WM} == old({WM})"),
        ("c10.ack-retires", f"implies(isinstance(r, Ack), all_above({OBJ}._outbound_queue, r.resp_seqnum) and "
                            f"dropped_acked(old({OBJ}._outbound_queue), {OBJ}._outbound_queue, r.resp_seqnum))"),
        ("c10.data-does-not-touch-queue",
         f"isinstance(r, Ack) or isinstance(r, Open) or ({OBJ}._outbound_queue == old({OBJ}._outbound_queue) and "
         f"{OBJ}._queued_unsent == old({OBJ}._queued_unsent))"),
        ("c10.open-does-not-touch-queue-unless-refused",
         f"implies(isinstance(r, Open), ({GOT_REFUSED}) or ({OBJ}._outbound_queue == old({OBJ}._outbound_queue) and "
         f"{OBJ}._queued_unsent == old({OBJ}._queued_unsent)))"),
        ("c10.refused-open-answered-by-exactly-one-close",
         f"implies(isinstance(r, Open), not ({GOT_REFUSED}) or {OBJ}._outbound_queue == old({OBJ}._outbound_queue) + "
         f"[close_record(old({OBJ}._next_outbound_seqnum), r.scid)])")],
    note="records with a seqnum (Open/Data/Close) and Ack; Ping/Pong/KCM are C16's business. A duplicate is acked but not "
         "dispatched; a new record is acked, raises the watermark and is dispatched once, unchanged")
GOT.qf_feasibility = True

LEMMAS = [
    Contract("lemma:receive_run", props=[PROP], source_module="wormhole/_dilation/manager.py",
             params={"inb": "obj[Inbound]", "recs": f"seq[{SEQREC}]", "end": "int"},
             source_text="""
             def receive_run(inb, recs, end):
                 dispatched = []
                 for r in recs:
                     if not inb.is_record_old(r):
                         inb.update_ack_watermark(r.seqnum)
                         dispatched.append(r)
                 return dispatched
             """,
             requires=["contig(recs, end)", "end - len(recs) <= inb._highest_inbound_acked + 1",
                       "inb._highest_inbound_acked >= -1"],
             ensures=[("dispatched-are-the-new-ones-in-order", "suffix_of(result, recs)"),
                      ("no-gap-no-repeat", "contig(result, max(end, old(inb._highest_inbound_acked) + 1)) and "
                                           "len(result) == max(0, end - 1 - old(inb._highest_inbound_acked))"),
                      ("watermark", "inb._highest_inbound_acked == max(old(inb._highest_inbound_acked), end - 1)")],
             loops={0: {"retype": {"dispatched": f"seq[{SEQREC}]"},
                        "invariant": ["len(dispatched) == max(0, end - len(recs) + _i - 1 - at_entry(inb._highest_inbound_acked))",
                                      "len(dispatched) <= _i",
                                      "forall(lambda k: implies(0 <= k and k < len(dispatched), "
                                      "dispatched[k] == recs[_i - len(dispatched) + k]))",
                                      "inb._highest_inbound_acked == max(at_entry(inb._highest_inbound_acked), "
                                      "end - len(recs) + _i - 1)"],
                        "modifies": [("local", "inb", "_highest_inbound_acked")]}},
             note="one connection, FIFO: whatever prefix of the sender's contiguous stream arrives (first seqnum at most "
                  "watermark+1, as the sender only retires what was acked), the receiver dispatches exactly the records "
                  "above its watermark, each once, in order, and ends with watermark = last seqnum seen"),
]


def _rel(e, new, old):
    """a RELY clause (about self / old(self)) as a relation between two Outbound objects"""
    import re
    e = e.replace("old(conn_sent(self))", f"conn_sent({old})")
    e = re.sub(r"old\(self\.(\w+)\)", old + r".\1", e)
    return e.replace("(self)", f"({new})").replace("self.", new + ".")


LEMMAS.append(Contract(
    "lemma:rely_transitive", props=[PROP], source_module="wormhole/_dilation/outbound.py",
    params={"a": "obj[Outbound]", "b": "obj[Outbound]", "c": "obj[Outbound]", "w1": f"seq[{SEQREC}]", "w2": f"seq[{SEQREC}]"},
    source_text="""
    def rely_transitive(a, b, c, w1, w2):
        return None
    """,
    requires=["(a._connection is None) == (b._connection is None) and (b._connection is None) == (c._connection is None)"] +
             [_rel(e, "b", "a").replace("W", "w1") for e in dilq.RELY] + [_rel(e, "c", "b").replace("W", "w2") for e in dilq.RELY],
    ensures=[(nm, _rel(e, "c", "a").replace("W", "(w1 + w2)")) for nm, e in zip(dilq.RELY_NAMES, dilq.RELY)],
    note="the guarantee that every re-entrant Outbound entry point gives (the rely.* clauses) is closed under "
         "composition, so assuming it once for a whole producer turn (any number of re-entrant calls) is justified; "
         "reflexivity is immediate (W = [])"))

# ---- glue between the two sides (formerly argued in ASSUMPTIONS): each step is a lemma discharged by SMT over the
# clauses the contracts above prove.  State of the induction, between connections and at every record boundary:
#   receiver: delivered == records 0..w, each once, in order (w = watermark);
#   sender:   un-acked queue == records a..n-1 (inv.q-contiguous-seqnums) with a <= w+1.
A_OF = "{0}._next_outbound_seqnum - len({0}._outbound_queue)"      # seqnum of the oldest un-acked record


def _subst(e, m):
    for k, v in m.items():
        e = e.replace(k, v)
    return e


_RR = LEMMAS[0]          # lemma:receive_run - its proved ensures clauses are the hypotheses of exactly_once_step
_RR_AS_HYP = [_subst(e, {"old(inb._highest_inbound_acked)": "w0", "inb._highest_inbound_acked": "w1", "result": "dispatched"})
              for _, e in _RR.ensures]

def _uc_rel(e):
    """a clause of use_connection's contract (self/old(self), parameter c) as a relation between a (before), b (after), c0, c1"""
    import re
    e = e.replace("old(c.sent)", "c0.sent").replace("c.sent", "c1.sent")
    e = re.sub(r"old\(self\.(\w+)\)", r"a.\1", e)
    return e.replace("(self)", "(b)").replace("self.", "b.")


_UC = [c for c in dilq.outbound_contracts() if c.target.endswith("Outbound.use_connection")][0]
_UC_AS_HYP = [_uc_rel(e) for nm, e in _UC.ensures
              if nm in ("c10.queue-only-grows", "c10.everything-unacked-replayed-first") or nm.startswith("inv.q-") or
              nm in ("inv.unsent-is-suffix-of-queue",)]

LEMMAS += [
    Contract("lemma:new_connection_stream", props=[PROP], source_module="wormhole/_dilation/outbound.py",
             params={"a": "obj[Outbound]", "b": "obj[Outbound]", "c0": "obj[Conn]", "c1": "obj[Conn]"},
             source_text="""
             def new_connection_stream(a, b, c0, c1):
                 return None
             """,
             requires=on("a", INV) + ["a._connection is None", "no_records(c0.sent)"] + _UC_AS_HYP,
             ensures=[("stream-is-the-whole-unacked-queue-then-later-writes",
                       "c1.sent + b._queued_unsent == b._outbound_queue and "
                       "b._outbound_queue == a._outbound_queue + new_part(b._outbound_queue, a._outbound_queue)"),
                      ("stream-is-a-contiguous-run-from-the-oldest-unacked-record",
                       "contig(c1.sent + b._queued_unsent, b._next_outbound_seqnum) and "
                       f"len(c1.sent + b._queued_unsent) == len(b._outbound_queue) and "
                       f"{A_OF.format('b')} == {A_OF.format('a')}"),
                      ("what-was-handed-over-so-far-is-a-prefix-of-it",
                       "contig(c1.sent, b._next_outbound_seqnum - len(b._queued_unsent))")],
             note="(a) over the clauses Outbound.use_connection's contract proves (hypotheses = its ensures c10.queue-only-grows, "
                  "c10.everything-unacked-replayed-first and inv.*, taken from the contract object; a/b = the Outbound before/after, "
                  "c0/c1 = the fresh connection before/after): everything a fresh connection is given and will be given from the "
                  "backlog is the un-acked queue from its oldest record on, followed by whatever is written during the call - one "
                  "contiguous run of seqnums ending at _next_outbound_seqnum; the oldest un-acked seqnum does not move"),
    Contract("lemma:stream_prefix_contiguous", props=[PROP], source_module="wormhole/_dilation/outbound.py",
             params={"stream": f"seq[{SEQREC}]", "recs": f"seq[{SEQREC}]", "rest": f"seq[{SEQREC}]", "n": "int"},
             source_text="""
             def stream_prefix_contiguous(stream, recs, rest, n):
                 return None
             """,
             requires=["contig(stream, n)", "stream == recs + rest"],
             ensures=[("a-prefix-of-a-contiguous-run-is-contiguous", "contig(recs, n - len(rest))"),
                      ("and-starts-at-the-same-seqnum", "(n - len(rest)) - len(recs) == n - len(stream)")],
             note="(a) whatever prefix of the stream the connection delivers before it is lost (L2 delivers whole records in "
                  "order: C12) is again a contiguous run starting at the same seqnum"),
    Contract("lemma:ack_keeps_oldest_unacked_bound", props=[PROP], source_module="wormhole/_dilation/outbound.py",
             params={"ob": "obj[Outbound]", "resp_seqnum": "int", "w": "int"},
             source_text="""
             def ack_keeps_oldest_unacked_bound(ob, resp_seqnum, w):
                 ob.handle_ack(resp_seqnum)
                 return None
             """,
             requires=on("ob", INV_Q[:3]) + [f"{A_OF.format('ob')} <= w + 1", "resp_seqnum <= w"],
             ensures=[("oldest-unacked-still-at-most-watermark-plus-one", f"{A_OF.format('ob')} <= w + 1"),
                      ("queue-still-a-contiguous-run", "contig(ob._outbound_queue, ob._next_outbound_seqnum) and "
                                                       "ob._next_outbound_seqnum == old(ob._next_outbound_seqnum)")],
             note="(b) over Outbound.handle_ack's contract (c10.first-unretired): an ack never exceeds the receiver's watermark w "
                  "(acks are only produced by Manager.got_record: c10.always-acked + c10.watermark-is-max), so retiring acked "
                  "records keeps (oldest un-acked seqnum) <= w + 1"),
    Contract("lemma:write_keeps_oldest_unacked", props=[PROP], source_module="wormhole/_dilation/outbound.py",
             params={"a": "obj[Outbound]", "b": "obj[Outbound]", "w1": f"seq[{SEQREC}]"},
             source_text="""
             def write_keeps_oldest_unacked(a, b, w1):
                 return None
             """,
             requires=[_rel(e, "b", "a").replace("W", "w1") for e in dilq.RELY[:2]],
             ensures=[("oldest-unacked-unchanged-by-writes", f"{A_OF.format('b')} == {A_OF.format('a')}")],
             note="(b) over the rely.* clauses every write entry point guarantees (send_data/send_open/send_close, any number "
                  "composed: lemma:rely_transitive): queueing records does not move the oldest un-acked seqnum"),
    Contract("lemma:exactly_once_step", props=[PROP], source_module="wormhole/_dilation/manager.py",
             params={"delivered": f"seq[{SEQREC}]", "recs": f"seq[{SEQREC}]", "dispatched": f"seq[{SEQREC}]",
                     "w0": "int", "w1": "int", "end": "int", "a": "int", "n": "int"},
             source_text="""
             def exactly_once_step(delivered, recs, dispatched, w0, w1, end, a, n):
                 return None
             """,
             requires=["w0 >= -1", "contig(delivered, w0 + 1)", "len(delivered) == w0 + 1",      # receiver half of the invariant
                       "a <= w0 + 1", "a <= n", "w0 + 1 <= n",                                   # sender half: queue == a..n-1, nothing delivered that was not built
                       "contig(recs, end)", "end - len(recs) == a", "end <= n"] +                # a delivered prefix of the stream
                      _RR_AS_HYP,                                                                # what lemma:receive_run proves
             ensures=[("delivered-is-again-every-seqnum-up-to-the-watermark-once-in-order",
                       "contig_cat(delivered, dispatched, w1 + 1) and len(delivered + dispatched) == w1 + 1"),
                      ("nothing-skipped-nothing-repeated", "w1 == max(w0, end - 1) and len(dispatched) == w1 - w0"),
                      ("sender-half-kept", "a <= w1 + 1 and w1 + 1 <= n and w1 >= -1")],
             note="induction step across connections: if delivered == records 0..w0 (each once, in order) and the sender's "
                  "un-acked queue is a..n-1 with a <= w0+1, then after the receiver has processed any prefix recs of the "
                  "connection's stream (first seqnum a; lemma:new_connection_stream + lemma:stream_prefix_contiguous give the "
                  "hypotheses, lemma:receive_run gives `dispatched` and w1) delivered' == records 0..w1 and a <= w1+1 still. "
                  "Base case: delivered == [], w == -1, a == 0 (Inbound/Outbound constructors)"),
]

for _c in INBOUND + LEMMAS:
    _c.qf_feasibility = True
for _c in INBOUND + SEND + [GOT]:
    _c.replay = dilq.REPLAY

CONTRACTS = dilq.outbound_contracts() + SEND + INBOUND + [HANDLE_OPEN, GOT] + LEMMAS


def regf(exclude=()):
    reg = dilq.make_reg(CONTRACTS, exclude)
    reg.boundary_returns = {}
    # what Inbound.handle_open reaches: the real Manager (send_close) and the subprotocol demultiplexer (C13's contract)
    register_classes(reg, [_c13.SUB, _c13.MGR])
    reg.class_fields["Manager"] = {"_outbound": "obj[Outbound]", "_subprotocol_factories": "obj[SubchannelDemultiplex]"}
    reg.class_fields["SubchannelDemultiplex"] = dict(_c13.DEMUX_FIELDS)
    for c in _c13.DEMUX_CONTRACTS:
        if c.target.endswith("SubchannelDemultiplex._got_open"):
            reg.contracts[c.target] = _c13.caller_view(c)
    reg.spec_funcs["allows"] = _c13.allows

    def contig_cat(it, x, y, n):
        """contig(x + y, n); the two element-wise facts about a concatenation that the sequence solvers do not derive under a
        quantifier are proved first as obligations of their own (pure facts of finite sequences), then used"""
        import z3
        xy = z3.Concat(x.z, y.z)
        j = z3.Int("j!cc")
        it.ctx.lemma(z3.ForAll([j], z3.Implies(z3.And(0 <= j, j < L(x.z)), xy[j] == x.z[j])), "seq-fact.concat-left")
        it.ctx.lemma(z3.ForAll([j], z3.Implies(z3.And(L(x.z) <= j, j < L(x.z) + L(y.z)), xy[j] == y.z[j - L(x.z)])),
                     "seq-fact.concat-right")
        return reg.spec_funcs["contig"](it, VSeq(xy, x.elem), n)

    reg.spec_funcs["contig_cat"] = contig_cat
    reg.spec_funcs["close_record"] = lambda it, n, scid: VTuple([n, scid], "Close", ["seqnum", "scid"])

    def new_subchannel(it, cls, args, kwargs):
        o = it.fresh(SUBCH, "new_subchannel")
        it.ctx.event("new", "SubChannel", list(args), o)
        return o
    reg.ext_models["new:SubChannel"] = new_subchannel
    reg.ext_models["new:SubchannelAddress"] = lambda it, cls, args, kwargs: VTuple(
        [args[0] if args else kwargs["subprotocol"]], "SubchannelAddress", ["subprotocol"])
    reg.spec_funcs["news"] = lambda it, cls: VInt(sum(1 for e in it.ctx.trace if e[0] == "new" and e[1][0] == it.concrete(cls)))
    return reg


def tasks():
    out = [ContractTask(c, regf) for c in CONTRACTS if PROP in c.props] + \
        [FuncTask("seq-lemmas", dilq.seq_lemmas_task, True, "lemma"),
         FuncTask("list-op-facts", dilq.list_facts_task, False, "model-validation")]
    # between L2 and Manager.got_record: records that arrive while the link is still being selected are parked and handed
    # over in arrival order (C11's contracts on DilatedConnectionProtocol); between Inbound and the application: what a
    # subchannel does with OPEN/DATA/CLOSE that arrived before its protocol was attached (C13's contracts) - both are part
    # of "exactly once, in the order issued"
    from .common import shared_tasks
    out += shared_tasks("c10", "c11", ("DilatedConnectionProtocol.process_inbound_queue", "DilatedConnectionProtocol.queue_inbound_record",
                                       "DilatedConnectionProtocol.deliver_record", "DilatedConnectionProtocol.select",
                                       "DilatedConnectionProtocol.dataReceived"))
    out += shared_tasks("c10", "c13", ("SubChannel._set_protocol", "SubChannel._deliver_queued_data", "SubchannelDemultiplex._connect",
                                       "SubChannel.remote_data", "SubChannel.remote_close"))
    return out


TRUSTED = list(dilq.TRUSTED_COMMON) + [
    "boundary model: connection.send_record(r) appends r to the connection's ghost stream `sent` and may synchronously "
    "call Outbound.pauseProducing() (the transport's buffer filled up) - nothing else",
    "boundary model: an application producer's resumeProducing() may re-enter Outbound any number of times through "
    "Manager.send_open/send_data/send_close, subchannel_registerProducer, subchannel_unregisterProducer and (via the "
    "transport) pauseProducing: havoc under the rely.* clauses those entry points are proved to guarantee "
    "(closed under composition: lemma:rely_transitive)",
    "transport.registerProducer / unregisterProducer and Producer.pauseProducing / PullToPush.startStreaming / "
    "stopStreaming do not call back into Outbound",
]
ASSUMPTIONS = [
    "L2 delivers the records handed to one connection whole, in order, possibly cut short (C12); acks are only produced by "
    "Manager.got_record, so an ack's seqnum never exceeds the receiver's watermark",
    "glue between the two sides, now lemmas discharged by SMT over the contracts' own clauses (hypotheses are taken from the contract "
    "objects): lemma:new_connection_stream (use_connection: the stream of a fresh connection is the un-acked queue from its oldest "
    "record on, then later writes - one contiguous run), lemma:stream_prefix_contiguous, lemma:ack_keeps_oldest_unacked_bound "
    "(handle_ack, applied as a contract), lemma:write_keeps_oldest_unacked (rely.*), lemma:receive_run, lemma:exactly_once_step "
    "(induction step: delivered == records 0..w and un-acked queue == a..n-1 with a <= w+1 <= n is kept by processing any prefix of a "
    "connection's stream). What remains ARGUED is only the composition of these steps over a whole execution (the induction itself, "
    "base case delivered == [], w == -1, a == 0 from the constructors) and the two environment facts in the first item (L2 FIFO "
    "prefix; an ack's seqnum <= receiver watermark)",
    "exactly_once_step is a pure implication {receive_run.requires, receive_run.ensures, invariant} => invariant'; "
    "use_connection's contract cannot be APPLIED at a call site (havoc of _connection yields a new object, conn_is(self, c) is then "
    "unsatisfiable), so lemma:new_connection_stream takes use_connection's proved ensures clauses as hypotheses instead of calling it",
    "Outbound.use_connection is only called while there is no connection (Manager stops the old one first; one connection at "
    "a time is C11) and, like resumeProducing/stop_using_connection/handle_ack, from the reactor, not from inside a producer's turn",
    "Manager.got_record is under contract for Open/Data/Close/Ack; Ping/Pong/KCM handling is C16's",
    "Inbound.handle_open is verified on its real body (watermark, _connection, _paused_subchannels untouched: frame obligations; a "
    "refused OPEN queues exactly one CLOSE through Manager.send_close's contract, otherwise the sender side is untouched) and "
    "Manager.got_record uses that contract. Inside it: SubChannel(...) is a boundary event (opaque handle), "
    "SubchannelDemultiplex._got_open is used through the contract C13 proves; the application's buildProtocol/makeConnection/"
    "dataReceived callbacks (reached through _got_open / SubChannel.remote_data) do not raise and are not followed when they re-enter "
    "Manager.send_* (re-entrant writes are covered for producers only: rely.*)",
    "corrected clause: got_record's `c10.data-does-not-touch-queue` held for an Open only under the former assumption that handle_open "
    "does nothing to the sender side; the real handle_open answers an OPEN for an undeclared subprotocol with one CLOSE (C13 requires "
    "it). It is now split: Data/Close never touch the queue; an Open does not unless refused; a refused Open queues exactly "
    "Close(next seqnum, scid)",
    "not decided: that a replacement connection is eventually made, and that the peer eventually acks (liveness, C11/C16)",
]
