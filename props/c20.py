"""C20 - peer connection hints are untrusted: never a crash, only valid hints dialled."""
import z3

from pyvc.contract import Contract
from pyvc.runner import ContractTask
from pyvc.values import *   # noqa
from pyvc import values
from pyvc.values import J, OJ
from pyvc.interp import VJsonDict
from .common import make_registry, install_trace_funcs, register_classes

PROP = "C20"

values.NT_DEFS.update({
    "DirectTCPV1Hint": [("hostname", "json"), ("port", "json"), ("priority", "json")],
    "TorTCPV1Hint": [("hostname", "json"), ("port", "json"), ("priority", "json")],
})
HINT = "union[nt[DirectTCPV1Hint],nt[TorTCPV1Hint]]"
values.NT_DEFS["RelayV1Hint"] = [("hints", f"seq[{HINT}]")]
OPTHINT = "union[none,nt[DirectTCPV1Hint],nt[TorTCPV1Hint]]"
ANYHINT = "union[none,nt[DirectTCPV1Hint],nt[TorTCPV1Hint],nt[RelayV1Hint]]"
SOMEHINT = "union[nt[DirectTCPV1Hint],nt[TorTCPV1Hint],nt[RelayV1Hint]]"


def _valid_fields(items):
    host, port, prio = [to_json(x) for x in items]
    return z3.And(J.is_jstr(host), J.is_jint(port), z3.Or(J.is_jint(prio), J.is_jreal(prio)))


def _valid_tcp(v):
    """z3 Bool: v is a Direct/Tor hint object with str hostname, genuine-int port, real priority"""
    if isinstance(v, VUnion):
        return z3.Or([z3.And(c, _valid_tcp(x)) for c, x in v.alts])
    if isinstance(v, VOpt):
        return z3.And(z3.Not(v.isnone), _valid_tcp(v.inner))
    if isinstance(v, VTuple) and v.ntname in ("DirectTCPV1Hint", "TorTCPV1Hint"):
        return _valid_fields(v.items)
    return z3.BoolVal(False)


def _valid_seq(seq):
    if isinstance(seq, VList):
        return z3.And([_valid_tcp(x) for x in seq.items] + [z3.BoolVal(True)])
    if isinstance(seq, VTuple):
        return z3.And([_valid_tcp(x) for x in seq.items] + [z3.BoolVal(True)])
    i = z3.Int("i!vs")
    return z3.ForAll([i], z3.Implies(z3.And(0 <= i, i < z3.Length(seq.z)), _valid_tcp(from_z3(seq.z[i], seq.elem))))


def _valid_any(v):
    if isinstance(v, VUnion):
        return z3.Or([z3.And(c, _valid_any(x)) for c, x in v.alts])
    if isinstance(v, VTuple) and v.ntname == "RelayV1Hint":
        return _valid_seq(v.items[0])
    return _valid_tcp(v)


def regf():
    reg = make_registry()
    install_trace_funcs(reg)
    register_classes(reg, ["wormhole/errors.py", "wormhole/_dilation/connector.py"])
    for c in CONTRACTS:
        reg.contracts[c.target] = c
    sf = reg.spec_funcs
    sf["valid_hint"] = lambda it, h: VBool(_valid_tcp(h))
    sf["valid_any_hint"] = lambda it, h: VBool(_valid_any(h))
    sf["all_valid"] = lambda it, s: VBool(_valid_seq(s))

    def all_valid_any(it, s):
        if isinstance(s, (VList, VTuple)):
            return VBool(z3.And([_valid_any(x) for x in s.items] + [z3.BoolVal(True)]))
        i = z3.Int("i!va")
        return VBool(z3.ForAll([i], z3.Implies(z3.And(0 <= i, i < z3.Length(s.z)), _valid_any(from_z3(s.z[i], s.elem)))))

    sf["all_valid_any"] = all_valid_any

    def all_relays_valid(it, st):
        k = z3.Const("k!rv", sort_of("nt[RelayV1Hint]"))
        kv = from_z3(k, "nt[RelayV1Hint]")
        return VBool(z3.ForAll([k], z3.Implies(st.z[k], _valid_seq(kv.items[0]))))

    sf["all_relays_valid"] = all_relays_valid

    def hint_matches(it, r, hint):
        """a non-None result carries exactly the dict's hostname/port/priority (default 0.0) and
        the class that the dict's type names"""
        hz = to_json(hint)
        d = J.d(hz)

        def fld(name):
            return OJ.v(z3.Select(d, z3.StringVal(name)))

        prio = z3.If(OJ.is_present(z3.Select(d, z3.StringVal("priority"))), fld("priority"), J.jreal(z3.RealVal(0)))
        ty = fld("type")

        def one(v):
            if v is NONE:
                return z3.BoolVal(True)
            if isinstance(v, VTuple) and v.ntname in ("DirectTCPV1Hint", "TorTCPV1Hint"):
                want = "direct-tcp-v1" if v.ntname == "DirectTCPV1Hint" else "tor-tcp-v1"
                host, port, pr = [to_json(x) for x in v.items]
                return z3.And(J.is_jdict(hz), ty == J.jstr(z3.StringVal(want)), host == fld("hostname"),
                              port == fld("port"), pr == prio)
            return z3.BoolVal(False)
        if isinstance(r, VUnion):
            return VBool(z3.And([z3.Implies(c, one(x)) for c, x in r.alts]))
        return VBool(one(r))

    sf["hint_matches"] = hint_matches

    def wellformed_tcp(it, hint):
        hz = to_json(hint)
        d = J.d(hz)

        def has(name):
            return OJ.is_present(z3.Select(d, z3.StringVal(name)))

        def fld(name):
            return OJ.v(z3.Select(d, z3.StringVal(name)))
        ty = fld("type")
        return VBool(z3.And(J.is_jdict(hz), has("type"),
                            z3.Or(ty == J.jstr(z3.StringVal("direct-tcp-v1")), ty == J.jstr(z3.StringVal("tor-tcp-v1"))),
                            has("hostname"), J.is_jstr(fld("hostname")), has("port"), J.is_jint(fld("port")),
                            z3.Or(z3.Not(has("priority")), J.is_jint(fld("priority")), J.is_jreal(fld("priority")))))

    sf["wellformed_tcp"] = wellformed_tcp

    def sorted_model(it, args, kw, fr):
        v = it.force(args[0])
        if isinstance(v, (VList, VTuple)) and len(v.items) <= 1:
            return VList(list(v.items))
        if isinstance(v, VSet):
            from pyvc.models import b_list
            v = b_list(it, [v], {}, fr)
        if not isinstance(v, VSeq):
            raise OutOfSubset("sorted() of this value")
        L = z3.Length(v.z)
        i = z3.Int("i!so")
        if v.elem.kind == "union" or v.elem.kind == "nt":
            # namedtuples compare field by field: hostname (str), port (int), then priority; mixing a
            # str priority with a numeric one (or two unorderable values) raises TypeError
            allnum = z3.ForAll([i], z3.Implies(z3.And(0 <= i, i < L), _valid_tcp(from_z3(v.z[i], v.elem))))
            if it.ctx.branch(z3.And(L >= 2, z3.Not(allnum)), "sorted-typeerror"):
                it.raise_("TypeError", VStr("'<' not supported between instances"))
        elif v.elem.kind == "json":
            allnum = z3.ForAll([i], z3.Implies(z3.And(0 <= i, i < L), z3.Or(J.is_jint(v.z[i]), J.is_jreal(v.z[i]))))
            if it.ctx.branch(z3.And(L >= 2, z3.Not(allnum)), "sorted-typeerror"):
                it.raise_("TypeError", VStr("'<' not supported between instances"))
        r = z3.Const(it.ctx.namer("sorted"), v.z.sort())
        x = z3.Const("x!so", v.z.sort().basis())
        it.ctx.assume(z3.Length(r) == L)
        perm = z3.Function(it.ctx.namer("sort_perm"), IntS, IntS)
        j = z3.Int("j!so")
        it.ctx.assume(z3.ForAll([j], z3.Implies(z3.And(0 <= j, j < L),
                                                z3.And(0 <= perm(j), perm(j) < L, r[j] == v.z[perm(j)]))))
        it.reg.note("sorted(): result is a same-length sequence with the same members; TypeError possible when two or "
                    "more elements are present and some priority is not a number")
        return VSeq(r, v.elem)

    reg.ext_models["sorted"] = sorted_model
    reg.input_as_boundary = True
    return reg


TCP_ENSURES = [("only-valid-hints", "result is None or valid_hint(result)"),
               ("faithful", "hint_matches(result, hint)"),
               ("accepts-wellformed", "implies(wellformed_tcp(hint), result is not None)")]

CONTRACTS = [
    Contract("wormhole/_hints.py:parse_tcp_v1_hint", props=[PROP], params={"hint": "json"}, returns=OPTHINT,
             ensures=TCP_ENSURES,
             note="no exception for any JSON value; a result is a Direct/Tor hint with str hostname, genuine int port "
                  "(bool is not a port), numeric priority, taken unchanged from the dict"),
    Contract("wormhole/_hints.py:parse_hint", props=[PROP], params={"hint_struct": "json"}, returns=ANYHINT,
             ensures=[("only-valid-hints", "result is None or valid_any_hint(result)"),
                      ("faithful-tcp", "implies(wellformed_tcp(hint_struct), result is not None and hint_matches(result, hint_struct))")]),
    Contract("wormhole/transit.py:Common.add_connection_hints", props=[PROP], params={"hints": "json"},
             self_fields={"_their_direct_hints": f"seq[{HINT}]", "_our_relay_hints": "set[nt[RelayV1Hint]]"},
             requires=["all_valid(self._their_direct_hints)", "all_relays_valid(self._our_relay_hints)"],
             ensures=[("only-valid-direct", "all_valid(self._their_direct_hints)"),
                      ("only-valid-relay", "all_relays_valid(self._our_relay_hints)")],
             modifies=["_their_direct_hints", "_our_relay_hints"],
             loops={0: {"header": "for h in hints",
                        "invariant": ["all_valid(self._their_direct_hints)", "all_relays_valid(self._our_relay_hints)"]},
                    1: {"header": "for rhs in sub_hints", "retype": {"relay_hints": f"seq[{HINT}]"},
                        "invariant": ["all_valid(relay_hints)", "all_valid(self._their_direct_hints)",
                                      "all_relays_valid(self._our_relay_hints)"]}}),
    Contract("wormhole/_dilation/manager.py:Manager.use_hints", props=[PROP], params={"hint_message": "json"},
             self_fields={"_connector": "obj[Connector]"}, requires=["isinstance(hint_message, dict)"],
             ensures=[("only-valid-to-connector", "input_calls('got_hints') == 1 and all_valid_any(input_arg('got_hints', 0, 0))")],
             note="hint_message is the decoded 'connection-hints' dilation message: a dict with arbitrary other content"),
    Contract("lemma:roundtrip_tcp", props=[PROP], params={"h": HINT}, source_module="wormhole/_hints.py",
             source_text="""
             def roundtrip_tcp(h):
                 return parse_hint(encode_hint(h))
             """,
             requires=["valid_hint(h)"], ensures=[("parse-encode-identity", "result == h")],
             note="lemma over encode_hint (inlined) and parse_hint's callee parse_tcp_v1_hint (by contract)"),
]


def tasks():
    return [ContractTask(c, regf) for c in CONTRACTS]


TRUSTED = ["z3/cvc5", "pyvc semantics of the Python subset incl. the JSON sort (bool is a subclass of int; .get/[]/in/iteration "
           "raise AttributeError/KeyError/TypeError exactly as CPython does on the wrong variant)",
           "sorted() model (same members; TypeError iff incomparable priorities possible)",
           "Twisted endpoint constructors accept (str, int)"]
ASSUMPTIONS = ["JSON floats are reals", "Connector.got_hints is an Automat input treated as a boundary here",
               "Connector._use_hints (grouping by priority) is not under contract yet"]
