"""C20 - peer connection hints are untrusted: never a crash, only valid hints dialled."""
import z3

from pyvc.contract import Contract
from pyvc.runner import ContractTask
from pyvc.values import *   # noqa
from pyvc import values
from pyvc.values import J, OJ
from pyvc.interp import VJsonDict
from pyvc.models import uf
from .common import make_registry, install_trace_funcs, register_classes

PROP = "C20"

values.NT_DEFS.update({
    "DirectTCPV1Hint": [("hostname", "json"), ("port", "json"), ("priority", "json")],
    "TorTCPV1Hint": [("hostname", "json"), ("port", "json"), ("priority", "json")],
})
HINT = "union[nt[DirectTCPV1Hint],nt[TorTCPV1Hint]]"
values.NT_DEFS["RelayV1Hint"] = [("hints", f"seq[{HINT}]")]
OPTHINT = "union[none,nt[DirectTCPV1Hint],nt[TorTCPV1Hint]]"
ANYHINT = "union[none,nt[DirectTCPV1Hint],nt[TorTCPV1Hint],nt[RelayV1Hint]]"
SOMEHINT = "union[nt[DirectTCPV1Hint],nt[TorTCPV1Hint],nt[RelayV1Hint]]"


DEFERRED = "opaque[Deferred]"
CON = "wormhole/_dilation/connector.py:Connector."
CONNECTOR_FIELDS = {"_tor": "opt[obj[Tor]]", "_reactor": "obj[Reactor]", "_no_listen": "bool", "_manager": "obj[ManagerB]",
                    "_pending_connectors": f"set[{DEFERRED}]", "_dilation_key": "bytes", "_side": "str",
                    "_pending_connections": "obj[EmptyableSetB]"}
SUPPORTED = "(isinstance({h}, DirectTCPV1Hint) or (self._tor is not None and isinstance({h}, TorTCPV1Hint)))"


def _valid_fields(items):
    host, port, prio = [to_json(x) for x in items]
    return z3.And(J.is_jstr(host), J.is_jint(port), z3.Or(J.is_jint(prio), J.is_jreal(prio)))


def _valid_tcp(v):
    """z3 Bool: v is a Direct/Tor hint object with str hostname, genuine-int port, real priority"""
    if isinstance(v, VUnion):
        return z3.Or([z3.And(c, _valid_tcp(x)) for c, x in v.alts])
    if isinstance(v, VOpt):
        return z3.And(z3.Not(v.isnone), _valid_tcp(v.inner))
    if isinstance(v, VTuple) and v.ntname in ("DirectTCPV1Hint", "TorTCPV1Hint"):
        return _valid_fields(v.items)
    return z3.BoolVal(False)


def _valid_seq(seq):
    if isinstance(seq, VList):
        return z3.And([_valid_tcp(x) for x in seq.items] + [z3.BoolVal(True)])
    if isinstance(seq, VTuple):
        return z3.And([_valid_tcp(x) for x in seq.items] + [z3.BoolVal(True)])
    i = z3.Int("i!vs")
    return z3.ForAll([i], z3.Implies(z3.And(0 <= i, i < z3.Length(seq.z)), _valid_tcp(from_z3(seq.z[i], seq.elem))))


def _valid_any(v):
    if isinstance(v, VUnion):
        return z3.Or([z3.And(c, _valid_any(x)) for c, x in v.alts])
    if isinstance(v, VTuple) and v.ntname == "RelayV1Hint":
        return _valid_seq(v.items[0])
    return _valid_tcp(v)


def _enc_tcp(x, as_direct=False):
    """J term: the dict encode_hint writes for the Direct/Tor hint object x (every sub-hint of a relay hint is written as
    direct-tcp-v1, whatever its class)"""
    if isinstance(x, VUnion):
        alts = [(c, _enc_tcp(v, as_direct)) for c, v in x.alts if v is not NONE]
        out = alts[-1][1]
        for c, t in reversed(alts[:-1]):
            out = z3.If(c, t, out)
        return out
    want = "direct-tcp-v1" if as_direct or x.ntname == "DirectTCPV1Hint" else "tor-tcp-v1"
    host, port, prio = [to_json(y) for y in x.items]
    a = z3.K(StringS, OJ.absent)
    for k, val in (("type", J.jstr(z3.StringVal(want))), ("priority", prio), ("hostname", host), ("port", port)):
        a = z3.Store(a, z3.StringVal(k), OJ.present(val))
    return J.jdict(a)


def _encodes(rz, h):
    """z3 Bool: the JSON value rz is exactly what encode_hint writes for the hint object h (a relation that determines rz:
    exact key set, every value taken unchanged from the object, one entry per sub-hint in order)"""
    ground, elems = _encodes_parts(rz, h, z3.Int("i!enc"))
    # the per-element part is one universally quantified conjunct at the top (skolemised as a goal, instantiated as a hypothesis)
    return z3.And(ground, z3.ForAll([z3.Int("i!enc")], elems)) if elems is not None else ground


def _encodes_parts(rz, h, i):
    if isinstance(h, VUnion):
        parts = [(c, _encodes_parts(rz, x, i)) for c, x in h.alts]
        qs = [z3.Implies(c, q) for c, (g, q) in parts if q is not None]
        return z3.And([z3.Implies(c, g) for c, (g, q) in parts]), (z3.And(qs) if qs else None)
    if h is NONE or not isinstance(h, VTuple):
        return z3.BoolVal(False), None
    if h.ntname in ("DirectTCPV1Hint", "TorTCPV1Hint"):
        return rz == _enc_tcp(h), None
    subs = h.items[0]
    L = J.l(OJ.v(z3.Select(J.d(rz), z3.StringVal("hints"))))
    a = z3.K(StringS, OJ.absent)
    a = z3.Store(a, z3.StringVal("type"), OJ.present(J.jstr(z3.StringVal("relay-v1"))))
    a = z3.Store(a, z3.StringVal("hints"), OJ.present(J.jlist(L)))
    if isinstance(subs, (VList, VTuple)):
        units = [z3.Unit(_enc_tcp(x, True)) for x in subs.items]
        want = z3.Empty(z3.SeqSort(J)) if not units else units[0] if len(units) == 1 else z3.Concat(*units)
        return z3.And(rz == J.jdict(a), L == want), None
    return (z3.And(rz == J.jdict(a), z3.Length(L) == z3.Length(subs.z)),
            z3.Implies(z3.And(0 <= i, i < z3.Length(subs.z)), L[i] == _enc_tcp(from_z3(subs.z[i], subs.elem), True)))


def regf():
    reg = make_registry()
    install_trace_funcs(reg)
    register_classes(reg, ["wormhole/errors.py", "wormhole/_dilation/connector.py"])
    for c in CONTRACTS:
        reg.contracts[c.target] = c
    install_hint_support(reg)
    reg.func_models["wormhole/util.py:HKDF"] = lambda it, args, kw, fr: it.fresh("bytes", "hkdf")
    reg.input_as_boundary = True

    def send_hints(it, recv, meth, args, kwargs, fr):
        """Manager.send_hints as seen from the Connector: recorded with its receiver (its body: contract Manager.send_hints)"""
        it.ctx.event("bcall", "ManagerB", meth, list(args), dict(kwargs), recv=recv)
        return NONE

    reg.boundary["ManagerB.send_hints"] = send_hints

    def bcall_recv(it, name, k):
        name, k = it.concrete(name), it.concrete(k)
        evs = [e for e in it.ctx.trace if e[0] == "bcall" and e[1][1] == name]
        return evs[k][2]["recv"] if k < len(evs) and "recv" in evs[k][2] else VObj("<missing>")

    reg.spec_funcs["bcall_recv"] = bcall_recv
    return reg


def install_hint_support(reg):
    """spec functions over hint objects, the sorted()/defaultdict/endpoint/deferLater models: shared with props/c07.py
    (Common._connect consumes the parsed hints)"""
    sf = reg.spec_funcs
    generic = {k: sf.get(k) for k in ("n_calls", "is_method_of", "iter_n_calls", "iter_call_arg", "n_events")}

    def call_result(it, suffix, k=None):
        """result of the k-th contract-applied call whose target ends with suffix; None when there is no such call (the clause
        that uses it also counts the calls, so it is then false, not an error)"""
        evs = [e for e in it.ctx.trace if e[0] == "callret" and e[1][0].endswith(it.concrete(suffix))]
        k = it.concrete(k) if k is not None else 0
        return evs[k][1][1] if k < len(evs) else NONE

    sf["call_result"] = call_result
    sf["valid_hint"] = lambda it, h: VBool(_valid_tcp(h))
    sf["valid_any_hint"] = lambda it, h: VBool(_valid_any(h))
    sf["all_valid"] = lambda it, s: VBool(_valid_seq(s))

    def all_valid_any(it, s):
        if isinstance(s, (VList, VTuple)):
            return VBool(z3.And([_valid_any(x) for x in s.items] + [z3.BoolVal(True)]))
        i = z3.Int("i!va")
        return VBool(z3.ForAll([i], z3.Implies(z3.And(0 <= i, i < z3.Length(s.z)), _valid_any(from_z3(s.z[i], s.elem)))))

    sf["all_valid_any"] = all_valid_any

    def all_relays_valid(it, st):
        k = z3.Const("k!rv", sort_of("nt[RelayV1Hint]"))
        kv = from_z3(k, "nt[RelayV1Hint]")
        return VBool(z3.ForAll([k], z3.Implies(st.z[k], _valid_seq(kv.items[0]))))

    sf["all_relays_valid"] = all_relays_valid

    def hint_matches(it, r, hint):
        """a non-None result carries exactly the dict's hostname/port/priority (default 0.0) and
        the class that the dict's type names"""
        hz = to_json(hint)
        d = J.d(hz)

        def fld(name):
            return OJ.v(z3.Select(d, z3.StringVal(name)))

        prio = z3.If(OJ.is_present(z3.Select(d, z3.StringVal("priority"))), fld("priority"), J.jreal(z3.RealVal(0)))
        ty = fld("type")

        def one(v):
            if v is NONE:
                return z3.BoolVal(True)
            if isinstance(v, VTuple) and v.ntname in ("DirectTCPV1Hint", "TorTCPV1Hint"):
                want = "direct-tcp-v1" if v.ntname == "DirectTCPV1Hint" else "tor-tcp-v1"
                host, port, pr = [to_json(x) for x in v.items]
                return z3.And(J.is_jdict(hz), ty == J.jstr(z3.StringVal(want)), host == fld("hostname"),
                              port == fld("port"), pr == prio)
            return z3.BoolVal(False)
        if isinstance(r, VUnion):
            return VBool(z3.And([z3.Implies(c, one(x)) for c, x in r.alts]))
        return VBool(one(r))

    sf["hint_matches"] = hint_matches

    def wellformed_tcp(it, hint):
        hz = to_json(hint)
        d = J.d(hz)

        def has(name):
            return OJ.is_present(z3.Select(d, z3.StringVal(name)))

        def fld(name):
            return OJ.v(z3.Select(d, z3.StringVal(name)))
        ty = fld("type")
        return VBool(z3.And(J.is_jdict(hz), has("type"),
                            z3.Or(ty == J.jstr(z3.StringVal("direct-tcp-v1")), ty == J.jstr(z3.StringVal("tor-tcp-v1"))),
                            has("hostname"), J.is_jstr(fld("hostname")), has("port"), J.is_jint(fld("port")),
                            z3.Or(z3.Not(has("priority")), J.is_jint(fld("priority")), J.is_jreal(fld("priority")))))

    sf["wellformed_tcp"] = wellformed_tcp
    sf["encodes"] = lambda it, r, h: VBool(_encodes(to_json(r), h))
    sf["n_calls"] = lambda it, suffix: VInt(sum(1 for e in it.ctx.trace if e[0] == "call" and e[1][0].endswith(it.concrete(suffix))))
    def new_deferred(it):
        evs = [e for e in it.ctx.trace if e[0] == "new-deferred"]
        return evs[-1][1][0] if evs else it.fresh(DEFERRED, "no_deferred")

    sf["new_deferred"] = new_deferred

    def is_method_of(it, f, recv, meth):
        f, recv = it.force(f), it.force(recv)
        if isinstance(f, VFunc) and f.bound is not None and f.name == it.concrete(meth):
            return VBool(it.same(it.force(f.bound), recv))
        return VBool(False)

    sf["is_method_of"] = is_method_of
    def _since_iter(it):
        tr = it.ctx.trace
        start = max([i for i, e in enumerate(tr) if e[0] == "loop-body-start"] + [-1])
        return tr[start + 1:]

    def iter_n_calls(it, suffix):
        return VInt(sum(1 for e in _since_iter(it) if e[0] == "call" and e[1][0].endswith(it.concrete(suffix))))

    def iter_call_arg(it, suffix, k, i):
        evs = [e for e in _since_iter(it) if e[0] == "call" and e[1][0].endswith(it.concrete(suffix))]
        k, i = it.concrete(k), it.concrete(i)
        return evs[k][1][1][i] if k < len(evs) else NONE

    sf["iter_n_calls"] = iter_n_calls
    sf["iter_call_arg"] = iter_call_arg

    def buckets_valid(it, m):
        """every list stored in the priority map holds only parsed Direct/Tor hints"""
        k = z3.Const("k!bv", sort_of(m.kt))
        i = z3.Int("i!bv")
        b = z3.Select(m.val, k)
        return VBool(z3.ForAll([k, i], z3.Implies(z3.And(z3.Select(m.present, k), 0 <= i, i < z3.Length(b)),
                                                  _valid_tcp(from_z3(b[i], m.vt.args[0])))))

    def keys_numeric(it, m):
        k = z3.Const("k!kn", sort_of(m.kt))
        return VBool(z3.ForAll([k], z3.Implies(z3.Select(m.present, k), z3.Or(J.is_jint(k), J.is_jreal(k)))))

    sf["is_hex16"] = lambda it, x: VBool(z3.InRe(x.z, z3.Loop(z3.Union(z3.Range("0", "9"), z3.Range("a", "f")), 16, 16)))
    sf["buckets_valid"] = buckets_valid
    sf["keys_numeric"] = keys_numeric

    def new_defaultdict(it, args, kw):
        """collections.defaultdict(list) as used by Connector._use_hints: priority (a JSON number) -> list of hint objects"""
        m = VMap(z3.K(J, z3.BoolVal(False)), z3.K(J, z3.Empty(z3.SeqSort(sort_of(HINT)))), parse_type("json"), parse_type(f"seq[{HINT}]"))
        m.default_empty = True
        return m

    reg.ext_models["collections.defaultdict"] = new_defaultdict
    reg.ext_models["new:DilationHint"] = lambda it, cls, args, kw: it.fresh("opaque[DilationHint]", "dilation_hint")

    def ep_connect(it, recv, meth, args, kwargs, fr):
        """endpoint.connect(factory): recorded with the endpoint as argument 0; returns a Deferred"""
        it.ctx.event("bcall", "Endpoint", meth, [recv] + list(args), dict(kwargs))
        d = it.fresh(DEFERRED, "connect_d")
        it.ctx.event("new-deferred", d)
        return d

    reg.boundary["Endpoint.connect"] = ep_connect
    sf["n_events"] = lambda it, name: VInt(sum(1 for e in it.ctx.trace if e[0] == it.concrete(name)))

    def sorted_model(it, args, kw, fr):
        v = it.force(args[0])
        if isinstance(v, (VList, VTuple)) and len(v.items) <= 1:
            return VList(list(v.items))
        from_set = None
        if isinstance(v, VMap):
            v = VSet(v.present, v.kt)        # sorted(d): the keys
        if isinstance(v, VSet):
            from pyvc.models import b_list
            from_set = v
            v = b_list(it, [v], {}, fr)
        if not isinstance(v, VSeq):
            raise OutOfSubset("sorted() of this value")
        L = z3.Length(v.z)
        i = z3.Int("i!so")
        if v.elem.kind == "union" or v.elem.kind == "nt":
            # namedtuples compare field by field: hostname (str), port (int), then priority; mixing a
            # str priority with a numeric one (or two unorderable values) raises TypeError
            allnum = z3.ForAll([i], z3.Implies(z3.And(0 <= i, i < L), _valid_tcp(from_z3(v.z[i], v.elem))))
            if it.ctx.branch(z3.And(L >= 2, z3.Not(allnum)), "sorted-typeerror"):
                it.raise_("TypeError", VStr("'<' not supported between instances"))
        elif v.elem.kind == "json":
            allnum = z3.ForAll([i], z3.Implies(z3.And(0 <= i, i < L), z3.Or(J.is_jint(v.z[i]), J.is_jreal(v.z[i]))))
            if from_set is not None:
                # sorted(a set): the same condition stated over the members (list(set) has exactly the members)
                k = z3.Const("k!kn", J)
                allnum = z3.ForAll([k], z3.Implies(z3.Select(from_set.z, k), z3.Or(J.is_jint(k), J.is_jreal(k))))
            if it.ctx.branch(z3.And(L >= 2, z3.Not(allnum)), "sorted-typeerror"):
                it.raise_("TypeError", VStr("'<' not supported between instances"))
        r = z3.Const(it.ctx.namer("sorted"), v.z.sort())
        x = z3.Const("x!so", v.z.sort().basis())
        it.ctx.assume(z3.Length(r) == L)
        perm = z3.Function(it.ctx.namer("sort_perm"), IntS, IntS)
        j = z3.Int("j!so")
        it.ctx.assume(z3.ForAll([j], z3.Implies(z3.And(0 <= j, j < L),
                                                z3.And(0 <= perm(j), perm(j) < L, r[j] == v.z[perm(j)]))))
        if from_set is not None:
            # every element of the result is a member of the set (consequence of "same members", stated per index)
            it.ctx.assume(z3.ForAll([j], z3.Implies(z3.And(0 <= j, j < L), z3.Select(from_set.z, r[j]))))
        it.reg.note("sorted(): result is a same-length sequence with the same members; TypeError possible when two or "
                    "more elements are present and some priority is not a number")
        return VSeq(r, v.elem)

    reg.ext_models["sorted"] = sorted_model
    for k, v in generic.items():
        if v is not None:
            sf[k] = v        # the transit registry has its own (equivalent) trace functions
    reg.percent_json = True      # '%d' % json: TypeError unless it is a number; f"{json}" formats the Python value
    reg.nt_strict_attrs = True   # RelayV1Hint has no .priority / .hostname: AttributeError
    install_endpoint_models(reg)


def install_endpoint_models(reg):
    """Twisted endpoint constructors, isIPAddress/isIPv6Address and Tor.stream_via as boundary models: each *proves* at the
    call that the host is a str and the port a genuine int (the trusted contract of those library functions is stated for
    (str, int) only), records the dial target and returns an Endpoint object carrying it"""
    em = reg.ext_models
    reg.class_fields["Endpoint"] = {"kind": "str", "host": "json", "port": "json"}

    def need(it, what, host, port=None):
        hz = to_json(it.force(host))
        it.ctx.prove(J.is_jstr(hz), f"{what}.host-is-str", {"kind": "call-requires", "src": f"{what}: the host argument is a str"})
        if port is not None:
            pz = to_json(it.force(port))
            it.ctx.prove(J.is_jint(pz), f"{what}.port-is-int", {"kind": "call-requires",
                                                                 "src": f"{what}: the port argument is an int, not a bool"})

    def is_ip(name):
        def f(it, args, kw):
            need(it, name, args[0])
            return VBool(uf(name, J, BoolS)(to_json(it.force(args[0]))))
        return f

    em["twisted.internet.abstract.isIPAddress"] = is_ip("isIPAddress")
    em["twisted.internet.abstract.isIPv6Address"] = is_ip("isIPv6Address")

    def endpoint(kind, cname):
        def f(it, args, kw):
            need(it, cname, args[1], args[2])
            ep = VObj("Endpoint", {"kind": VStr(kind), "host": args[1], "port": args[2]})
            it.ctx.event("endpoint", VStr(kind), args[1], args[2], ep)
            return ep
        return f

    em["twisted.internet.endpoints.TCP4ClientEndpoint"] = endpoint("tcp4", "TCP4ClientEndpoint")
    em["twisted.internet.endpoints.TCP6ClientEndpoint"] = endpoint("tcp6", "TCP6ClientEndpoint")
    em["twisted.internet.endpoints.HostnameEndpoint"] = endpoint("hostname", "HostnameEndpoint")

    def stream_via(it, recv, meth, args, kwargs, fr):
        need(it, "Tor.stream_via", args[0], args[1])
        if it.ctx.choose([z3.BoolVal(True), z3.BoolVal(True)], "Tor.stream_via") == 1:
            it.raise_("ValueError", VStr("non-public address"))
        ep = VObj("Endpoint", {"kind": VStr("tor"), "host": args[0], "port": args[1]})
        it.ctx.event("endpoint", VStr("tor"), args[0], args[1], ep)
        return ep

    reg.boundary["Tor.stream_via"] = stream_via

    def defer_later(it, args, kw):
        """task.deferLater(reactor, delay, f, *args): recorded; the call happens later, from the reactor"""
        it.ctx.event("bcall", "task", "deferLater", list(args), dict(kw))
        d = it.fresh(DEFERRED, "deferLater")
        it.ctx.event("new-deferred", d)
        return d

    em["twisted.internet.task.deferLater"] = defer_later


TCP_ENSURES = [("only-valid-hints", "result is None or valid_hint(result)"),
               ("faithful", "hint_matches(result, hint)"),
               ("accepts-wellformed", "implies(wellformed_tcp(hint), result is not None)")]

CONTRACTS = [
    Contract("wormhole/_hints.py:parse_tcp_v1_hint", props=[PROP], params={"hint": "json"}, returns=OPTHINT,
             ensures=TCP_ENSURES,
             note="no exception for any JSON value; a result is a Direct/Tor hint with str hostname, genuine int port "
                  "(bool is not a port), numeric priority, taken unchanged from the dict"),
    Contract("wormhole/_hints.py:parse_hint", props=[PROP], params={"hint_struct": "json"}, returns=ANYHINT,
             ensures=[("only-valid-hints", "result is None or valid_any_hint(result)"),
                      ("faithful-tcp", "implies(wellformed_tcp(hint_struct), result is not None and hint_matches(result, hint_struct))")]),
    Contract("wormhole/transit.py:Common.add_connection_hints", props=[PROP], params={"hints": "json"},
             self_fields={"_their_direct_hints": f"seq[{HINT}]", "_our_relay_hints": "set[nt[RelayV1Hint]]"},
             requires=["all_valid(self._their_direct_hints)", "all_relays_valid(self._our_relay_hints)"],
             ensures=[("only-valid-direct", "all_valid(self._their_direct_hints)"),
                      ("only-valid-relay", "all_relays_valid(self._our_relay_hints)")],
             modifies=["_their_direct_hints", "_our_relay_hints"],
             loops={0: {"header": "for h in hints",
                        "invariant": ["all_valid(self._their_direct_hints)", "all_relays_valid(self._our_relay_hints)"]},
                    1: {"header": "for rhs in sub_hints", "retype": {"relay_hints": f"seq[{HINT}]"},
                        "invariant": ["all_valid(relay_hints)", "all_valid(self._their_direct_hints)",
                                      "all_relays_valid(self._our_relay_hints)"]}}),
    Contract("wormhole/_dilation/manager.py:Manager.use_hints", props=[PROP], params={"hint_message": "json"},
             self_fields={"_connector": "obj[Connector]"}, requires=["isinstance(hint_message, dict)"],
             ensures=[("only-valid-to-connector", "input_calls('got_hints') == 1 and all_valid_any(input_arg('got_hints', 0, 0))")],
             note="hint_message is the decoded 'connection-hints' dilation message: a dict with arbitrary other content"),
    Contract("wormhole/_hints.py:endpoint_from_hint_obj", props=[PROP],
             params={"hint": SOMEHINT, "tor": "opt[obj[Tor]]", "reactor": "obj[Reactor]"},
             requires=["valid_any_hint(hint)"], returns="opt[obj[Endpoint]]",
             ensures=[("supported-type-only",
                       "implies(result is not None, isinstance(hint, DirectTCPV1Hint) or (tor is not None and isinstance(hint, TorTCPV1Hint)))"),
                      ("same-target", "implies(result is not None, result.host == hint.hostname and result.port == hint.port)"),
                      ("direct-hint-without-tor-is-dialled", "implies(tor is None and isinstance(hint, DirectTCPV1Hint), result is not None)")],
             internal_ensures=[("at-most-one-endpoint", "n_events('endpoint') <= 1 and (n_events('endpoint') == 1) == (result is not None)")],
             note="an endpoint is built only for a Direct hint (or a Direct/Tor hint through Tor), with exactly the hint's "
                  "hostname and port; the library calls get a str and a genuine int (proved at each call); Tor's ValueError "
                  "for an unroutable address is caught"),
    Contract("wormhole/_hints.py:describe_hint_obj", props=[PROP],
             params={"hint": SOMEHINT, "relay": "bool", "tor": "opt[obj[Tor]]"},
             requires=["valid_any_hint(hint)"], returns="str",
             ensures=[("describes-without-raising", "len(result) > 0")],
             note="'%s:%d' needs a genuine int port: no TypeError for any hint that passed the parser"),
    Contract(CON + "_schedule_connection", props=[PROP], params={"delay": "real", "h": HINT, "is_relay": "bool"},
             self_fields=CONNECTOR_FIELDS, requires=["valid_hint(h)"], modifies=["_pending_connectors"],
             internal_ensures=[
                 ("endpoint-asked-for-exactly-this-hint",
                  "n_calls('endpoint_from_hint_obj') == 1 and call_arg('endpoint_from_hint_obj', 0, 0) == h and "
                  "call_arg('endpoint_from_hint_obj', 0, 1) is self._tor"),
                 ("one-attempt-scheduled-iff-there-is-an-endpoint",
                  "bcalls('deferLater') == ite(call_result('endpoint_from_hint_obj') is not None, 1, 0)"),
                 ("the-attempt-is-for-exactly-this-hint",
                  "bcalls('deferLater') == 0 or ("
                  "is_method_of(bcall_arg('deferLater', 0, 2), self, '_connect') and bcall_arg('deferLater', 0, 1) == delay and "
                  "bcall_arg('deferLater', 0, 3) is call_result('endpoint_from_hint_obj') and bcall_arg('deferLater', 0, 5) == is_relay)"),
                 ("attempt-is-tracked-for-cancellation",
                  f"forall(lambda x: (x in self._pending_connectors) == (x in old(self._pending_connectors) or "
                  f"(bcalls('deferLater') == 1 and x == new_deferred())), '{DEFERRED}')"),
                 ("no-connect-scheduled-without-an-endpoint", "bcalls('deferLater') == 0 or bcall_arg('deferLater', 0, 3) is not None")],
             note="h passed the parser (call-site precondition, proved in _use_hints); the endpoint comes from "
                  "endpoint_from_hint_obj (by contract)"),
    Contract(CON + "_connect", props=[PROP], params={"ep": "opt[obj[Endpoint]]", "description": "str", "is_relay": "bool"},
             self_fields=CONNECTOR_FIELDS, requires=["is_hex16(self._side)"], returns=DEFERRED,
             raises_exactly={"AttributeError": "ep is None"},
             internal_ensures=[("dials-exactly-the-given-endpoint",
                                "bcalls('connect') == 1 and bcall_arg('connect', 0, 0) is ep and "
                                "(bcall_arg('connect', 0, 1)._relay_handshake is not None) == is_relay")],
             note="the deferred call that _schedule_connection arms: raises (inside the reactor, logged by the errback chain) "
                  "exactly when it was scheduled without an endpoint"),
    Contract(CON + "_use_hints", props=[PROP], params={"hints": f"seq[{SOMEHINT}]"}, self_fields=CONNECTOR_FIELDS,
             requires=["all_valid_any(hints)"], modifies=["_pending_connectors"],
             internal_ensures=[("status-reported-once", "bcalls('_hint_status') == 1")],
             loops={0: {"header": "for h in hints", "retype": {"relays": "seq[nt[RelayV1Hint]]"},
                        "invariant": ["all_valid_any(relays)", "buckets_valid(direct)", "keys_numeric(direct)"]},
                    1: {"header": "for p in priorities", "retype": {"hint_status": "seq[opaque[DilationHint]]"},
                        "modifies": [("self", "_pending_connectors")],
                        "invariant": ["all_valid_any(relays)", "buckets_valid(direct)"]},
                    2: {"header": "for h in direct[p]", "modifies": [("self", "_pending_connectors")],
                        "invariant": ["all_valid(_iter)"],
                        "body_ensures": [
                            "implies(isinstance(h, TorTCPV1Hint) and self._tor is None, iter_n_calls('_schedule_connection') == 0)",
                            "implies(not (isinstance(h, TorTCPV1Hint) and self._tor is None), iter_n_calls('_schedule_connection') == 1 "
                            "and iter_call_arg('_schedule_connection', 0, 2) == h and not iter_call_arg('_schedule_connection', 0, 3))"]},
                    3: {"header": "for r in relays", "modifies": [("self", "_pending_connectors")],
                        "invariant": ["all_valid_any(relays)"]},
                    4: {"header": "for h in r.hints", "modifies": [("self", "_pending_connectors")],
                        "invariant": ["all_valid(_iter)"],
                        "body_ensures": ["iter_n_calls('_schedule_connection') == 1 and iter_call_arg('_schedule_connection', 0, 2) == h "
                                         "and iter_call_arg('_schedule_connection', 0, 3)"]}},
             note="for any list of hint objects that passed the parser: nothing raises (grouping by priority, sorted() over the "
                  "priorities); every _schedule_connection gets a parsed hint (its precondition, proved at both call sites); a "
                  "Tor hint is not dialled directly without Tor; every other direct hint and every relay sub-hint is scheduled "
                  "exactly once, with the right is_relay flag"),
    Contract(CON + "got_hints", props=[PROP], params={"hint_objs": f"seq[{SOMEHINT}]"},
             self_fields={"__state": "state", **CONNECTOR_FIELDS},
             requires=["all_valid_any(hint_objs)"], modifies=["_pending_connectors"],
             raises_exactly={"NoTransition": "in_state(self, 'stopped')"},
             ensures=[("state-kept", "state_of(self) == old(state_of(self))")],
             internal_ensures=[("dials-only-while-connecting", "n_calls('_use_hints') == ite(in_state(self, 'connecting'), 1, 0) and "
                                                               "implies(n_calls('_use_hints') == 1, call_arg('_use_hints', 0, 1) == hint_objs)"),
                               ("once-connected-hints-are-ignored", "implies(in_state(self, 'connected'), len(bcall_names()) == 0 and "
                                                                    "self._pending_connectors == old(self._pending_connectors))")],
             note="the Automat input through the real transition table: in 'connecting' exactly _use_hints(hint_objs) (by contract) "
                  "runs, in 'connected' nothing; a stopped Connector has no row (NoTransition, Automat's own behaviour: that the "
                  "Manager never feeds a stopped Connector is C11's business)"),
    Contract("wormhole/_hints.py:encode_hint", props=[PROP], params={"h": SOMEHINT}, returns="json",
             ensures=[("result-is-exactly-the-encoding", "encodes(result, h)")],
             note="never raises for a hint object; the dict carries exactly type/priority/hostname/port taken unchanged from the "
                  "object (relay-v1: one direct-tcp-v1 entry per sub-hint, in order)"),
    Contract("lemma:roundtrip_tcp", props=[PROP], params={"h": HINT}, source_module="wormhole/_hints.py",
             source_text="""
             def roundtrip_tcp(h):
                 return parse_hint(encode_hint(h))
             """,
             requires=["valid_hint(h)"], ensures=[("parse-encode-identity", "result == h")],
             note="lemma over encode_hint (inlined) and parse_hint's callee parse_tcp_v1_hint (by contract)"),
]


for _c in CONTRACTS:
    if _c.target == CON + "_use_hints":
        _c.qf_feasibility = True     # quantified invariants: branch pruning without them (keeps more paths, never fewer)


CONTRACTS.append(
    Contract("lemma:roundtrip_relay_single", props=[PROP], params={"h0": "nt[DirectTCPV1Hint]"}, source_module="wormhole/_hints.py",
             source_text="""
             def roundtrip_relay_single(h0):
                 return parse_hint(encode_hint(RelayV1Hint(hints=(h0,))))
             """,
             requires=["valid_hint(h0)"],
             ensures=[("relay-hint-parses-back-to-the-same-target",
                       "isinstance(result, RelayV1Hint) and len(result.hints) == 1 and implies(len(result.hints) == 1, result.hints[0] == h0)")],
             note="the relay hints this side produces carry exactly one Direct sub-hint (Common.__init__ / "
                  "Connector.__attrs_post_init__ build RelayV1Hint(hints=(relay_hint,)) from parse_hint_argv): encode_hint's "
                  "relay branch (inlined, real loop) followed by parse_hint (parse_tcp_v1_hint by contract) gives it back"))


PUBLISHED = ("bcalls('send_hints') == 1 and len(bcall_names()) == 1 and bcall_recv('send_hints', 0) is self._manager and "
             "len(bcall_arg('send_hints', 0, 0)) == len({hs}) and "
             "forall(lambda i: implies(0 <= i and i < len({hs}), encodes(bcall_arg('send_hints', 0, 0)[i], {hs}[i])), 'int')")
PUB_FIELDS = {"_manager": "obj[ManagerB]"}
LISTEN_FIELDS = {"__state": "state", **CONNECTOR_FIELDS, "_listeners": "set[opaque[port]]", "_transit_relays": "seq[nt[RelayV1Hint]]"}

CONTRACTS += [
    Contract(CON + "_publish_hints", props=[PROP], params={"hint_objs": f"seq[{SOMEHINT}]"}, self_fields=PUB_FIELDS,
             internal_ensures=[("one-message-with-exactly-the-encoding-of-every-hint-object-once-in-order",
                                PUBLISHED.format(hs="hint_objs"))],
             note="the list handed to Manager.send_hints has one entry per hint object, entry i being exactly what encode_hint "
                  "(by contract: the relation `encodes`, which fixes the whole dict) writes for hint_objs[i]: nothing is published "
                  "that is not the encoding of an object this side built, and no object is published twice by one call"),
    Contract(CON + "listener_ready", props=[PROP], params={"hint_objs": f"seq[{SOMEHINT}]"}, self_fields=LISTEN_FIELDS,
             modifies=[], raises_exactly={"NoTransition": "in_state(self, 'stopped')"},
             ensures=[("state-kept", "state_of(self) == old(state_of(self))")],
             internal_ensures=[("published-once-while-connecting-with-exactly-these-hints",
                                "n_calls('_publish_hints') == ite(in_state(self, 'connecting'), 1, 0) and "
                                "implies(n_calls('_publish_hints') == 1, call_arg('_publish_hints', 0, 1) == hint_objs)"),
                               ("once-connected-nothing-is-published", "implies(in_state(self, 'connected'), len(bcall_names()) == 0)")],
             note="the Automat input through the real transition table: in 'connecting' exactly _publish_hints(hint_objs) (by "
                  "contract), in 'connected' nothing; no row in 'stopped' (NoTransition: see ASSUMPTIONS)"),
    Contract("lemma:listener_hints", props=[PROP], source_module="wormhole/_dilation/connector.py",
             params={"c": "obj[Connector]", "addresses": "seq[str]", "lp": "opaque[port]"},
             source_text="""
             def listener_hints(c, addresses, lp):
                 c._start_listener(addresses)
                 listening = bcall_arg("addCallback", 0, 0)   # what _start_listener attached to ep.listen(factory)
                 listening(lp)                                 # the port is open
                 return input_arg("listener_ready", 0, 0)
             """,
             requires=["not in_state(c, 'stopped')"],
             returns="seq[nt[DirectTCPV1Hint]]",
             ensures=[("listener-ready-fed-once", "input_calls('listener_ready') == 1"),
                      ("published-through-_publish_hints-iff-still-connecting",
                       "n_calls('_publish_hints') == ite(old(in_state(c, 'connecting')), 1, 0) and "
                       "implies(n_calls('_publish_hints') == 1, call_arg('_publish_hints', 0, 1) == result)"),
                      ("one-direct-hint-per-address-in-order-on-the-listening-port",
                       "len(result) == len(addresses) and forall(lambda i: implies(0 <= i and i < len(addresses), "
                       "isinstance(result[i], DirectTCPV1Hint) and result[i].hostname == addresses[i] and "
                       "result[i].port == listening_port(lp) and result[i].priority == 0.0), 'int')"),
                      ("every-hint-built-is-one-the-peer's-parser-accepts", "all_valid_any(result)")],
             note="Connector._start_listener (real body) and its callback _listening: the hints handed to listener_ready are "
                  "DirectTCPV1Hint(str address, int port of the IListeningPort, 0.0), one per address; listener_ready runs through the "
                  "real transition table (publish_hints -> _publish_hints by contract). "
                  "requires: the Deferred of ep.listen() fires before the Connector is stopped (c17 has the same premise)"),
    Contract(CON + "start", props=[PROP], params={}, self_fields=LISTEN_FIELDS,
             requires=["all_valid_any(self._transit_relays)"], modifies=["_pending_connectors"],
             internal_ensures=[("relay-hints-published-once-exactly-the-configured-ones",
                                "n_calls('_publish_hints') == ite(len(self._transit_relays) > 0, 1, 0) and "
                                "implies(n_calls('_publish_hints') == 1, call_arg('_publish_hints', 0, 1) == self._transit_relays)"),
                               ("and-dialled", "n_calls('_use_hints') == n_calls('_publish_hints') and "
                                               "implies(n_calls('_use_hints') == 1, call_arg('_use_hints', 0, 1) == self._transit_relays)"),
                               ("listens-unless-told-not-to", "bcalls('listen') == ite(not self._no_listen and self._tor is None, 1, 0)")],
             note="the relay hints this side publishes are exactly self._transit_relays, once, through _publish_hints (by contract); "
                  "_start_listener inlined up to ep.listen() (its callback: lemma listener_hints)"),
    Contract("wormhole/_dilation/manager.py:Manager.send_hints", props=[PROP], params={"hints": "seq[json]"},
             self_fields={"_next_dilation_generation": "int", "_S": "obj[SendB]"}, modifies=["_next_dilation_generation"],
             internal_ensures=[("one-connection-hints-message-carrying-exactly-these-dicts",
                                "bcalls('send') == 1 and len(bcall_names()) == 1 and n_events('msg') == 1 and "
                                "sent_field(0, 'type') == 'connection-hints' and sent_field(0, 'hints') == hints and sent_keys(0) == 2"),
                               ("generation-counts-messages", "self._next_dilation_generation == old(self._next_dilation_generation) + 1"),
                               ("phase-names-the-generation", "bcall_arg('send', 0, 0) == 'dilate-' + str(old(self._next_dilation_generation))")],
             note="send_dilation_generation inlined: the dict given to dict_to_bytes (recorded; JSON encoding itself is trusted) is "
                  "{type: connection-hints, hints: <the list unchanged>}"),
]


def clause_of(target, name):
    """the text of clause `name` of the contract on `target` in this module (lemma hypotheses are taken from the contracts
    they rest on BY NAME: weakening the clause there weakens the hypothesis here, and the lemma fails)"""
    c = [c for c in CONTRACTS if c.target == target][0]
    return [e for n, e in c.ensures if n == name][0]


def _about(expr, var):
    import re
    return "(" + re.sub(r"\bresult\b", var, expr) + ")"


# what parse_hint / parse_tcp_v1_hint establish about the hint objects they return (their clauses `only-valid-hints`)
WF_PARSED = _about(clause_of("wormhole/_hints.py:parse_hint", "only-valid-hints"), "h")
WF_PARSED_TCP = _about(clause_of("wormhole/_hints.py:parse_tcp_v1_hint", "only-valid-hints"), "h")
for _c in CONTRACTS:
    if _c.target == "lemma:roundtrip_tcp":
        _c.requires = [WF_PARSED_TCP]       # was the literal valid_hint(h): now parse_tcp_v1_hint's clause, by name
CONTRACTS += [
    Contract("lemma:dilation_hint_roundtrip", props=[PROP], params={"h": HINT}, source_module="wormhole/_hints.py",
             source_text="""
             def dilation_hint_roundtrip(h):
                 return parse_hint(encode_hint(h))
             """,
             requires=[WF_PARSED],
             ensures=[("tcp-hint-parses-back-to-itself", "result == h"),
                      ("what-comes-back-is-again-well-formed", _about(clause_of("wormhole/_hints.py:parse_hint", "only-valid-hints"), "result"))],
             note="encode_hint by contract (relation `encodes`, proved on its real body), parse_hint by contract. Hypothesis = "
                  "parse_hint's own clause only-valid-hints, taken by name. No exception may escape (no raises clause). Relay "
                  "hints: lemma roundtrip_relay_single (one Direct sub-hint, what this side builds); the arbitrary-length relay "
                  "round trip is NOT claimed (see ASSUMPTIONS)"),
    Contract("lemma:encoded_hint_never_raises_in_parse_hint", props=[PROP], params={"h": SOMEHINT}, source_module="wormhole/_hints.py",
             source_text="""
             def encoded_hint_never_raises_in_parse_hint(h):
                 return parse_hint(encode_hint(h))
             """,
             ensures=[("parses-without-raising-to-nothing-or-a-valid-hint",
                       _about(clause_of("wormhole/_hints.py:parse_hint", "only-valid-hints"), "result"))],
             note="no hypothesis on h at all (any str/int/float/other field values): encode_hint and parse_hint by contract, "
                  "neither has a raises clause"),
]


def regf_automat():
    """the Connector's machine is dispatched through its real transition table"""
    from pyvc.automat import AutomatSupport
    reg = regf()
    reg.input_as_boundary = False
    reg.automat = AutomatSupport()
    reg.automat.notransition_raises = True

    def state_of(it, obj):
        return it.force(obj).fields["__state"]

    reg.spec_funcs["state_of"] = state_of
    return reg


def regf_listener():
    """Connector.listener_ready / start / lemma listener_hints: the machine through its real table, Twisted's server endpoint
    and listening port as boundary objects"""
    reg = regf_automat()
    em = reg.ext_models
    em["twisted.internet.endpoints.serverFromString"] = lambda it, args, kwargs: VObj("ServerEndpointB")
    reg.boundary_returns["ServerEndpointB.listen"] = "obj[DeferredB2]"
    port_of = uf("listening_port", sort_of(parse_type("opaque[port]")), IntS)

    def get_host(it, recv, meth, args, kwargs, fr):
        """IListeningPort.getHost(): an address object whose .port is an int (a function of the port object)"""
        it.ctx.event("bcall", "port", meth, list(args), dict(kwargs))
        return VObj("HostB", {"port": VInt(port_of(recv.z))})

    reg.boundary["port.getHost"] = get_host
    reg.spec_funcs["listening_port"] = lambda it, lp: VInt(port_of(it.force(lp).z))
    reg.class_fields["Connector"] = dict(LISTEN_FIELDS)
    reg.func_models["wormhole/ipaddrs.py:find_addresses"] = lambda it, args, kwargs, fr: it.fresh("seq[str]", "addresses")
    return reg


def regf_send_hints():
    """Manager.send_hints on its real body with C11's Manager registry (dict_to_bytes records the message dict)"""
    from . import c11
    reg = c11.regf_mgr()
    sf = reg.spec_funcs
    sf["n_events"] = lambda it, name: VInt(sum(1 for e in it.ctx.trace if e[0] == it.concrete(name)))

    def sent_keys(it, k):
        evs = [e for e in it.ctx.trace if e[0] == "msg"]
        k = it.concrete(k)
        return VInt(len(evs[k][1][0].d) if k < len(evs) and isinstance(evs[k][1][0], VDict) else -1)

    sf["sent_keys"] = sent_keys
    return reg


def regf_inline_parse_hint():
    """the relay round trip runs the real parse_hint (its relay branch), with parse_tcp_v1_hint by contract"""
    reg = regf()
    del reg.contracts["wormhole/_hints.py:parse_hint"]
    del reg.contracts["wormhole/_hints.py:encode_hint"]     # inlined as well: the real relay loop over the concrete 1-tuple
    return reg


def tasks():
    special = {CON + "got_hints": regf_automat, "lemma:roundtrip_relay_single": regf_inline_parse_hint,
               CON + "listener_ready": regf_listener, CON + "start": regf_listener, "lemma:listener_hints": regf_listener,
               "wormhole/_dilation/manager.py:Manager.send_hints": regf_send_hints}
    out = [ContractTask(c, special.get(c.target, regf)) for c in CONTRACTS]
    # a connection-hints message must be acceptable in every state the Manager can be in when the peer's message arrives
    # (the table rows of rx_HINTS: contract in C11's module over the real transition table): a missing row would turn any
    # hints message, whatever its content, into automat.NoTransition out of received_dilation_message
    from .common import shared_tasks
    out += shared_tasks("c20", "c11", ("Manager.rx_HINTS", "Manager.use_hints"))
    # encode side, transit flavour: the hints this side publishes (contracts and lemma live in props/c07.py)
    # (lemma:published_direct_hint_parses_back is proved in C07's run only: see ASSUMPTIONS)
    out += shared_tasks("c20", "c07", ("Common._build_listener", "Common._get_direct_hints", "Common.get_connection_hints"))
    return out


TRUSTED = ["z3/cvc5", "pyvc semantics of the Python subset incl. the JSON sort (bool is a subclass of int; .get/[]/in/iteration "
           "raise AttributeError/KeyError/TypeError exactly as CPython does on the wrong variant; '%d' % x raises TypeError unless x "
           "is a number; str()/f-string of a JSON value never raises)",
           "sorted() model (same members, every element a member of the sorted set; TypeError iff two or more elements and some "
           "priority/key is not a number); collections.defaultdict(list) as a map priority -> list of hint objects",
           "Twisted: TCP4ClientEndpoint / TCP6ClientEndpoint / HostnameEndpoint(reactor, host, port), isIPAddress / isIPv6Address(host) "
           "and Tor.stream_via(host, port) accept a str host and an int port (each call site PROVES its arguments are such); "
           "stream_via may raise ValueError; task.deferLater and endpoint.connect return a new Deferred and call nothing back "
           "synchronously; Deferred.addErrback/addCallback are recorded events",
           "HKDF returns bytes (the relay handshake text is not C20's business)"]
ASSUMPTIONS = ["JSON floats are reals; a priority 1 and a priority 1.0 are distinct dictionary keys in the model (equal keys in "
               "CPython): affects only how hints are grouped, not whether anything raises",
               "Manager.use_hints: Connector.got_hints is recorded as an event there (the argument is proved to hold only parsed "
               "hints); Connector.got_hints itself is verified through the real Automat table with exactly that precondition. "
               "Manager.rx_HINTS (rows of the Manager's machine) is run here through C11's contract on the real table; NoTransition in "
               "WAITING / STOPPED (before dilation starts / after it stopped) is stated there, not excluded",
               "Connector.got_hints in state 'stopped' raises NoTransition (Automat); that the Manager does not feed a stopped "
               "Connector is not decided here",
               "the relay hints this side configures (transit_relay / _transit_relays, from parse_hint_argv) are taken as parsed "
               "hint objects: an unparseable --transit-helper string yields RelayV1Hint((None,)), which is own configuration, not "
               "peer input",
               "Connector._connect requires the 16-hex-digit side this Connector was constructed with",
               "fixed defect (d1f4484): Connector._schedule_connection used to schedule _connect(None, ..) when endpoint_from_hint_obj "
               "returned None (a relay-v1 hint whose sub-hint is tor-tcp-v1 on a client without Tor, or an address Tor refuses): "
               "AttributeError inside the reactor (replay/native/c20_connect_scheduled_without_endpoint.py); the obligations "
               "one-attempt-scheduled-iff-there-is-an-endpoint / no-connect-scheduled-without-an-endpoint guard the repair",
               "Common.get_connection_hints / _get_direct_hints / _build_listener (transit flavour) are under contract in props/c07.py "
               "(shared tasks): every direct dict published is wellformed_tcp and hint_matches its hint object, and "
               "lemma:published_direct_hint_parses_back (a C07 task: shared into this module's run it crashed the checker inside "
               "valid_any_hint - not investigated - so it is discharged under C07 only) gives parse_hint(dict) == hint object from "
               "exactly these two facts; the relay dicts of get_connection_hints (sub-hints reproduced unchanged) are NOT registered - "
               "the quantified clause and its loop invariant stayed undecided within the budget",
               "Dilation encode side is under contract: encode_hint (relation `encodes`), "
               "Connector._publish_hints / listener_ready / start, _start_listener + its callback (lemma listener_hints), "
               "Manager.send_hints. Manager.send_hints is a recorded boundary call in the Connector's tasks and verified on its own "
               "body separately (dict_to_bytes / JSON encoding trusted); Connector._get_listener_addresses is inlined with "
               "ipaddrs.find_addresses as an arbitrary list of str; IListeningPort.getHost().port is an int (Twisted)",
               "lemma listener_hints requires the Connector not to be stopped when ep.listen()'s Deferred fires (listener_ready has no "
               "row in 'stopped': NoTransition inside the callback, logged by the errback)",
               "round trip: proved for every Direct/Tor hint object that satisfies parse_hint's clause only-valid-hints (lemma "
               "dilation_hint_roundtrip, hypothesis taken by name) and for relay hints with one Direct sub-hint (what this side "
               "builds). NOT claimed: parse_hint(encode_hint(r)) for a RelayV1Hint with an arbitrary number of sub-hints - the "
               "obligation was written and stayed undecided (z3/cvc5 do not derive the `every element passes the filter` premise of "
               "the filter() model under the quantifiers), so it is not registered. Known deviation it would have to state: "
               "encode_hint writes every relay sub-hint as direct-tcp-v1, so a TorTCPV1Hint sub-hint comes back as a "
               "DirectTCPV1Hint (same hostname/port/priority); and RelayV1Hint.hints is a tuple on the way out, a list on the way "
               "back (the model's seq type does not distinguish them: `==` on the Python objects is False)"]
