"""C14 - no internal failure on any legal use against a conformant server.

Decided by the composed-machine engine over the mailbox cluster (props/mailbox.py): for every
entry point, from every state satisfying the inferred inductive invariant, every Automat input
that is called has a transition (nodom:*), every assert holds (assert@*), no exception other
than the documented API errors escapes (exc:*), and the verdict handed to closed() is 'happy'
or a documented WormholeError (post:C14:*)."""
from pyvc.mrun import ClusterTask

PROP = "C14"


def select(name):
    return name.startswith(("nodom:", "assert@", "exc:", "post:C14:")) or ".call[" in name


def tasks():
    # that a second PAKE message (a third participant, a replay) never reaches Order.S1_yes_pake rests on the Mailbox's
    # per-phase dedup: its function-level contract (C02's module) is part of this property's argument and is run here too
    from .common import shared_tasks
    return [ClusterTask("mailbox-cluster", "props.mailbox", "engine", select, "mailbox_history:search")] + \
        shared_tasks("c14", "c02", ("Mailbox.N_release_and_accept", "Mailbox.rx_message"))


TRUSTED = ["z3", "pyvc semantics of the Python subset", "Automat dispatch semantics as encoded in pyvc/automat.py "
           "(state set first, outputs run synchronously, NoTransition when no row)",
           "environment contract E1-E5 of DESIGN 3.3 (conformant server, legal API, Twisted ClientService behaviour)",
           "crypto/serialisation library models (SecretBox, SPAKE2, HKDF, json) as forks over success/failure"]
ASSUMPTIONS = ["application callbacks (W.*) do not re-enter the wormhole synchronously (Deferred API; delegated mode is not covered)",
               "the Dilator is a boundary object here (dilate() is not in the API alphabet of this check)",
               "status reporting (_evolve_wormhole_status) and timing calls are dropped syntax"]
