"""C18 - application events arrive once each, in causal order; after closed everything errors
(function-level part: the observers behind every get_*(), the eventual queue, and the
_DeferredWormhole glue; the order in which Boss calls W.got_* is the machine-level engine's)."""
from pyvc.contract import Contract
from pyvc.runner import ContractTask
from pyvc.values import *   # noqa
from .common import make_registry, install_trace_funcs, register_classes
from . import whmodels
from .whmodels import RES, DEF, QCALL, CALLT

from .mailbox_ready import CLUSTER_READY

PROP = "C18"
OBS = "wormhole/observer.py:"
EVQ = "wormhole/eventual.py:"
WH = "wormhole/wormhole.py:_DeferredWormhole."

ONESHOT = {"_eq": "obj[EQ]", "_result": RES, "_observers": f"seq[{DEF}]"}
SEQOBS = {"_eq": "obj[EQ]", "_error": f"opt[{RES}]", "_results": f"seq[{RES}]", "_observers": f"seq[{DEF}]"}
OS_INV = "unfired(self._result) or len(self._observers) == 0"
SQ_INV = ["len(self._results) == 0 or len(self._observers) == 0",
          "self._error is None or (is_failure(self._error) and len(self._observers) == 0)"]
OS_MOD = ["_result", "_observers", "_eq.n", "_eq.at"]
C18_REPLAY = {"driver": "c18_replay:run"}


def same_prefix(q, oq):
    """every call that was queued is still queued, at the same position"""
    return f"forall(lambda i: imp(i < {oq}.n, {q}.at[i] == {oq}.at[i]))"


def appended(q, oq, kind, obs, arg):
    """queue `q` is `oq` followed by one `kind` call per element of `obs` (in order), each with argument `arg`"""
    return (f"{q}.n == {oq}.n + len({obs}) and {same_prefix(q, oq)} and "
            f"forall(lambda j: imp(0 <= j and j < len({obs}), {q}.at[{oq}.n + j] == qcall('{kind}', {obs}[j], {arg})))")


def one_more(q, oq, call):
    return f"{q}.n == {oq}.n + 1 and {same_prefix(q, oq)} and {q}.at[{oq}.n] == {call}"


def unchanged(q, oq):
    return f"same_queue({q}, {oq})"


CALLS, OLD_CALLS = "self._eq", "old(self._eq)"
SAME_CALLS = unchanged(CALLS, OLD_CALLS)
ALL_WAITING = lambda kind, arg: appended(CALLS, OLD_CALLS, kind, "old(self._observers)", arg)   # noqa: E731


def loop_sched(kind, seq, arg):
    return {"modifies": [("self", "_eq", "n"), ("self", "_eq", "at")],
            "invariant": ["self._eq.n == at_entry(self._eq.n) + _i",
                          "forall(lambda i: imp(i < at_entry(self._eq.n), self._eq.at[i] == at_entry(self._eq.at)[i]))",
                          f"forall(lambda j: imp(0 <= j and j < _i, self._eq.at[at_entry(self._eq.n) + j] == "
                          f"qcall('{kind}', {seq}[j], {arg})))"]}


OBSERVER_CONTRACTS = [
    Contract(OBS + "OneShotObserver._maybe_call_observers", props=[PROP], params={}, self_fields=ONESHOT, replay=C18_REPLAY,
             ensures=[("unfired-nothing-happens",
                       "imp(unfired(self._result), self._observers == old(self._observers) and "
                       f"{SAME_CALLS})"),
                      ("fired-every-waiter-scheduled-exactly-once-in-order",
                       f"imp(not unfired(self._result), len(self._observers) == 0 and {ALL_WAITING('callback', 'self._result')})")],
             modifies=["_observers", "_eq.n", "_eq.at"],
             loops={0: dict(loop_sched("callback", "_iter", "self._result"), header="for d in observers")}),
    Contract(OBS + "OneShotObserver.when_fired", props=[PROP], params={}, self_fields=ONESHOT, replay=C18_REPLAY, returns=DEF,
             requires=[OS_INV],
             ensures=[("unfired-waits",
                       "imp(unfired(self._result), self._observers == old(self._observers) + [result] and "
                       f"{SAME_CALLS})"),
                      ("fired-scheduled-at-once-with-the-latched-result",
                       "imp(not unfired(self._result), len(self._observers) == 0 and "
                       + one_more(CALLS, OLD_CALLS, "qcall('callback', result, self._result)") + ")"),
                      ("invariant", OS_INV)],
             modifies=["_observers", "_eq.n", "_eq.at"]),
    Contract(OBS + "OneShotObserver.fire", props=[PROP], params={"result": RES}, self_fields=ONESHOT, replay=C18_REPLAY,
             requires=[OS_INV, "not unfired(result)"],
             raises_exactly={"AssertionError": "not unfired(self._result)"},
             ensures=[("latched", "self._result == old(result)"),
                      ("every-waiter-scheduled-exactly-once", f"len(self._observers) == 0 and {ALL_WAITING('callback', 'old(result)')}")],
             ensures_raise={"AssertionError": [("second-fire-changes-nothing",
                                                f"self._result == old(self._result) and {SAME_CALLS} and "
                                                "self._observers == old(self._observers)")]},
             modifies=OS_MOD),
    Contract(OBS + "OneShotObserver.error", props=[PROP], params={"f": RES}, self_fields=ONESHOT, replay=C18_REPLAY,
             requires=[OS_INV],
             raises_exactly={"AssertionError": "not is_failure(f)"},
             ensures=[("failure-latched-over-any-result", "self._result == f"),
                      ("every-waiter-gets-the-failure", f"len(self._observers) == 0 and {ALL_WAITING('callback', 'f')}")],
             ensures_raise={"AssertionError": [("nothing-changed", f"self._result == old(self._result) and {SAME_CALLS}")]},
             modifies=OS_MOD),
    Contract(OBS + "OneShotObserver.fire_if_not_fired", props=[PROP], params={"result": RES}, self_fields=ONESHOT, replay=C18_REPLAY,
             requires=[OS_INV, "not unfired(result)"],
             ensures=[("latched-by-the-first-event-only",
                       "self._result == ite(unfired(old(self._result)), old(result), old(self._result))"),
                      ("every-waiter-woken-exactly-once-with-the-latched-value",
                       f"len(self._observers) == 0 and {ALL_WAITING('callback', 'self._result')}"),
                      ("already-fired-is-a-no-op", f"imp(not unfired(old(self._result)), {SAME_CALLS})"),
                      ("invariant", OS_INV)],
             modifies=OS_MOD),
    Contract(OBS + "SequenceObserver.when_next_event", props=[PROP], params={}, self_fields=SEQOBS, replay=C18_REPLAY, returns=DEF,
             requires=SQ_INV,
             ensures=[("after-an-error-every-new-waiter-errbacks",
                       "imp(old(self._error) is not None, "
                       + one_more(CALLS, OLD_CALLS, "qcall('errback', result, old(self._error))") +
                       " and self._results == old(self._results) and self._observers == old(self._observers))"),
                      ("queued-result-handed-out-first-in-first-out",
                       "imp(old(self._error) is None and len(old(self._results)) > 0, "
                       + one_more(CALLS, OLD_CALLS, "qcall('callback', result, old(self._results)[0])") +
                       " and self._results == old(self._results)[1:] and self._observers == old(self._observers))"),
                      ("otherwise-waits",
                       "imp(old(self._error) is None and len(old(self._results)) == 0, "
                       f"self._observers == old(self._observers) + [result] and {SAME_CALLS} and len(self._results) == 0)"),
                      ("invariant-a", SQ_INV[0]), ("invariant-b", SQ_INV[1])],
             modifies=["_results", "_observers", "_eq.n", "_eq.at"]),
    Contract(OBS + "SequenceObserver.fire", props=[PROP], params={"result": RES}, self_fields=SEQOBS, replay=C18_REPLAY,
             requires=SQ_INV,
             ensures=[("failure-latches-and-errbacks-every-waiter",
                       "imp(is_failure(old(result)), self._error == old(result) and len(self._observers) == 0 and "
                       f"self._results == old(self._results) and {ALL_WAITING('errback', 'old(result)')})"),
                      ("result-goes-to-the-first-waiter",
                       "imp(not is_failure(old(result)) and len(old(self._observers)) > 0, "
                       + one_more(CALLS, OLD_CALLS, "qcall('callback', old(self._observers)[0], old(result))") +
                       " and self._observers == old(self._observers)[1:] and len(self._results) == 0)"),
                      ("or-is-queued-behind-earlier-results",
                       "imp(not is_failure(old(result)) and len(old(self._observers)) == 0, "
                       f"self._results == old(self._results) + [old(result)] and {SAME_CALLS} and len(self._observers) == 0)"),
                      ("error-only-set-by-a-failure", "imp(not is_failure(old(result)), self._error == old(self._error))"),
                      ("invariant-a", SQ_INV[0]), ("invariant-b", SQ_INV[1])],
             modifies=["_error", "_results", "_observers", "_eq.n", "_eq.at"],
             loops={0: dict(loop_sched("errback", "_iter", "self._error"), header="for d in self._observers")}),
]


# ------------------------------------------------------------------ eventual queue
def _eq_pre(it, fr):
    """*args / **kwargs of eventually(): opaque packs; _turn: remember the queue for the stored-call model"""
    if "f" in fr.locals:
        fr.locals["args"] = it.fresh("opaque[Args]", "args")
        fr.locals["kwargs"] = it.fresh("opaque[KwArgs]", "kwargs")
    it.reg.cur_eq = fr.selfobj


EVQ_FIELDS = {"_calls": f"seq[{CALLT}]", "_timer": "opt[opaque[DelayedCall]]", "_clock": "obj[IReactorTime]"}

EVENTUAL_CONTRACTS = [
    Contract(EVQ + "EventualQueue.eventually", props=[PROP], params={"f": "callable"}, self_fields=EVQ_FIELDS,
             pre_hook=_eq_pre,
             ensures=[("queued-last", "len(self._calls) == len(old(self._calls)) + 1 and prefix(old(self._calls), self._calls) "
                                      "and self._calls[len(old(self._calls))] == (f, args, kwargs)"),
                      ("timer-armed-when-idle",
                       "imp(old(self._timer) is None, bcall_targets() == ['IReactorTime.callLater'] and "
                       "bcall_arg('callLater', 0, 0) == 0 and bcall_arg_is_method('callLater', 0, 1, '_turn') and "
                       "self._timer is not None)"),
                      ("no-second-timer", "imp(old(self._timer) is not None, len(bcall_names()) == 0 and "
                                          "self._timer == old(self._timer))")],
             modifies=["_calls", "_timer"]),
    Contract(EVQ + "EventualQueue._turn", props=[PROP], params={},
             self_fields=dict(EVQ_FIELDS, _flush_d=f"opt[{DEF}]", _ghost_added=f"seq[{CALLT}]"),
             pre_hook=_eq_pre,
             requires=["len(self._ghost_added) == 0", "self._timer is not None"],
             internal_ensures=[
                 ("each-queued-call-ran-exactly-once-in-order",
                  "len(ran) == len(old(self._calls)) and "
                  "forall(lambda j: imp(0 <= j and j < len(ran), ran[j] == old(self._calls)[j]))"),
                 ("calls-queued-during-the-turn-wait-for-a-later-turn", "self._calls == self._ghost_added"),
                 ("next-turn-requested-iff-something-is-queued",
                  "imp(len(self._calls) > 0, bcall_targets() == ['IReactorTime.callLater'] and "
                  "bcall_arg_is_method('callLater', 0, 1, '_turn') and self._timer is not None)"),
                 ("idle-otherwise",
                  "imp(len(self._calls) == 0, bcalls('callLater') == 0 and self._timer is None and self._flush_d is None "
                  "and bcalls('callback') == ite(old(self._flush_d) is None, 0, 1))")],
             modifies=["_calls", "_timer", "_flush_d", "_ghost_added"],
             loops={0: {"header": "for (f, args, kwargs) in to_call", "retype": {"self._calls": f"seq[{CALLT}]"},
                        "modifies": [("self", "_calls"), ("self", "_ghost_added")],
                        "ghost_init": {"ran": f'empty_seq("{CALLT}")'},
                        "ghost_update": {"ran": "ran + [ran_event()]"},
                        "body_ensures": ["ran_event() == (f, args, kwargs)"],
                        "invariant": ["_iter == at_entry(to_call)", "len(ran) == _i",
                                      "forall(lambda j: imp(0 <= j and j < _i, ran[j] == _iter[j]))",
                                      "self._calls == self._ghost_added"]}},
             note="_ghost_added is a ghost field: what stored calls queue while they run (see the stored-call model); "
                  "`ran` is the ghost sequence of stored calls executed by this turn"),
]


# ------------------------------------------------------------------ _DeferredWormhole
ONES = ["_welcome_observer", "_code_observer", "_key_observer", "_verifier_observer", "_version_observer"]
WH_FIELDS = dict({o: "obj[OneShotObserver]" for o in ONES + ["_closed_observer"]},
                 _received_observer="obj[SequenceObserver]", _closed="bool", _key=f"opt[{RES}]", _boss="obj[IBoss]")
Q = "self._closed_observer._eq"          # one eventual queue, shared by all seven observers (see _share_eq)
OLDQ = "old(self._closed_observer._eq)"
SHARED_Q = ["_closed_observer._eq.n", "_closed_observer._eq.at"]
RCV_MOD = ["_received_observer._results", "_received_observer._observers"] + SHARED_Q
WH_INV = [f"unfired(self.{o}._result) or len(self.{o}._observers) == 0" for o in ONES + ["_closed_observer"]] + \
    [s.replace("self.", "self._received_observer.") for s in SQ_INV]


def _share_eq(it, fr):
    w = fr.selfobj if fr.selfobj is not None else fr.locals.get("w")
    eq = w.fields["_closed_observer"].fields["_eq"]
    for o in ONES + ["_received_observer"]:
        w.fields[o].fields["_eq"] = eq


def got_contract(meth, param, obs, extra_fields=(), extra_ensures=()):
    o = f"self.{obs}"
    return Contract(WH + meth, props=[PROP], params={param: RES}, self_fields=WH_FIELDS, pre_hook=_share_eq, replay=C18_REPLAY,
                    requires=WH_INV + [f"not unfired({param})"],
                    ensures=[("latched-by-the-first-event-only",
                              f"{o}._result == ite(unfired(old({o}._result)), {param}, old({o}._result))"),
                             ("every-waiter-woken-exactly-once-with-the-latched-value",
                              f"len({o}._observers) == 0 and " + appended(Q, OLDQ, "callback", f"old({o}._observers)", f"{o}._result")),
                             ("a-repeated-event-changes-nothing", f"imp(not unfired(old({o}._result)), {unchanged(Q, OLDQ)})"),
                             ("boss-untouched", "len(bcall_names()) == 0")] + list(extra_ensures) +
                    [(f"invariant-{i}", s) for i, s in enumerate(WH_INV)],
                    modifies=[f"{obs}._result", f"{obs}._observers"] + SHARED_Q + list(extra_fields))


def get_contract(meth, obs):
    o = f"self.{obs}"
    return Contract(WH + meth, props=[PROP], params={}, self_fields=WH_FIELDS, pre_hook=_share_eq, replay=C18_REPLAY, returns=DEF,
                    requires=WH_INV,
                    ensures=[("before-the-event-the-deferred-waits",
                              f"imp(unfired({o}._result), {o}._observers == old({o}._observers) + [result] and {unchanged(Q, OLDQ)})"),
                             ("after-it-fires-at-once-with-the-latched-value-or-failure",
                              f"imp(not unfired({o}._result), "
                              + one_more(Q, OLDQ, f"qcall('callback', result, {o}._result)") + ")"),
                             ("latch-untouched", f"{o}._result == old({o}._result)")] +
                    [(f"invariant-{i}", s) for i, s in enumerate(WH_INV)],
                    modifies=[f"{obs}._observers"] + SHARED_Q)


def closed_ensures():
    out = [("closed-flag", "self._closed")]
    fail = "ite(is_exception(old(result)), failure_of(old(result)), failure_of(wormhole_closed(old(result))))"
    for o in ONES:
        out.append((f"{o}-in-error-state",
                    f"is_failure(self.{o}._result) and self.{o}._result == {fail} and len(self.{o}._observers) == 0"))
    out.append(("message-observer-in-error-state",
                "self._received_observer._error is not None and is_failure(self._received_observer._error) and "
                f"self._received_observer._error == {fail} and len(self._received_observer._observers) == 0"))
    out.append(("close-errors-on-an-exception",
                "imp(is_exception(old(result)), self._closed_observer._result == failure_of(old(result)))"))
    out.append(("close-fires-with-the-first-clean-result",
                "imp(not is_exception(old(result)), self._closed_observer._result == "
                "ite(unfired(old(self._closed_observer._result)), old(result), old(self._closed_observer._result)))"))
    out.append(("close-waiters-drained", "len(self._closed_observer._observers) == 0"))
    order = ["_closed_observer"] + ONES + ["_received_observer"]
    total = " + ".join(f"len(old(self.{o}._observers))" for o in order)
    out.append(("one-call-per-outstanding-deferred", f"{Q}.n == {OLDQ}.n + {total} and {same_prefix(Q, OLDQ)}"))
    off = f"{OLDQ}.n"
    for o in order:
        kind = "errback" if o == "_received_observer" else "callback"
        arg = f"self.{o}._error" if o == "_received_observer" else f"self.{o}._result"
        out.append((f"every-deferred-waiting-on-{o}-is-woken",
                    f"forall(lambda j: imp(0 <= j and j < len(old(self.{o}._observers)), "
                    f"{Q}.at[{off} + j] == qcall('{kind}', old(self.{o}._observers)[j], {arg})))"))
        off += f" + len(old(self.{o}._observers))"
    return out + [(f"invariant-{i}", s) for i, s in enumerate(WH_INV)]


WORMHOLE_CONTRACTS = [
    got_contract("got_welcome", "welcome", "_welcome_observer"),
    got_contract("got_code", "code", "_code_observer"),
    got_contract("got_key", "key", "_key_observer", extra_fields=["_key"],
                 extra_ensures=[("key-kept-for-derive_key", "self._key == key")]),
    got_contract("got_verifier", "verifier", "_verifier_observer"),
    got_contract("got_versions", "versions", "_version_observer"),
    get_contract("get_welcome", "_welcome_observer"),
    get_contract("get_code", "_code_observer"),
    get_contract("get_unverified_key", "_key_observer"),
    get_contract("get_verifier", "_verifier_observer"),
    get_contract("get_versions", "_version_observer"),
    Contract(WH + "received", props=[PROP], params={"plaintext": RES}, self_fields=WH_FIELDS, pre_hook=_share_eq, replay=C18_REPLAY,
             requires=WH_INV + ["not is_failure(plaintext)"],
             ensures=[("oldest-waiting-get_message-gets-it",
                       "imp(len(old(self._received_observer._observers)) > 0, "
                       + one_more(Q, OLDQ, "qcall('callback', old(self._received_observer._observers)[0], plaintext)") +
                       " and self._received_observer._observers == old(self._received_observer._observers)[1:])"),
                      ("otherwise-queued-in-arrival-order",
                       "imp(len(old(self._received_observer._observers)) == 0, self._received_observer._results == "
                       f"old(self._received_observer._results) + [plaintext] and {unchanged(Q, OLDQ)})"),
                      ("error-state-kept", "self._received_observer._error == old(self._received_observer._error)")] +
             [(f"invariant-{i}", s) for i, s in enumerate(WH_INV)],
             modifies=RCV_MOD),
    Contract(WH + "get_message", props=[PROP], params={}, self_fields=WH_FIELDS, pre_hook=_share_eq, replay=C18_REPLAY, returns=DEF,
             requires=WH_INV,
             ensures=[("after-closed-it-errbacks",
                       "imp(old(self._received_observer._error) is not None, "
                       + one_more(Q, OLDQ, "qcall('errback', result, old(self._received_observer._error))") + ")"),
                      ("queued-messages-in-arrival-order",
                       "imp(old(self._received_observer._error) is None and len(old(self._received_observer._results)) > 0, "
                       + one_more(Q, OLDQ, "qcall('callback', result, old(self._received_observer._results)[0])") +
                       " and self._received_observer._results == old(self._received_observer._results)[1:])"),
                      ("otherwise-waits",
                       "imp(old(self._received_observer._error) is None and len(old(self._received_observer._results)) == 0, "
                       "self._received_observer._observers == old(self._received_observer._observers) + [result] and "
                       f"{unchanged(Q, OLDQ)})")] + [(f"invariant-{i}", s) for i, s in enumerate(WH_INV)],
             modifies=RCV_MOD),
    Contract(WH + "closed", props=[PROP], params={"result": RES}, self_fields=WH_FIELDS, pre_hook=_share_eq, replay=C18_REPLAY,
             requires=WH_INV + ["not unfired(result)"],
             ensures=closed_ensures() + [("boss-untouched", "len(bcall_names()) == 0")],
             modifies=[f"{o}.{f}" for o in ONES + ["_closed_observer"] for f in ("_result", "_observers")] +
             RCV_MOD + ["_received_observer._error", "_closed"], max_paths=400,
             note="after closed() every observer is latched on a Failure, so (by the observer contracts) every outstanding "
                  "Deferred has exactly one call queued and every later get_*() fires with that Failure"),
    Contract(WH + "close", props=[PROP], params={}, self_fields=WH_FIELDS, pre_hook=_share_eq, replay=C18_REPLAY, returns=DEF,
             requires=WH_INV,
             ensures=[("boss-close-while-not-closed", "imp(not old(self._closed), bcall_targets() == ['IBoss.close'])"),
                      ("no-boss-close-after-closed", "imp(old(self._closed), len(bcall_targets()) == 0)"),
                      ("returns-the-close-deferred",
                       "imp(unfired(self._closed_observer._result), self._closed_observer._observers == "
                       f"old(self._closed_observer._observers) + [result] and {unchanged(Q, OLDQ)})"),
                      ("already-finished-fires-at-once",
                       "imp(not unfired(self._closed_observer._result), "
                       + one_more(Q, OLDQ, "qcall('callback', result, self._closed_observer._result)") + ")")],
             modifies=["_closed_observer._observers"] + SHARED_Q,
             note="close() before closed() calls Boss.close() every time it is used; after closed() it only hands out the "
                  "latched result"),
]


def after_closed_lemma(getter, kind):
    name = f"{getter}_after_closed_fails"
    q = "w._closed_observer._eq"
    n_before = " + ".join(f"len(old(w.{o}._observers))" for o in ["_closed_observer"] + ONES + ["_received_observer"])
    return Contract("lemma:" + name, props=[PROP], source_module="wormhole/wormhole.py",
                    params={"w": "obj[_DeferredWormhole]", "r": RES}, pre_hook=_share_eq,
                    source_text=f"""
                    def {name}(w, r):
                        w.closed(r)
                        return w.{getter}()
                    """,
                    requires=[s.replace("self.", "w.") for s in WH_INV] + ["not unfired(r)"],
                    ensures=[("fails-at-once-on-its-own-deferred",
                              f"{q}.n == old({q}.n) + {n_before} + 1 and {q}.at[{q}.n - 1].kind == '{kind}' and "
                              f"{q}.at[{q}.n - 1].d == result and is_failure({q}.at[{q}.n - 1].arg)")],
                    note="over the contracts of closed() and of the getter: a get_*() issued after closed fails, it does not hang")


WORMHOLE_CONTRACTS += [after_closed_lemma(g, "errback" if g == "get_message" else "callback")
                       for g in ("get_welcome", "get_code", "get_unverified_key", "get_verifier", "get_versions", "get_message")]

CONTRACTS = OBSERVER_CONTRACTS + EVENTUAL_CONTRACTS + WORMHOLE_CONTRACTS


def regf():
    reg = make_registry()
    install_trace_funcs(reg)
    register_classes(reg, ["wormhole/errors.py", "wormhole/observer.py", "wormhole/wormhole.py"])
    whmodels.install_twisted(reg)
    whmodels.install_eventual(reg)
    for c in CONTRACTS:
        reg.contracts[c.target] = c
    reg.class_fields["OneShotObserver"] = dict(ONESHOT)
    reg.class_fields["SequenceObserver"] = dict(SEQOBS)
    reg.class_fields["_DeferredWormhole"] = dict(WH_FIELDS)
    reg.input_as_boundary = True
    return reg


def _f_tasks():
    return [ContractTask(c, regf) for c in CONTRACTS]


TRUSTED = ["z3/cvc5", "pyvc semantics of the Python subset (lists as sequences, object fields, aliasing of the one shared queue)"] + \
    whmodels.TRUSTED_TWISTED
ASSUMPTIONS = [
    "reactor.callLater(0, f) eventually runs f; a Deferred given one callback()/errback() call fires once (twisted)",
    "the order in which Boss calls W.got_code / got_key / got_verifier / got_versions / received / closed is a property of "
    "the Automat tables (machine-level engine); here each W method is shown to latch at most once and to wake every waiter once",
    "class invariants assumed at entry and re-established: OneShotObserver: fired => no waiting Deferred; SequenceObserver: "
    "not both queued results and waiting Deferreds, error => Failure and no waiter",
    "EventualQueue._turn is entered with its timer set (it is only ever called by that timer)",
    "values passed to fire()/got_*() are not the private NoResult sentinel",
]



def select_m(name):
    return name.startswith("post:C18:")


def _order_tasks():
    # "the peer's versions precede every application message" also after a reconnect: the re-send loop keeps insertion order
    from pyvc.runner import FuncTask
    from . import c09
    return [FuncTask("resend-order", c09.resend_order_task, True, "data")]


def tasks():
    """function-level tasks plus the machine-level obligations of this property (mailbox-cluster engine)"""
    import os
    from pyvc.mrun import ClusterTask
    if not CLUSTER_READY or os.environ.get("VERIF_NO_CLUSTER"):
        return _f_tasks() + _order_tasks()
    return _f_tasks() + _order_tasks() + [ClusterTask("mailbox-cluster", "props.mailbox", "engine", select_m, "mailbox_history:search")]
