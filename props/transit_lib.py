"""Shared set-up for the two transit properties (C06, C07): library models (assumed contracts of
nacl SecretBox, HKDF, Twisted Deferred / transport / TimeoutMixin), spec functions and trace
functions.  Every assumption made here is listed in TRUSTED_LIB."""
import z3

from pyvc.contract import Contract
from pyvc.values import *   # noqa
from pyvc import source, models
from pyvc.models import uf
from pyvc.ctx import VC
from .common import make_registry, install_trace_funcs, register_classes

T_PY = "wormhole/transit.py"

# symbolic pre-state of the collaborators (only what the code under contract reads)
COMMON_FIELDS = {"is_sender": "bool", "_transit_key": "bytes", "_winner": "opt[obj[Connection]]"}
DEFERRED = "opaque[Deferred]"

TRUSTED_LIB = [
    "z3/cvc5", "pyvc semantics of the Python subset (slicing normalisation, bytes as code-point strings)",
    "nacl SecretBox (assumed contract, ground instances): SecretBox(key) needs a 32-byte key; encrypt(p, nonce) needs a 24-byte "
    "nonce and returns nonce ++ body(key, nonce, p) with len(body) == len(p) + 16, and that ciphertext is valid and opens to p; "
    "decrypt(c) raises CryptoError exactly when c is not valid under the key, else returns open(key, c) with "
    "c == c[:24] ++ body(key, c[:24], open(key, c)) (deterministic AEAD: a valid ciphertext is the encryption of its plaintext "
    "under its own nonce)",
    "HKDF (wormhole.util.HKDF -> cryptography): a function of (key, length, info) only, output has the requested length; "
    "injective in (key, info) for equal lengths (PRF idealisation, used only by the lemmas that say so)",
    "binascii: len(hexlify(b)) == 2 len(b); unhexlify(hexlify(b)) == b; int(hexlify(b), 16) / unhexlify('%0Nx' % n) ARE the "
    "big-endian value / encoding of the definition (library semantics, assumed).  That the two are mutually inverse on "
    "0 <= n < 256**(N/2) is no longer assumed for the widths used (N/2 = 4, 24): C06's task be-definitional derives it from "
    "the definition (digits by divmod, bytes by chr/ord); for other lengths (a frame shorter than 24 bytes fed to "
    "int(hexlify(encrypted[:24]), 16)) enc(value(s), len(s)) == s remains an assumed instance of the same schema",
    "Twisted: defer.Deferred() returns a new object; callback/errback/cancel/addBoth/addCallbacks on it, transport.write / "
    "loseConnection, TimeoutMixin.setTimeout, reactor.callLater are boundary events recorded in call order and do not call "
    "back into the object under contract synchronously",
]


# ------------------------------------------------------------------ library models
def _key_of(it, box):
    box = it.force(box)
    if not isinstance(box, VObj) or "key" not in box.fields:
        raise OutOfSubset("SecretBox without a key field")
    return it.force(box.fields["key"])


def F_body():
    return uf("sbox_body", StringS, StringS, StringS, StringS)      # (key, nonce, plaintext) -> ciphertext body


def F_valid():
    return uf("sbox_valid", StringS, StringS, BoolS)                 # (key, nonce ++ body)


def F_open():
    return uf("sbox_open", StringS, StringS, StringS)                # (key, nonce ++ body) -> plaintext


def sbox_encrypt_facts(it, kz, nz, pz):
    """ground instance of the SecretBox correctness axiom for one (key, nonce, plaintext)"""
    body = F_body()(kz, nz, pz)
    c = z3.Concat(nz, body)
    it.ctx.assume(z3.Length(body) == z3.Length(pz) + 16)
    it.ctx.assume(z3.Implies(z3.Length(nz) == 24, z3.And(F_valid()(kz, c), F_open()(kz, c) == pz)))
    return c


def sbox_new(it, args, kw):
    key = it.force(args[0])
    if not (isinstance(key, VStr) and key.kind == "bytes"):
        it.raise_("TypeError", VStr("SecretBox must be created from 32 bytes"))
    it.ctx.prove(z3.Length(key.z) == 32, "SecretBox.key-is-32-bytes",
                 {"kind": "call-requires", "src": "len(key) == SecretBox.KEY_SIZE at every SecretBox(key)"})
    return VObj("SecretBox", {"key": key})


def sbox_encrypt(it, recv, meth, args, kwargs, fr):
    p = it.force(args[0])
    n = it.force(args[1] if len(args) > 1 else kwargs["nonce"])
    k = _key_of(it, recv)
    it.ctx.prove(z3.Length(n.z) == 24, "SecretBox.encrypt.nonce-is-24-bytes",
                 {"kind": "call-requires", "src": "len(nonce) == SecretBox.NONCE_SIZE at every box.encrypt()"})
    c = VStr(sbox_encrypt_facts(it, k.z, n.z, p.z), "bytes")
    it.ctx.event("box.encrypt", recv, p, n, c)
    return c


def sbox_decrypt(it, recv, meth, args, kwargs, fr):
    c = it.force(args[0])
    k = _key_of(it, recv)
    ok = F_valid()(k.z, c.z)
    if it.ctx.choose([ok, z3.Not(ok)], "box.decrypt") == 1:
        it.ctx.event("box.decrypt.invalid", recv, c)
        it.raise_("CryptoError", VStr("Decryption failed. Ciphertext failed verification"))
    p = F_open()(k.z, c.z)
    nz = z3.SubString(c.z, 0, 24)
    it.ctx.assume(z3.Length(c.z) >= 40)
    it.ctx.assume(z3.Length(p) == z3.Length(c.z) - 40)
    it.ctx.assume(c.z == z3.Concat(nz, F_body()(k.z, nz, p)))
    r = VStr(p, "bytes")
    it.ctx.event("box.decrypt", recv, c, r)
    return r


def hkdf_term(it, kz, lz, iz):
    f = uf("hkdf", StringS, IntS, StringS, StringS)
    r = f(kz, lz, iz)
    it.ctx.assume(z3.Implies(lz >= 0, z3.Length(r) == lz))
    # PRF idealisation: the output determines (key, info)
    it.ctx.assume(uf("hkdf_key", StringS, StringS)(r) == kz)
    it.ctx.assume(uf("hkdf_info", StringS, StringS)(r) == iz)
    return r


def hexl_term(it, bz):
    r = uf("hexlify", StringS, StringS)(bz)
    it.ctx.assume(z3.Length(r) == 2 * z3.Length(bz))
    it.ctx.assume(uf("unhexlify", StringS, StringS)(r) == bz)
    return r


def be_enc_guarded(it, z, n):
    """n-byte big-endian encoding; the round-trip facts only where the value fits"""
    f = uf("be_enc", IntS, IntS, StringS)
    g = uf("be_value", StringS, IntS)
    r = f(z, z3.IntVal(n))
    it.ctx.assume(z3.Implies(z3.And(z >= 0, z < 256 ** n), z3.And(z3.Length(r) == n, g(r) == z)))
    return r


def deferred_new(it, args, kw):
    d = it.fresh(DEFERRED, "deferred")
    it.ctx.event("new-deferred", d, list(args))
    return d


def deferred_call(it, recv, meth, args, kwargs, fr):
    """a method of a Deferred: recorded with the receiver as argument 0"""
    it.ctx.event("bcall", "Deferred", meth, [recv] + list(args), dict(kwargs))
    return NONE


def exc_model(name):
    def f(it, args, kw):
        return VObj(name, {"args": VTuple(list(args))})
    return f


# ------------------------------------------------------------------ trusted (unverified) contracts of library wrappers
LIB_CONTRACTS = [
    Contract("wormhole/util.py:HKDF", params={"skm": "bytes", "outlen": "int", "salt": "none", "CTXinfo": "bytes"},
             returns="bytes", ensures=[("function-of-key-length-info", "result == hkdf(skm, outlen, CTXinfo)"),
                                       ("length", "len(result) == outlen")],
             note="assumed: cryptography's HKDF-SHA256 is a deterministic function with the requested output length"),
]


def make_transit_registry(contracts, exclude=()):
    reg = make_registry()
    install_trace_funcs(reg)
    register_classes(reg, ["wormhole/errors.py", T_PY])
    for c in LIB_CONTRACTS:
        reg.contracts[c.target] = c
    for c in contracts:
        if c.target not in exclude:
            reg.contracts[c.target] = c
    em = reg.ext_models
    em["nacl.secret.SecretBox"] = sbox_new
    em["twisted.internet.defer.Deferred"] = deferred_new
    em["twisted.internet.defer.CancelledError"] = exc_model("CancelledError")
    em["twisted.internet.error.ConnectionClosed"] = exc_model("error.ConnectionClosed")
    reg.boundary["SecretBox.encrypt"] = sbox_encrypt
    reg.boundary["SecretBox.decrypt"] = sbox_decrypt
    reg.boundary["Deferred.*"] = deferred_call
    reg.class_fields["Common"] = dict(COMMON_FIELDS)
    reg.class_fields["SecretBox"] = {"key": "bytes"}
    sf = reg.spec_funcs

    sf["be_value"] = lambda it, b: VInt(models.be_value_of(it, b.z))
    sf["be_enc"] = lambda it, v, n: VStr(be_enc_guarded(it, v.z, it.concrete(n)), "bytes")
    sf["hkdf"] = lambda it, k, l, i: VStr(hkdf_term(it, k.z, l.z, i.z), "bytes")
    sf["hexl"] = lambda it, b: VStr(hexl_term(it, b.z), "bytes")
    sf["sbox_ct"] = lambda it, k, n, p: VStr(sbox_encrypt_facts(it, k.z, n.z, p.z), "bytes")
    sf["sbox_valid"] = lambda it, k, c: VBool(F_valid()(k.z, c.z))
    sf["sbox_open"] = lambda it, k, c: VStr(F_open()(k.z, c.z), "bytes")
    sf["min2"] = lambda it, a, b: VInt(z3.If(a.z < b.z, a.z, b.z))

    # the two handshake texts are *defined* spec functions: sender_hs(k) / receiver_hs(k) are function symbols whose
    # defining equation (the protocol text) is supplied as a ground instance wherever a proof needs it; a registry with
    # hs_opaque=True leaves them uninterpreted (strictly fewer hypotheses), which keeps the string solver fast
    def _hs(it, k, fname, label, info):
        r = uf(fname, StringS, StringS)(k.z)
        if not getattr(it.reg, "hs_opaque", False):
            text = z3.Concat(z3.StringVal(label), hexl_term(it, hkdf_term(it, k.z, z3.IntVal(32), z3.StringVal(info))),
                             z3.StringVal(" ready\n\n"))
            it.ctx.assume(r == text)
        return VStr(r, "bytes")

    def sender_hs(it, k):
        return _hs(it, k, "sender_hs", "transit sender ", "transit_sender")

    def receiver_hs(it, k):
        return _hs(it, k, "receiver_hs", "transit receiver ", "transit_receiver")

    sf["sender_hs"] = sender_hs
    sf["receiver_hs"] = receiver_hs

    # ---- the ghost call trace: contract-applied calls ("call"/"callret"), boundary calls ("bcall")
    def _since_iter(it):
        tr = it.ctx.trace
        start = max([i for i, e in enumerate(tr) if e[0] == "loop-body-start"] + [-1])
        return tr[start + 1:]

    def _calls(tr, kind, suffix):
        return [e for e in tr if e[0] == kind and e[1][0].endswith(suffix)]

    def n_calls(it, suffix):
        return VInt(len(_calls(it.ctx.trace, "call", it.concrete(suffix))))

    def n_returns(it, suffix):
        return VInt(len(_calls(it.ctx.trace, "callret", it.concrete(suffix))))

    def call_arg(it, suffix, k, i):
        evs = _calls(it.ctx.trace, "call", it.concrete(suffix))
        k, i = it.concrete(k), it.concrete(i)
        if k >= len(evs):
            return NONE
        return evs[k][1][1][i]

    def iter_n_calls(it, suffix):
        return VInt(len(_calls(_since_iter(it), "call", it.concrete(suffix))))

    def iter_call_arg(it, suffix, k, i):
        evs = _calls(_since_iter(it), "call", it.concrete(suffix))
        k, i = it.concrete(k), it.concrete(i)
        if k >= len(evs):
            return NONE
        return evs[k][1][1][i]

    def iter_call_result(it, suffix, k):
        evs = _calls(_since_iter(it), "callret", it.concrete(suffix))
        k = it.concrete(k)
        if k >= len(evs):
            return NONE
        return evs[k][1][1]

    def call_order(it):
        """names (last path component) of contract-applied calls, in order"""
        return VList([VStr(e[1][0].split(".")[-1]) for e in it.ctx.trace if e[0] == "call"])

    def iter_bcall_names(it):
        return VList([VStr(e[1][1]) for e in _since_iter(it) if e[0] == "bcall"])

    def iter_bcall_arg(it, name, k, i):
        name, k, i = it.concrete(name), it.concrete(k), it.concrete(i)
        evs = [e for e in _since_iter(it) if e[0] == "bcall" and e[1][1] == name]
        if k >= len(evs):
            return NONE
        return evs[k][1][2][i]

    def last_bcall_arg(it, name, i):
        """argument i of the last boundary call named name (None if there is none)"""
        name, i = it.concrete(name), it.concrete(i)
        evs = [e for e in it.ctx.trace if e[0] == "bcall" and e[1][1] == name]
        if not evs or i >= len(evs[-1][1][2]):
            return NONE
        return evs[-1][1][2][i]

    def seq_unfold(it, sq, i):
        """lemma (proved as an obligation of its own, then used): for 0 <= i < len(s), s[i:] == [s[i]] + s[i+1:]"""
        L = z3.Length(sq.z)
        fact = z3.Implies(z3.And(0 <= i.z, i.z < L),
                          z3.Extract(sq.z, i.z, L - i.z) == z3.Concat(z3.Unit(sq.z[i.z]), z3.Extract(sq.z, i.z + 1, L - i.z - 1)))
        # a fact of the sequence theory alone: proved without the path condition (fewer hypotheses), then used
        it.ctx.vcs.append(VC("lemma.seq-unfold[s[i:] == [s[i]] + s[i+1:]]", [], fact, {"kind": "lemma", "src": "pure sequence fact"}))
        it.ctx.assume(fact)
        return VBool(True)

    def n_events(it, name):
        name = it.concrete(name)
        return VInt(sum(1 for e in it.ctx.trace if e[0] == name))

    def event_arg(it, name, k, i):
        name, k, i = it.concrete(name), it.concrete(k), it.concrete(i)
        evs = [e for e in it.ctx.trace if e[0] == name]
        if k >= len(evs):
            return NONE
        return evs[k][1][i]

    def is_method_of(it, f, recv, meth):
        """f is the bound method recv.meth (e.g. the d.cancel handed to callLater)"""
        meth = it.concrete(meth)
        f = it.force(f)
        recv = it.force(recv)
        if isinstance(f, VBoundExt) and f.meth == meth:
            return VBool(it.same(it.force(f.recv), recv))
        if isinstance(f, VFunc) and f.bound is not None and f.name == meth:
            return VBool(it.same(it.force(f.bound), recv))
        return VBool(False)

    sf.update({"n_calls": n_calls, "n_returns": n_returns, "call_arg": call_arg, "iter_n_calls": iter_n_calls,
               "iter_call_arg": iter_call_arg, "iter_call_result": iter_call_result, "call_order": call_order,
               "iter_bcall_names": iter_bcall_names, "iter_bcall_arg": iter_bcall_arg, "n_events": n_events,
               "event_arg": event_arg, "is_method_of": is_method_of, "last_bcall_arg": last_bcall_arg, "seq_unfold": seq_unfold})
    return reg


# ------------------------------------------------------------------ big-endian <-> bytes from the definition
def be_definitional_task(tier, seed):
    """The two axiom schemas used for be_enc / be_value (be_enc_guarded, models.be_value_of) are derived here from the
    DEFINITION of the big-endian encoding instead of being assumed: ENC_L(n) = chr(d_0) .. chr(d_{L-1}) with d the base-256
    digits of n (repeated divmod, most significant first), VAL_L(s) = sum(code(s[i]) * 256**(L-1-i)), for the two widths
    the transit code uses (4: frame length, 24: nonce).  Pieces, each one SMT query:
      digits-recompose[L]   0 <= n < 256**L  =>  every digit in 0..255, nothing left over, sum(d_i * 256**(L-1-i)) == n
      string-of-codes[L]    codes c_i in 0..255  =>  len(chr(c_0)..chr(c_{L-1})) == L and code of its i-th char == c_i
        (together: len(ENC_L(n)) == L and VAL_L(ENC_L(n)) == n, by substituting c_i := d_i(n))
      codes-of-string[L]    len(x) == L  =>  x == chr(code(x[0])) .. chr(code(x[L-1]))
      horner-step           v >= 0, 0 <= c <= 255  =>  (256 v + c) % 256 == c and (256 v + c) // 256 == v
      value-in-range[L]     codes in 0..255  =>  0 <= VAL_L < 256**L
        (together: the digits of VAL_L(x) are the codes of x - L applications of horner-step - hence ENC_L(VAL_L(x)) == x)
    The joining substitutions are rewriting steps done here in the text, not SMT queries."""
    import time
    from pyvc.runner import ob
    t0 = time.time()
    obs = []

    def chk(name, hyps, goal, src):
        sol = z3.Solver()
        sol.set("timeout", 20000 if tier == "quick" else 60000)
        sol.add(*hyps)
        sol.add(z3.Not(goal))
        t1 = time.time()
        r = sol.check()
        st = "discharged" if r == z3.unsat else ("failed" if r == z3.sat else "unknown")
        obs.append(ob(name, st, "z3", time.time() - t1, False, str(sol.model()) if r == z3.sat else None,
                      {"kind": "lemma", "src": src, "definite": r == z3.sat}, smt_hash=name))

    v, c1 = z3.Int("v"), z3.Int("c")
    chk("be-definitional.horner-step", [v >= 0, c1 >= 0, c1 <= 255], z3.And((256 * v + c1) % 256 == c1, (256 * v + c1) / 256 == v),
        "(256 v + c) % 256 == c and (256 v + c) // 256 == v")
    for L in (4, 24):
        n = z3.Int("n")
        q, d = n, []
        for _ in range(L):
            d.append(q % 256)
            q = q / 256
        d = d[::-1]
        chk(f"be-definitional[{L}].digits-recompose", [n >= 0, n < 256 ** L],
            z3.And(q == 0, z3.Sum([d[i] * 256 ** (L - 1 - i) for i in range(L)]) == n, *[z3.And(x >= 0, x <= 255) for x in d]),
            "the base-256 digits of n recompose to n")
        c = [z3.Int(f"c{i}") for i in range(L)]
        rng = [z3.And(ci >= 0, ci <= 255) for ci in c]
        s_ = z3.Concat(*[z3.StrFromCode(ci) for ci in c])
        chk(f"be-definitional[{L}].string-of-codes", rng,
            z3.And(z3.Length(s_) == L, *[z3.StrToCode(z3.SubString(s_, i, 1)) == c[i] for i in range(L)]),
            "the i-th byte of chr(c_0)..chr(c_{L-1}) is c_i")
        x = z3.String("x")
        chk(f"be-definitional[{L}].codes-of-string", [z3.Length(x) == L],
            x == z3.Concat(*[z3.StrFromCode(z3.StrToCode(z3.SubString(x, i, 1))) for i in range(L)]),
            "a string of length L is the concatenation of its L characters")
        val = z3.Sum([c[i] * 256 ** (L - 1 - i) for i in range(L)])
        chk(f"be-definitional[{L}].value-in-range", rng, z3.And(val >= 0, val < 256 ** L), "0 <= VAL_L < 256**L")
    return {"obligations": obs, "info": {"target": "be_enc / be_value <definitional big-endian model, widths 4 and 24>", "sha": None,
                                         "lines": None, "paths": 1, "wall": round(time.time() - t0, 3)}}


class BodyLemma(Contract):
    """a lemma proved on the *real body* of function `of` under a specialised precondition / loop
    invariant; its obligations are named after the lemma, not after the function"""

    def __init__(self, target, of, **kw):
        super().__init__(target, **kw)
        self.of = of

    @property
    def fdef(self):
        if self._fdef is None:
            base = source.find_func(self.of)
            if base is None:
                return None
            fd = source.FuncDef(base.module, base.qualname, base.node, base.cls, base.text)
            fd.key_override = self.target
            self._fdef = fd
        return self._fdef
