"""Shared model for C10 and C15: the Dilation flow-control classes Outbound / Inbound and the
Manager methods that drive them.

Everything that is *assumed* lives here and is listed in TRUSTED_COMMON:
  * the boundary objects (the L2 connection, its transport, application producers) and what they
    may do synchronously (re-entrancy),
  * (no longer assumed: the element-wise / first-index consequences of popleft, extend, append, rotate(-1), remove,
    list.index and set(list) spelled out for the solvers are proved for all lengths by the `seq-lemmas` task),
  * PullToPush() returns a new object.
"""
import z3

from pyvc.values import *   # noqa
from pyvc import values
from pyvc.interp import Frame, snapshot
from .common import make_registry, install_trace_funcs, register_classes

values.NT_DEFS.update({
    "KCM": [], "Ping": [("ping_id", "bytes")], "Pong": [("ping_id", "bytes")],
    "Open": [("seqnum", "int"), ("scid", "int"), ("subprotocol", "str")],
    "Data": [("seqnum", "int"), ("scid", "int"), ("data", "bytes")],
    "Close": [("seqnum", "int"), ("scid", "int")], "Ack": [("resp_seqnum", "int")],
})
SEQREC = "union[nt[Open],nt[Data],nt[Close]]"
RECORD = "union[nt[KCM],nt[Ping],nt[Pong],nt[Open],nt[Data],nt[Close],nt[Ack]]"
PROD = "opaque[Producer]"
SUBCH = "opaque[SubChannel]"
OB = "wormhole/_dilation/outbound.py:Outbound."
IB = "wormhole/_dilation/inbound.py:Inbound."
MG = "wormhole/_dilation/manager.py:Manager."

OUTBOUND_FIELDS = {
    "_outbound_queue": f"seq[{SEQREC}]", "_queued_unsent": f"seq[{SEQREC}]", "_next_outbound_seqnum": "int",
    "_connection": "opt[obj[Conn]]", "_paused": "bool",
    "_all_producers": f"seq[{PROD}]", "_paused_producers": f"set[{PROD}]", "_unpaused_producers": f"set[{PROD}]",
    "_subchannel_producers": f"dict[{SUBCH},{PROD}]", "_cooperator": "obj[Cooperator]",
}
CONN_FIELDS = {"transport": "obj[Transport]", "sent": f"seq[{SEQREC}]", "paused_reading": "bool"}
INBOUND_FIELDS = {"_highest_inbound_acked": "int", "_connection": "opt[obj[Conn]]",
                  "_paused_subchannels": f"set[{SUBCH}]", "_open_subchannels": f"dict[int,{SUBCH}]"}

PS = values.opaque_sort("Producer")
_uf = {}
IntS = z3.IntSort()


# ------------------------------------------------------------------ z3-level definitions
def seqnum_z(v):
    """seqnum of an Open/Data/Close record (namedtuple or union of them); -1 for the others"""
    if isinstance(v, VUnion):
        e = None
        for c, x in reversed(v.alts):
            sx = seqnum_z(x)
            e = sx if e is None else z3.If(c, sx, e)
        return e
    if isinstance(v, VTuple) and v.ntname in ("Open", "Data", "Close"):
        return v.items[0].z
    return z3.IntVal(-1)


def L(z):
    return z3.Length(z)


def ix_def(s, x):
    """the DEFINITION of the first-index function: the sequence theory's own indexof of the unit sequence [x]
    (what pyvc.models uses for list.index / deque.remove / `in`)"""
    return z3.IndexOf(s, z3.Unit(x), 0)


def ix(s, x):
    """first index of x in s, -1 if absent (list.index / 'in' / deque.remove all use it).
    A function symbol DEFINED as ix(s, x) := ix_def(s, x) = indexof(s, [x], 0).  The solvers' own indexof is not
    usable together with nth under quantifiers, so the definition is only ever handed to them at ground instances
    (seq_op_hook) and what the proofs use instead are first_index_facts(s) - which are proved for ix_def over an
    arbitrary sequence s by the `seq-lemmas` task (fi.*), i.e. they are consequences of the definition."""
    key = ("fidx", str(s.sort()))
    if key not in _uf:
        _uf[key] = z3.Function("first_index_" + str(len(_uf)), s.sort(), s.sort().basis(), z3.IntSort())
    return _uf[key](s, x)


def first_index_facts(s, es, ix=ix):
    """characterisation of the first-index function, for the sequence term s (proved from its definition for every s:
    seq_lemmas_task, obligations fi.*)"""
    y = z3.Const("y!fi", es)
    i = z3.Int("i!fi")
    return [z3.ForAll([y], z3.And(ix(s, y) >= -1, ix(s, y) < L(s), z3.Implies(ix(s, y) >= 0, s[ix(s, y)] == y))),
            z3.ForAll([i], z3.Implies(z3.And(0 <= i, i < L(s)), z3.And(0 <= ix(s, s[i]), ix(s, s[i]) <= i)))]


def distinct_z(s):
    i = z3.Int("i!di")
    return z3.ForAll([i], z3.Implies(z3.And(0 <= i, i < L(s)), ix(s, s[i]) == i))


def op_facts(meth, old, new, x=None, t=None, opaque=True):
    """element-wise / first-index consequences of new = old.<meth>(...), as a list of (condition, fact):
    `fact` holds whenever `condition` (None, or 'the elements of old are pairwise distinct') does.
    Pure facts of the theory of finite sequences; the sequence solvers do not derive them under
    quantifiers, so they are stated - each one proved for arbitrary `old` by the `seq-lemmas` task (seq_lemmas) from the
    defining term of the operation (op_def), and validated against CPython lists by the `list-op-facts` task."""
    j = z3.Int("j!op")
    es = new.sort().basis()
    y = z3.Const("y!op", es)
    n = L(old)
    out = []
    A = lambda f, cond=None: out.append((cond, f))   # noqa: E731
    if meth == "popleft":
        A(L(new) == n - 1)
        A(z3.ForAll([j], z3.Implies(z3.And(0 <= j, j < n - 1), new[j] == old[j + 1])))
    elif meth == "extend":
        A(L(new) == n + L(t))
        A(z3.ForAll([j], z3.Implies(z3.And(0 <= j, j < n), new[j] == old[j])))
        A(z3.ForAll([j], z3.Implies(z3.And(0 <= j, j < L(t)), new[n + j] == t[j])))
    elif meth == "clear":
        A(L(new) == 0)
    elif meth == "append" and opaque:
        A(z3.ForAll([y], ix(new, y) == z3.If(ix(old, y) >= 0, ix(old, y), z3.If(y == x, n, -1))))
    elif meth == "rotate" and opaque:
        h = old[0]
        A(L(new) == n)
        A(z3.Implies(n > 0, z3.And(
            new[n - 1] == h,
            z3.ForAll([j], z3.Implies(z3.And(0 <= j, j < n - 1), new[j] == old[j + 1])),
            z3.ForAll([y], z3.Implies(y != h, ix(new, y) == z3.If(ix(old, y) < 0, -1, ix(old, y) - 1))))))
        A(z3.Implies(n > 0, ix(new, h) == n - 1), "distinct")
    elif meth == "remove" and opaque:
        k = ix(old, x)
        A(L(new) == n - 1)
        A(z3.ForAll([j], z3.Implies(z3.And(0 <= j, j < k), new[j] == old[j])))
        A(z3.ForAll([j], z3.Implies(z3.And(k <= j, j < n - 1), new[j] == old[j + 1])))
        A(z3.ForAll([y], z3.Implies(y != x, ix(new, y) == z3.If(ix(old, y) < 0, -1,
                                                                  z3.If(ix(old, y) < k, ix(old, y), ix(old, y) - 1)))))
        A(ix(new, x) == -1, "distinct")
    if opaque and meth in ("append", "rotate", "remove"):
        for f in first_index_facts(new, es):
            A(f)
    return out


HOOK_STATS = {"stated": [], "skipped": []}      # debugging aid (tools): which operations got their facts


def use_proved(it, f):
    """hand the solvers an INSTANCE of a lemma that the `seq-lemmas` task proves for arbitrary sequences (or of the
    definition of ix).  The only place in this module where list facts enter a path condition."""
    it.ctx.assume(f)


def seq_op_hook(it, s, meth, old, args):
    """called by the engine around every list/deque operation on a symbolic sequence: states the facts of op_facts, each
    an instance of a seq-lemmas obligation (op.<meth>[..].k, proved from the defining term op_def(meth, old, ..)).  They
    are stated only when the term the engine built IS that defining term (checked structurally) and the operation did
    not raise on this path."""
    opaque = s.elem.kind == "opaque"
    if meth.startswith("pre:"):
        if meth in ("pre:remove", "pre:index") and opaque:
            # the engine decides ValueError with the solver's own indexof: ix is defined as exactly that
            x = to_z3(it.force(args[0]), s.elem)
            use_proved(it, ix_def(old, x) == ix(old, x))
        return
    if meth == "pop" and args and it.concrete(it.force(args[0])) == 0:
        meth = "popleft"
    x = t = None
    if meth in ("append", "remove"):
        x = to_z3(it.force(args[0]), s.elem)
    if meth == "extend":
        t = to_z3(it.force(args[0]), T("seq", [s.elem]))
    raises, new = op_def(meth, old, x, t)
    if new is None or not new.eq(s.z):
        HOOK_STATS["skipped"].append(meth)
        return          # not the operation the lemmas are about: nothing is stated
    HOOK_STATS["stated"].append(meth)
    if raises is not None:
        # the lemmas have `not raises` as hypothesis: on this path the engine branched on that very condition
        lit = z3.simplify(z3.Not(z3.simplify(raises)))
        if not any(lit.eq(p) or lit.eq(z3.simplify(p)) for p in it.ctx.pc):
            it.ctx.prove(z3.Not(raises), f"seq-op.{meth}.did-not-raise", {"kind": "lemma"})
    if meth == "remove" and opaque:
        use_proved(it, ix(old, x) == ix_def(old, x))
    for cond, f in op_facts(meth, old, s.z, x, t, opaque):
        if cond == "distinct":
            d = z3.simplify(distinct_z(old))
            # when distinctness is literally one of the path's hypotheses the fact itself is added
            # (available without quantifier reasoning), otherwise the implication
            f = f if any(d.eq(p) for p in it.ctx.pc) else z3.Implies(distinct_z(old), f)
        use_proved(it, f)


# ------------------------------------------------------------------ spec functions
def _field(o, name):
    return o.fields[name]


def conn_of(ob):
    """(isnone, Conn object or None)"""
    c = ob.fields["_connection"]
    if isinstance(c, VOpt):
        return c.isnone, c.inner
    if c is NONE:
        return z3.BoolVal(True), None
    return z3.BoolVal(False), c


def install_spec(reg):
    sf = reg.spec_funcs
    sf["seqnum"] = lambda it, r: VInt(seqnum_z(r))

    def contig(it, q, n):
        i = z3.Int("i!cg")
        return VBool(z3.ForAll([i], z3.Implies(z3.And(0 <= i, i < L(q.z)),
                                               seqnum_z(from_z3(q.z[i], q.elem)) == n.z - L(q.z) + i)))

    sf["contig"] = contig

    def suffix_of(it, u, q):
        i = z3.Int("i!sx")
        return VBool(z3.And(L(u.z) <= L(q.z),
                            z3.ForAll([i], z3.Implies(z3.And(0 <= i, i < L(u.z)), u.z[i] == q.z[L(q.z) - L(u.z) + i]))))

    sf["suffix_of"] = suffix_of

    def conn_sent(it, ob):
        isnone, c = conn_of(ob)
        if c is None:
            return VSeq(z3.Empty(z3.SeqSort(sort_of(SEQREC))), SEQREC)
        return c.fields["sent"]

    sf["conn_sent"] = conn_sent
    # len(s) == 0, said as an equation (the form the sequence solvers use directly)
    sf["no_records"] = lambda it, s: VBool(s.z == z3.Empty(s.z.sort()))
    # the records appended to a queue since an earlier state of it
    sf["new_part"] = lambda it, q, q0: VSeq(z3.Extract(q.z, L(q0.z), L(q.z) - L(q0.z)), q.elem)

    def conn_same(it, ob, oldob):
        """the _connection field holds the same object (or None) as in oldob"""
        n1, c1 = conn_of(ob)
        n2, c2 = conn_of(oldob)
        if c1 is None or c2 is None:
            return VBool(z3.And(n1, n2))
        return VBool(z3.And(n1 == n2, z3.BoolVal(c1.oid == c2.oid)))

    sf["conn_same"] = conn_same

    def reading_paused(it, ob):
        n, c = conn_of(ob)
        return c.fields["paused_reading"] if c is not None else VBool(False)

    sf["reading_paused"] = reading_paused

    def conn_is(it, ob, c):
        n1, c1 = conn_of(ob)
        return VBool(z3.And(z3.Not(n1), z3.BoolVal(c1 is not None and isinstance(c, VObj) and c1.oid == c.oid)))

    sf["conn_is"] = conn_is

    def all_above(it, q, x):
        i = z3.Int("i!ab")
        return VBool(z3.ForAll([i], z3.Implies(z3.And(0 <= i, i < L(q.z)), seqnum_z(from_z3(q.z[i], q.elem)) > x.z)))

    sf["all_above"] = all_above

    def dropped_acked(it, oldq, newq, x):
        """newq is oldq without its first len(oldq)-len(newq) elements, and each dropped one has seqnum <= x"""
        i = z3.Int("i!da")
        d = L(oldq.z) - L(newq.z)
        return VBool(z3.And(d >= 0,
                            z3.ForAll([i], z3.Implies(z3.And(0 <= i, i < L(newq.z)), newq.z[i] == oldq.z[d + i])),
                            z3.ForAll([i], z3.Implies(z3.And(0 <= i, i < d), seqnum_z(from_z3(oldq.z[i], oldq.elem)) <= x.z)),
                            # the instance at the last dropped element, spelled out (it is what bounds the first kept one)
                            z3.Implies(d > 0, seqnum_z(from_z3(oldq.z[d - 1], oldq.elem)) <= x.z)))

    sf["dropped_acked"] = dropped_acked

    # ---- producers
    def _emit_fi(it, s):
        for f in first_index_facts(s.z, s.z.sort().basis()):
            use_proved(it, f)          # instances of seq-lemmas fi.* at the term s

    def partition(it, allp, P, U):
        """_check_invariants, pointwise: the two sets are disjoint and their union is set(deque)"""
        _emit_fi(it, allp)
        x = z3.Const("x!pt", PS)
        return VBool(z3.ForAll([x], z3.And(z3.Or(P.z[x], U.z[x]) == (ix(allp.z, x) >= 0), z3.Not(z3.And(P.z[x], U.z[x])))))

    sf["partition"] = partition
    sf["distinct"] = lambda it, s: VBool(distinct_z(s.z))

    def paused_first(it, allp, P, U):
        """rotation order: every paused producer comes before every un-paused one"""
        x, y = z3.Consts("x!pf y!pf", PS)
        return VBool(z3.ForAll([x, y], z3.Implies(z3.And(U.z[x], P.z[y]), ix(allp.z, y) < ix(allp.z, x))))

    sf["paused_first"] = paused_first

    def no_member(it, S):
        x = z3.Const("x!em", S.z.sort().domain())
        return VBool(z3.ForAll([x], z3.Not(S.z[x])))

    sf["no_member"] = no_member
    sf["index_of"] = lambda it, s, x: VInt(ix(s.z, to_z3(x, s.elem)))

    def registered(it, m, allp):
        """every registered producer is in the rotation, no producer is registered for two subchannels"""
        a, b = z3.Consts("a!rg b!rg", m.present.sort().domain())
        return VBool(z3.And(z3.ForAll([a], z3.Implies(m.present[a], ix(allp.z, m.val[a]) >= 0)),
                            z3.ForAll([a, b], z3.Implies(z3.And(m.present[a], m.present[b], a != b), m.val[a] != m.val[b]))))

    sf["registered"] = registered

    def same_set(it, A, B):
        x = z3.Const("x!ss", A.z.sort().domain())
        return VBool(z3.ForAll([x], A.z[x] == B.z[x]))

    sf["same_set"] = same_set

    def set_plus(it, A, B, x):
        """A == B | {x}"""
        k = z3.Const("k!sp", A.z.sort().domain())
        return VBool(z3.ForAll([k], A.z[k] == z3.Or(B.z[k], k == to_z3(x, A.elem))))

    sf["set_plus"] = set_plus

    def set_minus(it, A, B, x):
        k = z3.Const("k!sm", A.z.sort().domain())
        return VBool(z3.ForAll([k], A.z[k] == z3.And(B.z[k], k != to_z3(x, A.elem))))

    sf["set_minus"] = set_minus

    def set_union_is(it, A, B, C):
        k = z3.Const("k!su", A.z.sort().domain())
        return VBool(z3.ForAll([k], A.z[k] == z3.Or(B.z[k], C.z[k])))

    sf["set_union_is"] = set_union_is

    def none_before(it, allp, n, S):
        """no element of the deque before position n is in S"""
        j = z3.Int("j!nb")
        return VBool(z3.ForAll([j], z3.Implies(z3.And(0 <= j, j < n.z), z3.Not(S.z[allp.z[j]]))))

    sf["none_before"] = none_before

    def moved_to_paused(it, P, U, P0, U0):
        """producers only move from the un-paused to the paused set"""
        x = z3.Const("x!mv", PS)
        return VBool(z3.ForAll([x], z3.And(z3.Or(P.z[x], U.z[x]) == z3.Or(P0.z[x], U0.z[x]),
                                           z3.Implies(P0.z[x], P.z[x]), z3.Implies(U.z[x], U0.z[x]))))

    sf["moved_to_paused"] = moved_to_paused

    def removed_at(it, new, old, x):
        """new is old without the element x (at its first index)"""
        j = z3.Int("j!ra")
        k = ix(old.z, to_z3(x, old.elem))
        return VBool(z3.And(L(new.z) == L(old.z) - 1,
                            z3.ForAll([j], z3.Implies(z3.And(0 <= j, j < k), new.z[j] == old.z[j])),
                            z3.ForAll([j], z3.Implies(z3.And(k <= j, j < L(new.z)), new.z[j] == old.z[j + 1]))))

    sf["removed_at"] = removed_at
    sf["is_pull"] = lambda it, p: VBool(is_pull_uf()(p.z))

    # ---- trace
    def iter_events(it, name):
        tr = it.ctx.trace
        start = max([i for i, e in enumerate(tr) if e[0] == "loop-body-start"] + [-1])
        return [e for e in tr[start + 1:] if e[0] == name]

    def iter_bcalls(it, *names):
        want = set(it.concrete(n) for n in names)
        return VInt(sum(1 for e in iter_events(it, "bcall") if e[1][1] in want))

    sf["iter_bcalls"] = iter_bcalls

    def iter_bcall_arg(it, name, i):
        """argument i of the only boundary call `name` of this iteration (None if there is none)"""
        name, i = it.concrete(name), it.concrete(i)
        evs = [e for e in iter_events(it, "bcall") if e[1][1] == name]
        if len(evs) != 1:
            return NONE
        return evs[0][1][2][i]

    sf["iter_bcall_arg"] = iter_bcall_arg

    def writes(it, scope):
        """the records queued re-entrantly (by producers during their turn) in this iteration / call"""
        evs = iter_events(it, "reentrant-writes") if it.concrete(scope) == "iter" else \
            [e for e in it.ctx.trace if e[0] == "reentrant-writes"]
        z = z3.Empty(z3.SeqSort(sort_of(SEQREC)))
        for e in evs:
            z = z3.Concat(z, e[1][0].z)
        return VSeq(z3.simplify(z), SEQREC)

    sf["writes"] = writes

    def pause_chances(it, scope):
        """how often, in this iteration / call, the transport had the chance to pause us again: a write that may fill its
        buffer (the model of connection.send_record) or a producer's turn (which may write)"""
        evs = it.ctx.trace
        if it.concrete(scope) == "iter":
            start = max([i for i, e in enumerate(evs) if e[0] == "loop-body-start"] + [-1])
            evs = evs[start + 1:]
        return VInt(sum(1 for e in evs if e[0] in ("reenter", "reentrant-writes")))

    sf["pause_chances"] = pause_chances
    sf["passed_loop"] = lambda it, k: VBool(any(e[0] == "loop-exit" and e[1][0] == it.concrete(k) for e in it.ctx.trace))

    def n_calls(it, suffix):
        suffix = it.concrete(suffix)
        return VInt(sum(1 for e in it.ctx.trace if e[0] == "call" and suffix in e[1][0]))

    sf["n_calls"] = n_calls

    def call_arg(it, suffix, k, name):
        """argument number `name` (0 = self) of the k-th contract call whose target ends with suffix"""
        suffix, k, name = it.concrete(suffix), it.concrete(k), it.concrete(name)
        evs = [e for e in it.ctx.trace if e[0] == "call" and suffix in e[1][0]]
        if k >= len(evs):
            return NONE
        return evs[k][1][1][name]

    sf["call_arg"] = call_arg


def is_pull_uf():
    if "p" not in _uf:
        _uf["p"] = z3.Function("is_pull_adapter", PS, z3.BoolSort())
    return _uf["p"]


# ------------------------------------------------------------------ the Outbound invariant
INV_Q = [
    "len(self._outbound_queue) <= self._next_outbound_seqnum",
    "contig(self._outbound_queue, self._next_outbound_seqnum)",
    "suffix_of(self._queued_unsent, self._outbound_queue)",
    "self._connection is not None or no_records(self._queued_unsent)",
]
INV_P = [
    "partition(self._all_producers, self._paused_producers, self._unpaused_producers)",
    "distinct(self._all_producers)",
    "paused_first(self._all_producers, self._paused_producers, self._unpaused_producers)",
    "not self._paused or no_member(self._unpaused_producers)",
    "self._connection is not None or self._paused",
    "registered(self._subchannel_producers, self._all_producers)",
]
INV_W = INV_Q + INV_P                      # holds at every call-out and every return ("weak")
QUIESCENT = "self._paused or no_member(self._paused_producers)"     # additionally, between reactor turns
INV = INV_W + [QUIESCENT]
INV_NAMES = ["q-bounded", "q-contiguous-seqnums", "unsent-is-suffix-of-queue", "no-connection-nothing-unsent",
             "check_invariants-partition", "producers-distinct", "paused-before-unpaused", "paused-means-all-paused",
             "no-connection-means-paused", "registered-producers-in-rotation", "no-lost-wakeup"]


def named(exprs, prefix="inv."):
    names = INV_NAMES
    out = []
    for e in exprs:
        k = INV.index(e)
        out.append((prefix + names[k], e))
    return out


def on(obj, exprs):
    """the same clauses about another object expression (e.g. self._outbound)"""
    return [e.replace("self.", obj + ".") for e in exprs]


# ------------------------------------------------------------------ boundary objects
def outbound_of(fr):
    f = fr
    while f is not None:
        if isinstance(f.selfobj, VObj) and f.selfobj.cls == "Outbound":
            return f.selfobj
        f = f.parent
    return None


def maybe_pause(it, ob, fr, label):
    """the transport's buffer may fill up during any write: it then calls pauseProducing() on its
    registered producer (the Outbound object) synchronously, from inside the write"""
    if ob is None or ob.fields.get("_paused") is None:
        return
    if it.ctx.choose([z3.BoolVal(True), z3.BoolVal(True)], label) == 1:
        it.ctx.event("reenter", "pauseProducing")
        it.call(it.getattr(ob, "pauseProducing"), [], {}, fr)


def conn_send_record(it, recv, meth, args, kwargs, fr):
    """connection.send_record(r): ghost `sent` (the seq-numbered records handed to this connection,
    in order) grows by r; the transport may pause us re-entrantly"""
    r = args[0]
    rf = r
    ctrl = ("Ack", "Ping", "Pong", "KCM")
    if (isinstance(r, VTuple) and r.ntname in ctrl) or \
            (isinstance(r, VUnion) and all(isinstance(x, VTuple) and x.ntname in ctrl for _, x in r.alts)):
        pass
    elif isinstance(recv, VObj) and "sent" in recv.fields:
        s = recv.fields["sent"]
        from pyvc.models import seq_append
        s.z = seq_append(it, s.z, to_z3(r, s.elem))
    it.ctx.event("bcall", "Conn", "send_record", [rf], {})
    maybe_pause(it, outbound_of(fr), fr, "send_record-fills-buffer")
    return NONE


RELY_FIELDS = ["_outbound_queue", "_queued_unsent", "_next_outbound_seqnum", "_paused", "_all_producers",
               "_paused_producers", "_unpaused_producers", "_subchannel_producers"]


def producer_resume(it, recv, meth, args, kwargs, fr):
    """p.resumeProducing(): an application producer's turn.  It may synchronously write (any number
    of times: Manager.send_data -> queue_and_send_record), register / unregister producers, and the
    transport may call pauseProducing().  Modelled rely/guarantee style: the Outbound state is havocked
    subject to what every one of these re-entrant methods guarantees (their `rely.*` ensures clauses,
    closed under composition: lemma:rely_transitive)."""
    ob = outbound_of(fr)
    ctx = it.ctx
    p = recv
    if ob is not None:
        # environment contract of the call itself (what the producer may rely on)
        ctx.prove(z3.Not(ob.fields["_paused"].z), "Producer.resumeProducing.requires.not-paused",
                  {"kind": "call-requires", "src": "a producer is resumed only while the Outbound is not paused"})
        ctx.prove(z3.And(ob.fields["_unpaused_producers"].z[p.z], z3.Not(ob.fields["_paused_producers"].z[p.z])),
                  "Producer.resumeProducing.requires.booked-unpaused",
                  {"kind": "call-requires", "src": "the producer being resumed is booked in _unpaused_producers only"})
        allp = ob.fields["_all_producers"].z
        ctx.prove(z3.And(L(allp) > 0, allp[L(allp) - 1] == p.z), "Producer.resumeProducing.requires.moved-to-back",
                  {"kind": "call-requires", "src": "the producer being resumed has been moved to the back of the rotation"})
    ctx.event("bcall", "Producer", "resumeProducing", [p], {})
    if ob is None:
        return NONE
    rely_havoc(it, ob, fr)
    return NONE


def rely_havoc(it, ob, fr):
    ctx = it.ctx
    old = snapshot(ob, {})
    tmp = Frame(fr.fdef, fr.module, ob, None)
    for f in RELY_FIELDS:
        it.havoc_target(("self", f), tmp)
    isnone, c = conn_of(ob)
    if c is not None:
        it.havoc_target(("self", "_connection", "sent"), tmp)
    W = z3.Const(ctx.namer("reentrant_writes"), z3.SeqSort(sort_of(SEQREC)))
    wv = VSeq(W, SEQREC)
    tmp.locals["self"] = ob
    oldfr = Frame(fr.fdef, fr.module, old, None)
    oldfr.locals["self"] = old
    tmp.locals["W"] = wv
    for e in INV_W + RELY:
        ctx.assume(it.truth(it.eval_spec(e, tmp, old=oldfr)))
    ctx.event("reentrant-writes", wv)


# what every re-entrant Outbound method guarantees about (old state, new state), W = records it queued
RELY = [
    "self._outbound_queue == old(self._outbound_queue) + W",
    "self._next_outbound_seqnum == old(self._next_outbound_seqnum) + len(W)",
    "self._connection is None or conn_sent(self) + self._queued_unsent == old(conn_sent(self)) + old(self._queued_unsent) + W",
    "self._connection is not None or no_records(self._queued_unsent)",
    "not old(self._paused) or self._paused",
    "len(old(self._queued_unsent)) > 0 or no_records(self._queued_unsent)",
]
RELY_NAMES = ["queue-only-grows", "seqnum-counts-queued", "stream-to-connection-only-grows-by-the-same",
              "no-connection-nothing-unsent", "pause-is-sticky", "empty-backlog-stays-empty"]


def rely_clauses(w):
    """the RELY clauses as ensures of a re-entrant method that queues the records `w` (a spec expression)"""
    return [("rely." + n, e.replace("W", w)) for n, e in zip(RELY_NAMES, RELY)]


def producer_pause(it, recv, meth, args, kwargs, fr):
    """p.pauseProducing(): assumed not to call back into the Outbound object (it only stops writing)"""
    ob = outbound_of(fr)
    if ob is not None:
        it.ctx.prove(z3.And(ob.fields["_paused_producers"].z[recv.z], z3.Not(ob.fields["_unpaused_producers"].z[recv.z])),
                     "Producer.pauseProducing.requires.booked-paused",
                     {"kind": "call-requires", "src": "the producer being paused is booked in _paused_producers only"})
    it.ctx.event("bcall", "Producer", "pauseProducing", [recv], {})
    return NONE


def new_pull_to_push(it, cls, args, kwargs):
    """PullToPush(producer, unregister, cooperator): a new object (identity-hashed, attrs eq=False),
    hence different from every producer already in the rotation"""
    w = it.fresh(PROD, "pull_adapter")
    it.ctx.assume(is_pull_uf()(w.z))
    fn = args[1] if len(args) > 1 else None
    ob = None
    if isinstance(fn, VFunc) and fn.closure is not None:
        ob = outbound_of(fn.closure)
    if ob is not None:
        allp = ob.fields["_all_producers"].z
        it.ctx.assume(ix(allp, w.z) < 0)
        it.ctx.assume(z3.Not(ob.fields["_paused_producers"].z[w.z]))
        it.ctx.assume(z3.Not(ob.fields["_unpaused_producers"].z[w.z]))
        m = ob.fields["_subchannel_producers"]
        a = z3.Const("a!np", m.present.sort().domain())
        it.ctx.assume(z3.ForAll([a], z3.Implies(m.present[a], m.val[a] != w.z)))
    it.ctx.event("wrap", args[0], w)
    return w


def isinstance_producer(it, v, name):
    if name == "PullToPush":
        return is_pull_uf()(v.z)
    return z3.BoolVal(False)


def set_of_seq(it, args, kw):
    """set(list): x in set(s)  <=>  s.index(x) exists (seq-lemmas set.*: <=> some s[i] == x <=> contains(s, [x]))"""
    from pyvc.models import b_set
    if args:
        v = it.force(args[0])
        if isinstance(v, VSeq) and v.elem.kind == "opaque":
            k = z3.Const("k!sos", sort_of(v.elem))
            r = VSet(z3.Lambda([k], ix(v.z, k) >= 0), v.elem)
            r.pointwise = True      # compared member by member (see Interp.eq)
            return r
    return b_set(it, args, kw, None)


def make_reg(contracts, exclude=()):
    reg = make_registry()
    install_trace_funcs(reg)
    register_classes(reg, ["wormhole/errors.py", "wormhole/_dilation/outbound.py", "wormhole/_dilation/inbound.py"])
    install_spec(reg)
    for c in contracts:
        if c.target not in exclude:
            reg.contracts[c.target] = c
    reg.class_fields["Outbound"] = dict(OUTBOUND_FIELDS)
    reg.class_fields["Conn"] = dict(CONN_FIELDS)
    reg.class_fields["Inbound"] = dict(INBOUND_FIELDS)
    reg.boundary["Conn.send_record"] = conn_send_record
    reg.boundary["Conn.pauseProducing"] = conn_pause
    reg.boundary["Conn.resumeProducing"] = conn_resume
    reg.boundary["Producer.resumeProducing"] = producer_resume
    reg.boundary["Producer.pauseProducing"] = producer_pause
    reg.ext_models["new:PullToPush"] = new_pull_to_push
    reg.ext_models["isinstance_opaque:Producer"] = isinstance_producer
    reg.ext_models["builtins.set"] = set_of_seq
    reg.seq_op_hook = seq_op_hook
    reg.input_as_boundary = True
    return reg


TRUSTED_COMMON = [
    "z3/cvc5", "pyvc semantics of the Python subset",
    "definition (not an assumption): first index ix(s, x) := indexof(s, [x], 0) of the solvers' sequence theory - the term "
    "pyvc.models uses for list.index / deque.remove; the list facts handed to the solvers (props/dilq.py seq_op_hook, "
    "first_index_facts, set_of_seq) are instances of the `seq-lemmas` obligations, proved for sequences of any length from "
    "the defining terms of popleft/extend/clear/append/rotate(-1)/remove (op_def; checked to be the very term "
    "pyvc.models._m_seq built) - trusted there: the solvers' semantics of seq.extract/++/indexof/contains/nth, and that "
    "pyvc.models' terms mean what deque/list do (part of 'pyvc semantics'; cross-checked on all lists up to length 3 by list-op-facts)",
    "PullToPush(...) returns a new object, distinct from every registered producer",
]


# ------------------------------------------------------------------ contracts of Outbound (used by C10 and C15)
from pyvc.contract import Contract   # noqa: E402

FRAME_Q = [("frame.queue", "self._outbound_queue == old(self._outbound_queue)"),
           ("frame.seqnum", "self._next_outbound_seqnum == old(self._next_outbound_seqnum)")]
SAME_CONN = ("frame.connection", "conn_same(self, old(self))")
ALLMOD = ["_outbound_queue", "_queued_unsent", "_next_outbound_seqnum", "_paused", "_all_producers", "_paused_producers",
          "_unpaused_producers", "_subchannel_producers", "_connection.sent"]


QF = ["_outbound_queue", "_queued_unsent", "_next_outbound_seqnum"]
REPLAY = {"driver": "dilq_replay:replay"}     # replay/dilq_replay.py: real objects with recording fakes around them


def fields(*names):
    return {n: OUTBOUND_FIELDS[n] for n in names}


def outbound_contracts():
    P = ["C10", "C15"]
    cs = []
    PF = ["_paused", "_all_producers", "_paused_producers", "_unpaused_producers"]
    ALLF = [f for f in OUTBOUND_FIELDS if f != "_cooperator"]
    N, Q, U_ = "self._next_outbound_seqnum", "self._outbound_queue", "self._queued_unsent"
    NEWQ = f"new_part({Q}, old({Q}))"      # what was queued during the call (by producers in their turn)
    # ---- records
    cs.append(Contract(
        OB + "queue_and_send_record", props=P, params={"r": SEQREC}, self_fields=fields(*ALLF), assert_mode="prove",
        requires=["len(self._outbound_queue) <= self._next_outbound_seqnum - 1",
                  "contig(self._outbound_queue, self._next_outbound_seqnum - 1)",
                  "seqnum(r) == self._next_outbound_seqnum - 1"] + INV_Q[2:] + INV_P,
        ensures=named(INV_W) + [c for c in rely_clauses("[r]") if c[0] != "rely.seqnum-counts-queued"] + [
            SAME_CONN, ("frame.seqnum", "self._next_outbound_seqnum == old(self._next_outbound_seqnum)"),
            ("c10.backlog-first", "len(old(self._queued_unsent)) == 0 or conn_sent(self) == old(conn_sent(self))"),
            ("c10.sent-now-iff-connected-and-no-backlog",
             "self._connection is None or len(old(self._queued_unsent)) > 0 or "
             "(conn_sent(self) == old(conn_sent(self)) + [r] and len(self._queued_unsent) == 0)"),
            ("c10.queued-for-later-otherwise",
             "self._connection is None or len(old(self._queued_unsent)) == 0 or "
             "self._queued_unsent == old(self._queued_unsent) + [r]")],
        modifies=["_outbound_queue", "_queued_unsent", "_paused", "_paused_producers", "_unpaused_producers",
                  "_connection.sent"],
        note="re-entrant (called from a producer's turn): needs and re-establishes only the weak invariant; the record "
             "is always queued; it is handed to the connection now iff there is one and nothing older is still unsent"))
    cs.append(Contract(
        OB + "send_if_connected", props=["C10", "C15", "C16"], params={"r": "union[nt[KCM],nt[Ping],nt[Pong],nt[Ack]]"},
        self_fields=fields(*ALLF), assert_mode="prove", requires=INV, inline=True,
        ensures=named(INV) + [SAME_CONN, ("c16.control-record-goes-out-whenever-there-is-a-connection",
                  "bcalls('send_record') == ite(self._connection is not None, 1, 0)"),
                 ("c16.that-record-unchanged", "self._connection is None or bcall_arg('send_record', 0, 0) == r"),
                 ("c10.not-queued", f"{Q} == old({Q}) and self._queued_unsent == old(self._queued_unsent) and "
                                    f"{N} == old({N})")],
        modifies=["_paused", "_paused_producers", "_unpaused_producers", "_connection.sent"],
        note="KCM / Ping / Pong / Ack carry no seqnum: they are handed to the current connection at once, whatever the "
             "flow-control state (a paused transport still buffers them), and dropped when there is none"))
    cs.append(Contract(
        OB + "handle_ack", props=["C10"], params={"resp_seqnum": "int"}, self_fields=fields(*QF),
        requires=INV_Q[:3],
        ensures=named(INV_Q[:3]) + [
            ("c10.acked-are-retired", "all_above(self._outbound_queue, resp_seqnum) and all_above(self._queued_unsent, resp_seqnum)"),
            ("c10.only-acked-are-dropped", "dropped_acked(old(self._outbound_queue), self._outbound_queue, resp_seqnum) and "
                                           "dropped_acked(old(self._queued_unsent), self._queued_unsent, resp_seqnum)"),
            ("c10.first-unretired", "self._next_outbound_seqnum - len(self._outbound_queue) <= "
                                    "max(old(self._next_outbound_seqnum - len(self._outbound_queue)), resp_seqnum + 1)")],
        modifies=["_outbound_queue", "_queued_unsent"],
        loops={0: {"ghost_init": {"a": "0"}, "ghost_update": {"a": "a + 1"},
                   "invariant": ["0 <= a and a <= len(at_entry(self._outbound_queue))",
                                 "len(self._outbound_queue) == len(at_entry(self._outbound_queue)) - a",
                                 "dropped_acked(at_entry(self._outbound_queue), self._outbound_queue, resp_seqnum)"]},
               1: {"ghost_init": {"b": "0"}, "ghost_update": {"b": "b + 1"},
                   "invariant": ["0 <= b and b <= len(at_entry(self._queued_unsent))",
                                 "len(self._queued_unsent) == len(at_entry(self._queued_unsent)) - b",
                                 "dropped_acked(at_entry(self._queued_unsent), self._queued_unsent, resp_seqnum)",
                                 "all_above(self._outbound_queue, resp_seqnum)",
                                 "contig(self._outbound_queue, self._next_outbound_seqnum)",
                                 "len(self._outbound_queue) <= self._next_outbound_seqnum"]}},
        note="every record with seqnum <= resp_seqnum leaves both deques, nothing else does, order is kept"))
    # ---- pause / resume
    PINV = INV_P[:4]
    cs.append(Contract(
        OB + "pauseProducing", props=P, params={}, self_fields=fields(*PF), assert_mode="prove",
        requires=PINV,
        ensures=named(PINV) + [
            ("c15.paused", "self._paused"),
            ("c15.every-producer-paused", "no_member(self._unpaused_producers)"),
            ("c15.nobody-forgotten", "set_union_is(self._paused_producers, old(self._paused_producers), old(self._unpaused_producers))")],
        modifies=["_paused", "_paused_producers", "_unpaused_producers"],
        loops={0: {"header": "for p in self._all_producers",
                   "invariant": ["self._paused", PINV[0], PINV[2],
                                 "none_before(self._all_producers, _i, self._unpaused_producers)",
                                 "moved_to_paused(self._paused_producers, self._unpaused_producers, "
                                 "at_entry(self._paused_producers), at_entry(self._unpaused_producers))"],
                   "body_ensures": [
                       "not at_iter(p in self._unpaused_producers) or (iter_bcalls('pauseProducing') == 1 and "
                       "iter_bcall_arg('pauseProducing', 0) == p)",
                       "at_iter(p in self._unpaused_producers) or iter_bcalls('pauseProducing') == 0"]}},
        note="every producer booked as un-paused is told pauseProducing() exactly once (the rotation has no duplicates) "
             "and moved to the paused set; a second call is a no-op"))
    cs.append(Contract(
        OB + "_get_next_unpaused_producer", props=["C15"], params={}, self_fields=fields(*PF), inline=True,
        loops={0: {"invariant": ["self._all_producers == at_entry(self._all_producers)"]}},
        note="inlined into resumeProducing; its `while True` returns in the first iteration"))
    stream = ("conn_sent(self) + self._queued_unsent == {0}(conn_sent(self)) + {0}(self._queued_unsent) + W")
    cs.append(Contract(
        OB + "resumeProducing", props=P, params={}, self_fields=fields(*ALLF), assert_mode="prove",
        requires=INV + ["self._connection is not None"],
        ensures=named(INV) + [
            SAME_CONN,
            ("c10.drained-unless-paused-again", "not old(self._paused) or self._paused or len(self._queued_unsent) == 0"),
            ("c10.queue-only-grows", f"{Q} == old({Q}) + {NEWQ} and {N} == old({N}) + len({NEWQ})"),
            ("c10.stream-to-connection-conserved", stream.format("old").replace("W", NEWQ)),
            ("c15.noop-when-not-paused", "old(self._paused) or (self._paused_producers == old(self._paused_producers) and "
                                         "self._unpaused_producers == old(self._unpaused_producers) and not self._paused)")],
        internal_ensures=[
            # "never loses a wake-up": a resume from the transport ends un-paused, unless the transport paused us again in
            # the meantime - which it can only do from inside a write or a producer's turn of the loop (loop invariant:
            # paused => at least one such chance occurred)
            ("c15.a-wake-up-is-never-dropped", "not old(self._paused) or not self._paused or passed_loop(0)")],
        modifies=ALLMOD,
        loops={0: {"header": "not self._paused",
                   "modifies": [("self", "_paused"), ("self", "_connection", "sent"), ("self", "_outbound_queue"),
                                ("self", "_next_outbound_seqnum"), ("self", "_subchannel_producers"), ("self", "_all_producers")],
                   "ghost_init": {"W": f"empty_seq('{SEQREC}')", "PZ": "0"},
                   "ghost_update": {"W": "W + writes('iter')", "PZ": "PZ + pause_chances('iter')"},
                   "invariant": INV_W + [f"{Q} == at_entry({Q}) + W", f"{N} == at_entry({N}) + len(W)", stream.format("at_entry"),
                                         "PZ >= 0", "not self._paused or PZ >= 1"],
                   "body_ensures": [
                       "len(at_iter(self._queued_unsent)) == 0 or (iter_bcalls('resumeProducing') == 0 and "
                       "iter_bcalls('send_record') == 1 and iter_bcall_arg('send_record', 0) == at_iter(self._queued_unsent)[0])",
                       "iter_bcalls('resumeProducing') <= 1",
                       "iter_bcalls('resumeProducing') == 0 or iter_bcall_arg('resumeProducing', 0) == at_iter(self._all_producers)[0]",
                       "iter_bcalls('resumeProducing') == 0 or at_iter(self._all_producers)[0] in at_iter(self._paused_producers)"]}},
        note="drains the unsent backlog FIFO while not paused, only then gives producers their turn: one at a time, the head "
             "of the rotation, which moves to the back; stops as soon as pauseProducing() arrives (possibly from inside "
             "send_record or a producer's turn); ends either paused again or with nobody left paused"))
    cs.append(Contract(
        OB + "use_connection", props=P, params={"c": "obj[Conn]"}, self_fields=fields(*ALLF), assert_mode="prove",
        requires=INV + ["self._connection is None"],
        ensures=named(INV) + [
            ("c10.connection-set", "conn_is(self, c)"),
            ("c10.drained-unless-paused-again", "self._paused or len(self._queued_unsent) == 0"),
            ("c10.queue-only-grows", f"{Q} == old({Q}) + {NEWQ} and {N} == old({N}) + len({NEWQ})"),
            ("c10.everything-unacked-replayed-first", f"c.sent + {U_} == old(c.sent) + old({Q}) + {NEWQ}")],
        modifies=ALLMOD + ["_connection", "c.sent"],
        note="the whole un-acked queue becomes the backlog of the new connection, ahead of anything written later"))
    cs.append(Contract(
        OB + "stop_using_connection", props=P, params={}, self_fields=fields(*ALLF), assert_mode="prove",
        requires=INV + ["self._connection is not None"],
        ensures=named(INV) + FRAME_Q + [
            ("c10.no-connection", "self._connection is None"),
            ("c10.nothing-unsent", "len(self._queued_unsent) == 0"),
            ("c15.paused", "self._paused"),
            ("c15.every-producer-paused", "no_member(self._unpaused_producers)"),
            ("c15.nobody-forgotten", "set_union_is(self._paused_producers, old(self._paused_producers), old(self._unpaused_producers))")],
        modifies=["_connection", "_queued_unsent", "_paused", "_paused_producers", "_unpaused_producers"],
        note="the un-acked queue is kept for the next connection; every producer is paused"))
    # ---- producer registration
    RF = ["_subchannel_producers", "_all_producers", "_paused_producers", "_unpaused_producers", "_paused", "_cooperator"]
    RINV = PINV + [INV_P[5]]
    NEWP = "self._subchannel_producers[sc]"
    ALLP, PP, UP = "self._all_producers", "self._paused_producers", "self._unpaused_producers"
    cs.append(Contract(
        OB + "subchannel_registerProducer", props=["C15"], params={"sc": SUBCH, "producer": PROD, "streaming": "bool"},
        self_fields={f: OUTBOUND_FIELDS[f] for f in RF}, assert_mode="prove",
        requires=RINV + ["not streaming or index_of(self._all_producers, producer) < 0"],
        raises_exactly={"ValueError": "sc in self._subchannel_producers"},
        ensures_raise={"ValueError": [("nothing-changed", f"{ALLP} == old({ALLP}) and {PP} == old({PP}) and {UP} == old({UP})"),
                                      ("nobody-told", "len(bcall_names()) == 0")]},
        ensures=named(RINV) + [
            ("c15.registered", f"sc in self._subchannel_producers and (not streaming or {NEWP} == producer) and "
                               f"(streaming or is_pull({NEWP}))"),
            ("c15.joins-the-back-of-the-rotation", f"{ALLP} == old({ALLP}) + [{NEWP}]"),
            ("c15.booked-paused-iff-paused",
             f"(not self._paused or (set_plus({PP}, old({PP}), {NEWP}) and same_set({UP}, old({UP})))) and "
             f"(self._paused or (set_plus({UP}, old({UP}), {NEWP}) and same_set({PP}, old({PP}))))"),
            ("c15.push-producer-paused-at-once-iff-paused",
             "not streaming or ((not self._paused or (bcalls('pauseProducing') == 1 and "
             "bcall_arg('pauseProducing', 0, 0) == producer and len(bcall_names()) == 1)) and "
             "(self._paused or len(bcall_names()) == 0))"),
            ("c15.pull-adapter-started-paused-iff-paused",
             "streaming or (bcalls('startStreaming') == 1 and bcall_arg('startStreaming', 0, 0) == self._paused and "
             "len(bcall_names()) == 1)")],
        modifies=["_subchannel_producers", "_all_producers", "_paused_producers", "_unpaused_producers"],
        note="re-entrant. A producer registered while the Outbound is paused (send buffer full, or no connection) is booked "
             "paused and told so before it can write; a pull producer is wrapped in a PullToPush adapter that is started "
             "paused. Precondition: the same producer object is not registered for two subchannels"))
    OLDP = "old(self._subchannel_producers[sc])"
    cs.append(Contract(
        OB + "subchannel_unregisterProducer", props=["C15"], params={"sc": SUBCH},
        self_fields={f: OUTBOUND_FIELDS[f] for f in RF}, assert_mode="prove",
        requires=RINV,
        raises_exactly={"KeyError": "sc not in self._subchannel_producers"},
        ensures=named(RINV) + [
            ("c15.unregistered", "sc not in self._subchannel_producers"),
            ("c15.leaves-the-rotation", f"removed_at({ALLP}, old({ALLP}), {OLDP}) and index_of({ALLP}, {OLDP}) < 0"),
            ("c15.leaves-both-sets", f"set_minus({PP}, old({PP}), {OLDP}) and set_minus({UP}, old({UP}), {OLDP})"),
            ("c15.pull-adapter-stopped", f"bcalls('stopStreaming') == ite(is_pull({OLDP}), 1, 0) and "
                                         "len(bcall_names()) == bcalls('stopStreaming')")],
        modifies=["_subchannel_producers", "_all_producers", "_paused_producers", "_unpaused_producers"],
        note="re-entrant (FileSender unregisters itself from inside resumeProducing)"))
    cs.append(Contract(
        OB + "subchannel_closed", props=["C15"], params={"scid": "int", "sc": SUBCH},
        self_fields={f: OUTBOUND_FIELDS[f] for f in RF}, assert_mode="prove",
        requires=RINV,
        ensures=named(RINV) + [
            ("c15.unregistered", "sc not in self._subchannel_producers"),
            ("c15.its-producer-leaves", f"implies(old(sc in self._subchannel_producers), removed_at({ALLP}, old({ALLP}), {OLDP}) and "
                                        f"set_minus({PP}, old({PP}), {OLDP}) and set_minus({UP}, old({UP}), {OLDP}))"),
            ("c15.nothing-else-changes", f"implies(not old(sc in self._subchannel_producers), {ALLP} == old({ALLP}) and "
                                         f"{PP} == old({PP}) and {UP} == old({UP}))")],
        modifies=["_subchannel_producers", "_all_producers", "_paused_producers", "_unpaused_producers"]))
    cs.append(Contract(
        OB + "stopProducing", props=["C15"], params={}, self_fields=fields(*PF), assert_mode="prove",
        requires=PINV,
        ensures=named(PINV) + [
            ("c15.paused", "self._paused"),
            ("c15.every-producer-paused", "no_member(self._unpaused_producers)"),
            ("c15.nobody-forgotten", "set_union_is(self._paused_producers, old(self._paused_producers), old(self._unpaused_producers))")],
        modifies=["_paused", "_paused_producers", "_unpaused_producers"]))
    for c in cs:
        c.qf_feasibility = True
        c.replay = REPLAY
    return cs


# ------------------------------------------------------------------ Inbound (C15)
def conn_pause(it, recv, meth, args, kwargs, fr):
    """connection.pauseProducing(): ghost `paused_reading` := True"""
    if isinstance(recv, VObj) and "paused_reading" in recv.fields:
        recv.fields["paused_reading"] = VBool(True)
    it.ctx.event("bcall", "Conn", "pauseProducing", list(args), {})
    return NONE


def conn_resume(it, recv, meth, args, kwargs, fr):
    if isinstance(recv, VObj) and "paused_reading" in recv.fields:
        recv.fields["paused_reading"] = VBool(False)
    it.ctx.event("bcall", "Conn", "resumeProducing", list(args), {})
    return NONE


IB_F = {"_paused_subchannels": f"set[{SUBCH}]", "_connection": "opt[obj[Conn]]"}
IB_INV = "self._connection is None or reading_paused(self) == bool(self._paused_subchannels)"
PSC = "self._paused_subchannels"


def inbound_contracts():
    cs = []
    inv = [("inv.connection-paused-iff-some-subchannel-paused", IB_INV)]
    same_conn = ("frame.connection", "conn_same(self, old(self))")
    cs.append(Contract(
        IB + "subchannel_pauseProducing", props=["C15"], params={"sc": SUBCH}, self_fields=IB_F,
        requires=[IB_INV], ensures=inv + [
            same_conn, ("c15.recorded", f"set_plus({PSC}, old({PSC}), sc)"),
            ("c15.connection-paused-on-first-request",
             f"bcalls('pauseProducing') == ite(self._connection is not None and not bool(old({PSC})), 1, 0) and "
             "len(bcall_names()) == bcalls('pauseProducing')")],
        modifies=["_paused_subchannels", "_connection.paused_reading"]))
    for nm in ("subchannel_resumeProducing", "subchannel_stopProducing"):
        cs.append(Contract(
            IB + nm, props=["C15"], params={"sc": SUBCH}, self_fields=IB_F,
            requires=[IB_INV], ensures=inv + [
                same_conn, ("c15.recorded", f"set_minus({PSC}, old({PSC}), sc)"),
                ("c15.connection-resumed-when-last-request-goes",
                 f"bcalls('resumeProducing') == ite(self._connection is not None and bool(old({PSC})) and not bool({PSC}), 1, 0) "
                 "and len(bcall_names()) == bcalls('resumeProducing')")],
            modifies=["_paused_subchannels", "_connection.paused_reading"]))
    cs.append(Contract(
        IB + "use_connection", props=["C15"], params={"c": "obj[Conn]"}, self_fields=IB_F,
        requires=["self._connection is None", "not c.paused_reading"],
        ensures=inv + [("c15.connection-set", "conn_is(self, c)"),
                       ("c15.pause-carried-over", f"c.paused_reading == bool({PSC})"),
                       ("frame.requests", f"{PSC} == old({PSC})")],
        modifies=["_connection", "c.paused_reading"],
        note="a replacement connection (created reading) is paused at once iff some subchannel still wants a pause"))
    cs.append(Contract(
        IB + "stop_using_connection", props=["C15"], params={}, self_fields=IB_F,
        requires=[IB_INV], ensures=inv + [("c15.no-connection", "self._connection is None"),
                                          ("c15.requests-kept", f"{PSC} == old({PSC})")],
        modifies=["_connection"]))
    for c in cs:
        c.qf_feasibility = True
        c.replay = REPLAY
    return cs


# ------------------------------------------------------------------ the stated list facts, proved for all lengths
def op_def(meth, old, x=None, t=None):
    """defining semantics of old.<meth>(...), term for term what pyvc.models._m_seq builds:
    (condition under which the operation raises instead, or None; the new sequence)"""
    n = z3.Length(old)
    if meth == "popleft":
        return n == 0, z3.Extract(old, 1, z3.Length(old) - 1)            # old[1:]
    if meth == "extend":
        return None, z3.Concat(old, t)                                   # old + t
    if meth == "clear":
        return None, z3.Empty(old.sort())
    if meth == "append":
        return None, z3.Concat(old, z3.Unit(x))                          # old + [x]
    if meth == "rotate":                                                 # rotate(-1): old[1:] + old[:1]
        return None, z3.If(n == 0, old, z3.Concat(z3.Extract(old, 1, n - 1), z3.Extract(old, 0, 1)))
    if meth == "remove":                                                 # old[:k] + old[k+1:], k = first index of x
        idx = z3.IndexOf(old, z3.Unit(x), 0)
        return idx < 0, z3.Concat(z3.Extract(old, 0, idx), z3.Extract(old, idx + 1, n - idx - 1))
    return None, None


def _flatten(f, es, tag):
    """a fact as a list of (extra hypotheses, goal, skolem constants): conjunctions split, antecedents moved to the
    hypotheses, a universally quantified element variable replaced by a fresh constant (sound and complete for a goal)"""
    if z3.is_and(f):
        return [r for c in f.children() for r in _flatten(c, es, tag)]
    if z3.is_implies(f):
        return [([f.arg(0)] + hs, g, sks) for hs, g, sks in _flatten(f.arg(1), es, tag)]
    if z3.is_quantifier(f) and f.is_forall() and f.num_vars() == 1 and f.var_sort(0) == es:
        y0 = z3.Const(f"y0!{tag}", es)
        return [(hs, g, [y0] + sks) for hs, g, sks in _flatten(z3.substitute_vars(f.body(), y0), es, tag)]
    return [([], f, [])]


def _mentions_ix(e, of):
    """does e talk about the first index of something in the sequence `of`"""
    stack, seen = [e], set()
    while stack:
        t = stack.pop()
        if t.get_id() in seen:
            continue
        seen.add(t.get_id())
        if z3.is_app(t) and t.decl().name().startswith("first_index_") and t.arg(0).eq(of):
            return True
        stack.extend(t.children())
    return False


def _ground_instances(hyps, old, new, x, sks):
    """ground instances of the universally quantified hypotheses (one bound variable) at the terms a proof about the
    first index of the skolem element y0 talks about: y0, the element operated on, the head; the first indices of y0
    in old and new and their neighbours; the position operated on.  Computed by substitution into the hypotheses -
    nothing is stated by hand.  (solve.instantiate_hyps only looks at index terms that occur in the goal.)"""
    if not sks:
        return []
    elems = list(sks) + ([x] if x is not None else []) + [old[0]]
    ints = []
    for y in sks:
        for t in (ix(old, y), ix(new, y)):
            ints += [t, t - 1, t + 1]
    ints += [L(old) - 1, L(old), z3.IntVal(0)]
    if x is not None:
        ints += [ix(old, x), ix(old, x) - 1, ix(old, x) + 1]
    out = []
    for h in hyps:
        if z3.is_quantifier(h) and h.is_forall() and h.num_vars() == 1:
            for t in (elems if h.var_sort(0) == old.sort().basis() else ints if h.var_sort(0) == IntS else []):
                out.append(z3.substitute_vars(h.body(), t))
    return out


FACT_NAMES = {      # obligation names of the facts, in the order op_facts (for append: seq_lemmas) lists them
    "popleft": ["length", "elements-move-down-by-one"],
    "extend": ["length", "old-part-kept", "new-part-follows"],
    "clear": ["length"],
    "append": ["length", "last-is-the-new-element", "old-part-kept", "first-index-of-every-element"],
    "rotate": ["length", "head-to-back.others-move-down.first-indices-move-down", "first-index-of-head-when-distinct"],
    "remove": ["length", "before-the-removed-position-kept", "after-it-move-down-by-one", "first-indices-of-the-others",
               "removed-element-absent-when-distinct"],
}
LEMMA_OPS = ("popleft", "extend", "clear", "append", "rotate", "remove")


def seq_lemmas(wrong=None):
    """the proof obligations behind everything seq_op_hook / first_index_facts / set_of_seq hand to the solvers, over
    ARBITRARY sequences (any length): [(name, hypotheses, goal, what it says)].
      fi.*   first_index_facts hold for the defining term ix_def(s, y) = indexof(s, [y], 0), for every s
      set.*  x in set(s)  <=>  some s[i] == x  <=>  contains(s, [x])  <=>  first index exists
      op.*   every fact of op_facts(meth, old, new, ..) where new is the defining term op_def(meth, old, ..) of the
             operation and the operation does not raise; hypotheses: the characterisation fi.* of ix on old and new
             (proved above for every sequence), ix(old, x) == ix_def(old, x) for remove (the definition, at the one
             instance the engine's term mentions), and the facts of the same operation proved before it.
    `wrong`: a function that falsifies facts (self-test of the obligations, tools only)"""
    out = []
    E = {"P": PS, "R": sort_of(SEQREC)}
    for tag, es in E.items():
        S = z3.SeqSort(es)
        s = z3.Const(f"s!{tag}", S)
        x = z3.Const(f"x!{tag}", es)
        if tag == "P":
            f1, f2 = first_index_facts(s, es, ix=ix_def)
            out.append(("fi.in-range-and-hits", [], f1, "-1 <= indexof(s,[y]) < len(s), and s[indexof(s,[y])] == y when >= 0"))
            out.append(("fi.first", [], f2, "0 <= indexof(s,[s[i]]) <= i for every position i"))
            i = z3.Int("i!sm")
            fi = first_index_facts(s, es)
            out.append(("set.member-iff-contains", [], z3.Contains(s, z3.Unit(x)) == (ix_def(s, x) >= 0),
                        "contains(s,[x]) <=> indexof(s,[x]) >= 0"))
            out.append(("set.member-iff-some-element", fi,
                        z3.Exists([i], z3.And(0 <= i, i < L(s), s[i] == x)) == (ix(s, x) >= 0),
                        "x in set(s), i.e. some s[i] == x  <=>  first index exists"))
        for meth in LEMMA_OPS:
            opaque = tag == "P"
            if not opaque and meth in ("rotate", "remove"):
                continue          # only used on the producer rotation
            t = z3.Const(f"t!{tag}", S)
            raises, new = op_def(meth, s, x, t)
            hyps = []
            if raises is not None:
                hyps.append(z3.Not(raises))
            if opaque:
                hyps += first_index_facts(s, es)
                if meth == "remove":
                    hyps.append(ix(s, x) == ix_def(s, x))
            facts = op_facts(meth, s, new, x, t, opaque)
            if meth == "append":
                # what pyvc.models.seq_append states about s + [x] (same engine, same family of facts)
                j = z3.Int("j!app")
                facts = [(None, L(new) == L(s) + 1), (None, new[L(s)] == x),
                         (None, z3.ForAll([j], z3.Implies(z3.And(0 <= j, j < L(s)), new[j] == s[j])))] + facts
            if wrong is not None:
                facts = wrong(meth, tag, facts, s, new, x, t)
            # the characterisation of ix on `new` is itself one of the facts (last): as a hypothesis it is an instance
            # of fi.* (proved for every sequence), so the facts about ix(new, .) may use it
            fi_new = first_index_facts(new, es) if opaque and meth in ("append", "rotate", "remove") else []
            # two layers.  (A) facts about lengths and elements: proved about the defining term itself (sequence theory).
            # (B) facts about first indices: proved for ANY sequence N that has the (A) facts and the characterisation
            # fi.* - the defining term is replaced by a constant N in hypotheses and goal alike, which is the more
            # general statement (its instance at N := the defining term is the fact), and keeps extract/++ out of
            # the first-index arguments (the solvers are erratic on the mixture under load).
            N = z3.Const(f"new!{meth}{tag}", S)
            absn = lambda e: z3.substitute(e, (new, N))     # noqa: E731
            proved = []
            for k, (cond, f) in enumerate(facts):
                h = list(hyps) + list(fi_new) + proved
                if any(f.eq(g) for g in fi_new):
                    continue      # instance of fi.* at the term `new`
                if cond == "distinct":
                    h.append(distinct_z(s))
                subs, done = [], []
                for extra, g, sks in _flatten(f, es, f"{meth}{tag}{k}"):
                    hh = h + done + extra
                    if opaque and _mentions_ix(g, new):
                        hh = [absn(e) for e in hh]
                        subs.append((hh + _ground_instances(hh, s, N, x, sks), absn(g)))
                    else:
                        subs.append((hh + _ground_instances(hh, s, new, x, sks), g))
                    if not sks:
                        done.append(z3.Implies(z3.And(extra), g) if extra else g)     # conjuncts proved before: usable
                nm = FACT_NAMES[meth][k] if wrong is None and k < len(FACT_NAMES[meth]) else str(k)
                out.append((f"op.{meth}[{tag}].{nm}", subs, None, str(f).replace("\n", " ")[:160]))
                if cond is None:
                    proved.append(f)
    return out


def seq_lemmas_task(tier, seed, wrong=None):
    """discharges seq_lemmas() with the ordinary pipeline (goal skolemisation, ground instances, z3 schedule, cvc5)"""
    import time
    from pyvc.runner import ob
    from pyvc.ctx import VC
    from pyvc import solve
    t0 = time.time()
    timeout = 10000 if tier == "quick" else 60000
    obs = []
    rank = {"discharged": 0, "unknown": 1, "disagree": 2, "failed": 3}
    for name, hyps, goal, src in seq_lemmas(wrong):
        full = "props/dilq.py:seq-lemmas." + name
        subs = hyps if goal is None else [(hyps, goal)]
        status, backends, secs, hashes, detail, trivial = "discharged", [], 0.0, [], None, True
        for hh, g in subs:
            v = solve.solve_vc(VC(full, list(hh), g, {"kind": "lemma", "src": src}), timeout, use_cvc5=True,
                               cross=(tier == "thorough"))
            st = v.status
            if st == "failed" and "candidate" in (v.backend or ""):
                st = "unknown"      # a model of the ground part only: no refutation of a lemma (nothing to replay natively)
            secs += v.secs
            hashes.append(v.smt_hash or "")
            trivial = trivial and v.trivial
            backends += [b for b in (v.backend or "").split(",") if b not in backends]
            if rank[st] > rank[status]:
                status = st
                detail = {"backend": v.backend, "goal": str(g)[:400],
                          "model": str(v.model)[:1500] if v.model is not None else None}
        import hashlib
        obs.append(ob(full, status, ",".join(backends), secs, trivial, None, {"kind": "lemma", "src": src},
                      hashlib.sha256("".join(hashes).encode()).hexdigest()[:16], detail if status != "discharged" else None))
    return {"obligations": obs, "info": {"target": "props/dilq.py:<list facts for all lengths>", "sha": None, "lines": None,
                                         "paths": len(obs), "wall": round(time.time() - t0, 2)}}


# ------------------------------------------------------------------ validation of the stated list facts
def list_facts_task(tier, seed):
    """every fact of op_facts / first_index_facts, checked against CPython's list semantics on all lists of
    length <= 3 over three values (and one foreign value): the first-index function is given its concrete
    table, the fact must then be valid.  Not the proof of the facts (that is seq_lemmas_task, for all lengths, from the
    solver-side defining terms); this ties the same formulas to CPython's behaviour on small lists."""
    import itertools
    import time
    from pyvc.runner import ob
    t0 = time.time()
    S = z3.SeqSort(IntS)
    dom = [0, 1, 2]

    def val(lst):
        if not lst:
            return z3.Empty(S)
        us = [z3.Unit(z3.IntVal(v)) for v in lst]
        return us[0] if len(us) == 1 else z3.Concat(*us)

    def table(lst):
        y = z3.Int("y!tb")
        e = z3.IntVal(-1)
        for v in reversed(dom + [3]):
            e = z3.If(y == v, (lst.index(v) if v in lst else -1), e)
        return z3.ForAll([y], ix(val(lst), y) == e)

    bad, n = [], 0
    for ln in range(0, 4):
        for old in itertools.product(dom, repeat=ln):
            old = list(old)
            cases = [("append", old + [v], v, None) for v in dom]
            if old:
                cases.append(("popleft", old[1:], None, None))
                cases.append(("rotate", old[1:] + old[:1], None, None))
                for v in set(old):
                    k = old.index(v)
                    cases.append(("remove", old[:k] + old[k + 1:], v, None))
            else:
                cases.append(("rotate", [], None, None))
            cases.append(("clear", [], None, None))
            for ext in ([], [1], [2, 0]):
                cases.append(("extend", old + ext, None, ext))
            for meth, new, x, t in cases:
                facts = op_facts(meth, val(old), val(new), z3.IntVal(x) if x is not None else None,
                                 val(t) if t is not None else None, True)
                facts += [(None, f) for f in first_index_facts(val(old), IntS)]
                dist = len(set(old)) == len(old)
                for cond, f in facts:
                    if cond == "distinct" and not dist:
                        continue
                    n += 1
                    s = z3.Solver()
                    s.set("timeout", 5000)
                    s.add(table(old), table(new), z3.Not(f))
                    r = s.check()
                    if r != z3.unsat:
                        bad.append((meth, old, x, t, str(r), str(f)[:120]))
    name = "props/dilq.py:list-op-facts.valid-on-all-small-lists"
    o = ob(name, "discharged" if not bad else "failed", "z3", time.time() - t0, False, None,
           {"kind": "model-validation", "definite": True,
            "src": f"{n} (operation, list, fact) instances agree with CPython list semantics"},
           smt_hash="list-op-facts", detail=bad[:5] or None)
    return {"obligations": [o], "info": {"target": "props/dilq.py:<stated list facts>", "sha": None, "lines": None,
                                         "paths": n, "wall": round(time.time() - t0, 2)}}
