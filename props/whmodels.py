"""Library models shared by C01 / C02 / C18: the assumed contracts of nacl SecretBox, HKDF,
hashlib.sha256, spake2, json, binascii and of twisted's Deferred / Failure.  Every model is an
uninterpreted function plus the ground instances of its stated contract; each one is listed in
the TRUSTED / ASSUMPTIONS of the modules that install it."""
import z3

from pyvc import models
from pyvc.models import uf
from pyvc.values import *   # noqa
from pyvc.values import J, OJ

HKDF_MAX = 255 * 32
ASCII_RE = z3.Star(z3.Range(chr(0), chr(127)))
HEX_RE = z3.Star(z3.Union(z3.Range("0", "9"), z3.Range("a", "f")))

F_SHA = lambda: uf("sha256", StringS, StringS)                                   # noqa: E731
F_HKDF = lambda: uf("hkdf_sha256", StringS, IntS, BoolS, StringS, StringS, StringS)   # noqa: E731  key,len,salt is None,salt,info
F_SEAL = lambda: uf("sbox_seal", StringS, StringS, StringS, StringS)             # noqa: E731  key,nonce,plaintext -> body
F_VALID = lambda: uf("sbox_valid", StringS, StringS, BoolS)                      # noqa: E731  key,ciphertext
F_OPEN = lambda: uf("sbox_open", StringS, StringS, StringS)                      # noqa: E731  key,ciphertext -> plaintext
F_FINISH = lambda: uf("spake2_finish", StringS, StringS, StringS, StringS, StringS)   # noqa: E731  pw,id,own msg,peer msg
F_FINOK = lambda: uf("spake2_accepts", StringS, StringS, StringS, StringS, BoolS)     # noqa: E731
F_DUMPS = lambda: uf("json_dumps", J, StringS)                                   # noqa: E731
F_LOADS = lambda: uf("json_loads", StringS, J)                                   # noqa: E731
F_JOK = lambda: uf("json_parses", StringS, BoolS)                                # noqa: E731
F_NFC = lambda: uf("unicode_normalize_NFC", StringS, StringS)                    # noqa: E731
F_UTF8 = lambda: uf("encode_utf8", StringS, StringS)                             # noqa: E731


def _bytes(it, v, what):
    v = it.force(v)
    if not (isinstance(v, VStr) and v.kind == "bytes"):
        it.raise_("TypeError", VStr(f"{what} must be bytes"))
    return v


# ------------------------------------------------------------------ terms (with their ground axioms)
def sha_of(it, bz):
    r = F_SHA()(bz)
    it.ctx.assume(z3.Length(r) == 32)
    return r


def hkdf_of(it, kz, nz, salt_none, saltz, infoz):
    r = F_HKDF()(kz, nz, salt_none, saltz, infoz)
    it.ctx.assume(z3.Implies(z3.And(nz >= 0, nz <= HKDF_MAX), z3.Length(r) == nz))
    return r


def seal_of(it, kz, nz, pz):
    """nonce ++ body; body is 16 bytes (Poly1305 tag) longer than the plaintext.  The ground
    instance of decrypt(encrypt(p)) == p is attached."""
    body = F_SEAL()(kz, nz, pz)
    ct = z3.Concat(nz, body)
    it.ctx.assume(z3.Length(body) == z3.Length(pz) + 16)
    it.ctx.assume(z3.Implies(z3.And(z3.Length(kz) == 32, z3.Length(nz) == 24),
                             z3.And(F_VALID()(kz, ct), F_OPEN()(kz, ct) == pz)))
    return ct


def open_facts(it, kz, cz):
    """what is known about a ciphertext that SecretBox(k).decrypt accepts (INT-CTXT, functional
    form): it is nonce ++ seal(k, nonce, p) for the returned p"""
    p = F_OPEN()(kz, cz)
    n = z3.SubString(cz, 0, 24)
    return z3.Implies(F_VALID()(kz, cz),
                      z3.And(z3.Length(cz) == z3.Length(p) + 40,
                             cz == z3.Concat(n, F_SEAL()(kz, n, p)),
                             z3.Length(F_SEAL()(kz, n, p)) == z3.Length(p) + 16))


def phase_purpose(it, sidez, phasez):
    return z3.Concat(z3.StringVal("wormhole:phase:"), sha_of(it, sidez), sha_of(it, phasez))


def json_bytes_of(it, jz):
    s = F_DUMPS()(jz)
    it.ctx.assume(z3.And(F_JOK()(s), F_LOADS()(s) == jz))
    b = F_UTF8()(s)
    it.ctx.assume(uf("decodable_utf8", StringS, BoolS)(b))
    it.ctx.assume(uf("decode_utf8", StringS, StringS)(b) == s)
    return b


# ------------------------------------------------------------------ installation
def install_crypto(reg):
    em, bd, sf = reg.ext_models, reg.boundary, reg.spec_funcs
    install_trace_extras(reg)
    reg.exc_bases.setdefault("UnicodeEncodeError", "UnicodeError")
    reg.exc_bases.setdefault("SPAKEError", "Exception")

    # ---- hashlib
    def sha256_new(it, args, kw):
        b = _bytes(it, args[0], "data") if args else VStr(b"")
        return VObj("sha256", {"data": b})

    def sha256_digest(it, recv, meth, args, kwargs, fr):
        return VStr(sha_of(it, recv.fields["data"].z), "bytes")

    em["hashlib.sha256"] = sha256_new
    bd["sha256.digest"] = sha256_digest

    # ---- cryptography HKDF (as util.HKDF uses it)
    def sha256_alg(it, args, kw):
        return VObj("SHA256")

    def hkdf_new(it, args, kw):
        names = ["algorithm", "length", "salt", "info"]
        vals = dict(zip(names, args))
        vals.update(kw)
        alg = it.force(vals["algorithm"])
        if not (isinstance(alg, VObj) and alg.cls == "SHA256"):
            raise OutOfSubset("HKDF with a hash other than SHA256")
        n = it.force(vals["length"])
        if not isinstance(n, (VInt, VBool)):
            it.raise_("TypeError", VStr("length must be an int"))
        nz = it._num(n)
        if it.ctx.branch(nz < 0, "hkdf-negative-length"):
            it.raise_("OverflowError", VStr("can't convert negative int to unsigned"))
        if it.ctx.branch(nz > HKDF_MAX, "hkdf-too-long"):
            it.raise_("ValueError", VStr("Cannot derive keys larger than 8160 octets."))
        salt = it.force(vals.get("salt", NONE))
        info = it.force(vals.get("info", NONE))
        if salt is not NONE:
            salt = _bytes(it, salt, "salt")
        if info is NONE:
            info = VStr(b"")
        info = _bytes(it, info, "info")
        return VObj("HKDF", {"length": VInt(nz), "salt": salt, "info": info})

    def hkdf_derive(it, recv, meth, args, kwargs, fr):
        skm = _bytes(it, args[0], "key material")
        salt = recv.fields["salt"]
        r = hkdf_of(it, skm.z, recv.fields["length"].z, z3.BoolVal(salt is NONE),
                    z3.StringVal("") if salt is NONE else salt.z, recv.fields["info"].z)
        it.ctx.event("hkdf.derive", skm)
        return VStr(r, "bytes")

    em["cryptography.hazmat.primitives.hashes.SHA256"] = sha256_alg
    em["cryptography.hazmat.primitives.kdf.hkdf.HKDF"] = hkdf_new
    bd["HKDF.derive"] = hkdf_derive

    # ---- nacl
    def secretbox_new(it, args, kw):
        k = _bytes(it, args[0], "SecretBox key")
        if it.ctx.branch(z3.Length(k.z) != 32, "secretbox-keysize"):
            it.raise_("ValueError", VStr("The key must be exactly 32 bytes long"))
        return VObj("SecretBox", {"key": k})

    def nacl_random(it, args, kw):
        n = it.force(args[0]) if args else VInt(32)
        z = z3.String(it.ctx.namer("nacl_random"))
        it.ctx.assume(z3.Length(z) == n.z)
        r = VStr(z, "bytes")
        it.ctx.event("nacl.random", r)
        return r

    def secretbox_encrypt(it, recv, meth, args, kwargs, fr):
        p = _bytes(it, args[0], "plaintext")
        nonce = args[1] if len(args) > 1 else kwargs.get("nonce", NONE)
        nonce = it.force(nonce)
        if nonce is NONE:
            nonce = nacl_random(it, [VInt(24)], {})
        nonce = _bytes(it, nonce, "nonce")
        if it.ctx.branch(z3.Length(nonce.z) != 24, "secretbox-noncesize"):
            it.raise_("ValueError", VStr("The nonce must be exactly 24 bytes long"))
        k = recv.fields["key"]
        ct = VStr(seal_of(it, k.z, nonce.z, p.z), "bytes")
        it.ctx.event("secretbox.encrypt", k, nonce, p, ct)
        return ct

    def secretbox_decrypt(it, recv, meth, args, kwargs, fr):
        c = _bytes(it, args[0], "ciphertext")
        k = recv.fields["key"]
        if it.ctx.branch(z3.Not(F_VALID()(k.z, c.z)), "secretbox.decrypt"):
            it.ctx.event("secretbox.decrypt.invalid", k, c)
            it.raise_("CryptoError", VStr("Decryption failed. Ciphertext failed verification"))
        it.ctx.assume(open_facts(it, k.z, c.z))
        p = VStr(F_OPEN()(k.z, c.z), "bytes")
        it.ctx.event("secretbox.decrypt", k, c, p)
        return p

    em["nacl.secret.SecretBox"] = secretbox_new
    em["nacl.utils.random"] = nacl_random
    bd["SecretBox.encrypt"] = secretbox_encrypt
    bd["SecretBox.decrypt"] = secretbox_decrypt

    # ---- spake2
    reg.class_fields["SPAKE2_Symmetric"] = {"password": "bytes", "idSymmetric": "bytes", "msg1": "bytes"}

    def spake_new(it, args, kw):
        pw = _bytes(it, args[0], "password")
        ids = it.force(kw.get("idSymmetric", args[1] if len(args) > 1 else VStr(b"")))
        ids = _bytes(it, ids, "idSymmetric")
        return VObj("SPAKE2_Symmetric", {"password": pw, "idSymmetric": ids})

    def spake_start(it, recv, meth, args, kwargs, fr):
        z = z3.String(it.ctx.namer("spake_msg1"))
        m = VStr(z, "bytes")
        recv.fields["msg1"] = m
        it.ctx.event("spake2.start", m)
        return m

    def spake_finish(it, recv, meth, args, kwargs, fr):
        m2 = _bytes(it, args[0], "inbound message")
        f = recv.fields
        a = (f["password"].z, f["idSymmetric"].z, f["msg1"].z, m2.z)
        if it.ctx.branch(z3.Not(F_FINOK()(*a)), "spake2.finish"):
            it.ctx.event("spake2.finish.rejected", m2)
            # observed natively: ReflectionThwarted (a SPAKEError) for the own message, ValueError for a
            # non-element, AssertionError for an empty / wrong-side message
            which = it.ctx.choose([z3.BoolVal(True)] * 3, "spake2.finish.exception")
            it.raise_(["SPAKEError", "ValueError", "AssertionError"][which], VStr("finish() rejected the peer message"))
        k = F_FINISH()(*a)
        it.ctx.assume(z3.Length(k) == 32)
        it.ctx.event("spake2.finish", m2, VStr(k, "bytes"))
        return VStr(k, "bytes")

    em["spake2.SPAKE2_Symmetric"] = spake_new
    bd["SPAKE2_Symmetric.start"] = spake_start
    bd["SPAKE2_Symmetric.finish"] = spake_finish

    # ---- json
    def json_dumps(it, args, kw):
        jz = to_json(it.force(args[0]))
        s = F_DUMPS()(jz)
        it.ctx.assume(z3.And(F_JOK()(s), F_LOADS()(s) == jz))
        return VStr(s, "str")

    def json_loads(it, args, kw):
        s = it.force(args[0])
        if not isinstance(s, VStr):
            it.raise_("TypeError", VStr("the JSON object must be str, bytes or bytearray"))
        if s.kind == "bytes":
            s = models.decode_model(it, s, "utf-8")
        if it.ctx.branch(z3.Not(F_JOK()(s.z)), "json.loads"):
            it.raise_("JSONDecodeError", VStr("not JSON"))
        return VJson(F_LOADS()(s.z))

    em["json.dumps"] = json_dumps
    em["json.loads"] = json_loads

    # ---- binascii: the engine's hexlify plus the round-trip ground instance
    def hexlify(it, args, kw):
        b = _bytes(it, args[0], "a bytes-like object")
        r = models.hexlify_model(it, b)
        it.ctx.assume(z3.InRe(r.z, HEX_RE))
        it.ctx.assume(uf("is_hex", StringS, BoolS)(r.z))
        it.ctx.assume(uf("unhexlify", StringS, StringS)(r.z) == b.z)
        return r

    em["binascii.hexlify"] = hexlify

    # ---- spec functions (arguments may be Optional / JSON wrapped: the clause guards that case itself)
    def sz(v):
        if isinstance(v, VOpt):
            return sz(v.inner)
        if isinstance(v, VJson):
            return J.s(v.z)
        if isinstance(v, VStr):
            return v.z
        raise OutOfSubset(f"spec function applied to {v!r}")

    def nz(it, v):
        if isinstance(v, VOpt):
            return nz(it, v.inner)
        return it._num(v)

    sf["nfc"] = lambda it, s: VStr(F_NFC()(sz(s)), "str")
    def utf8(it, s):
        r = F_UTF8()(sz(s))
        it.ctx.assume(uf("decodable_utf8", StringS, BoolS)(r))          # codec round trip, ground instance
        it.ctx.assume(uf("decode_utf8", StringS, StringS)(r) == sz(s))
        return VStr(r, "bytes")

    sf["utf8"] = utf8
    def is_ascii(it, s):
        # a named predicate with its definition as a ground instance: equal arguments then give equal truth
        # values by congruence alone (the sequence solvers do not always propagate equalities into regexes)
        p = uf("is_ascii", StringS, BoolS)(sz(s))
        it.ctx.assume(p == z3.InRe(sz(s), ASCII_RE))
        return VBool(p)

    sf["is_ascii"] = is_ascii
    sf["ascii"] = lambda it, s: VStr(sz(s), "bytes")
    sf["json_str"] = lambda it, j: VStr(J.s(to_json(j)), "str")
    sf["sha256_of"] = lambda it, b: VStr(sha_of(it, sz(b)), "bytes")
    sf["hkdf"] = lambda it, k, n, info: VStr(hkdf_of(it, sz(k), nz(it, n), z3.BoolVal(True), z3.StringVal(""), sz(info)), "bytes")

    def hkdf4(it, k, n, salt, info):
        if salt is NONE:
            none, saltz = z3.BoolVal(True), z3.StringVal("")
        elif isinstance(salt, VOpt):
            none, saltz = salt.isnone, z3.If(salt.isnone, z3.StringVal(""), salt.inner.z)
        else:
            none, saltz = z3.BoolVal(False), salt.z
        return VStr(hkdf_of(it, sz(k), nz(it, n), none, saltz, sz(info)), "bytes")

    sf["hkdf4"] = hkdf4
    sf["phase_purpose"] = lambda it, side, phase: VStr(phase_purpose(it, sz(side), sz(phase)), "bytes")
    sf["phase_key"] = lambda it, k, side, phase: VStr(
        hkdf_of(it, sz(k), z3.IntVal(32), z3.BoolVal(True), z3.StringVal(""), phase_purpose(it, sz(side), sz(phase))), "bytes")
    sf["sbox_valid"] = lambda it, k, c: VBool(F_VALID()(sz(k), sz(c)))
    sf["sbox_open"] = lambda it, k, c: VStr(F_OPEN()(sz(k), sz(c)), "bytes")
    sf["sbox_encrypt"] = lambda it, k, n, p: VStr(seal_of(it, sz(k), sz(n), sz(p)), "bytes")

    def sealed(it, c, k, p):
        """c is what SecretBox(k).encrypt(p, nonce) returns for the nonce that c starts with"""
        cz, kz, pz = sz(c), sz(k), sz(p)
        n = z3.SubString(cz, 0, 24)
        return VBool(z3.And(z3.Length(cz) == z3.Length(pz) + 40, cz == z3.Concat(n, F_SEAL()(kz, n, pz))))

    sf["sealed"] = sealed
    sf["spake2_key"] = lambda it, pw, ids, m1, m2: VStr(F_FINISH()(sz(pw), sz(ids), sz(m1), sz(m2)), "bytes")
    sf["spake2_accepts"] = lambda it, pw, ids, m1, m2: VBool(F_FINOK()(sz(pw), sz(ids), sz(m1), sz(m2)))
    sf["json_bytes"] = lambda it, d: VStr(json_bytes_of(it, to_json(d)), "bytes")
    sf["hex_of"] = lambda it, b: VStr(uf("hexlify", StringS, StringS)(sz(b)), "str")
    sf["unhex"] = lambda it, s: VStr(uf("unhexlify", StringS, StringS)(sz(s)), "bytes")
    sf["is_hex"] = lambda it, s: VBool(uf("is_hex", StringS, BoolS)(sz(s)))

    def json_parses(it, b):
        d = uf("decode_utf8", StringS, StringS)(sz(b))
        return VBool(z3.And(uf("decodable_utf8", StringS, BoolS)(sz(b)), F_JOK()(d)))

    sf["json_parses"] = json_parses
    sf["json_of"] = lambda it, b: VJson(F_LOADS()(uf("decode_utf8", StringS, StringS)(sz(b))))

    def json_has(it, j, key):
        jz = to_json(j)
        return VBool(z3.And(J.is_jdict(jz), OJ.is_present(z3.Select(J.d(jz), sz(key)))))

    sf["json_has"] = json_has
    sf["json_get"] = lambda it, j, key: VJson(OJ.v(z3.Select(J.d(to_json(j)), sz(key))))



def install_trace_extras(reg):
    sf = reg.spec_funcs

    # implication without the case split that `implies` makes outside quantifiers (both sides must be total)
    sf["imp"] = lambda it, a, b: VBool(z3.Implies(it.truth(a), it.truth(b)))

    def bcall_targets(it):
        return VList([VStr(f"{e[1][0]}.{e[1][1]}") for e in it.ctx.trace if e[0] == "bcall"])

    sf["bcall_targets"] = bcall_targets

    def n_events(it, name):
        name = it.concrete(name)
        return VInt(sum(1 for e in it.ctx.trace if e[0] == name))

    sf["n_events"] = n_events

    def event_arg(it, name, k, i):
        name, k, i = it.concrete(name), it.concrete(k), it.concrete(i)
        evs = [e for e in it.ctx.trace if e[0] == name]
        if k >= len(evs):
            return it.fresh("bytes", "no_event")     # the clause also counts the events, so it is false on this path
        return evs[k][1][i]

    sf["event_arg"] = event_arg

    def trace_order(it):
        """the boundary calls and Automat inputs made so far, in order"""
        out = []
        for e in it.ctx.trace:
            if e[0] == "bcall":
                out.append(VStr("call:" + e[1][1]))
            elif e[0] == "input":
                out.append(VStr("input:" + e[1][0]))
        return VList(out)

    sf["trace_order"] = trace_order


def _sz(v):
    if isinstance(v, VOpt):
        return _sz(v.inner)
    return v.z


def install_axiom_instances(reg):
    """cryptographic idealisations, available to lemmas only as explicit hypotheses about named arguments"""
    sf = reg.spec_funcs
    sf["sha256_collision_free"] = lambda it, a, b: VBool(z3.Implies(F_SHA()(_sz(a)) == F_SHA()(_sz(b)), _sz(a) == _sz(b)))

    def hkdf_info_injective(it, k, n, i1, i2):
        nn = it._num(n)
        f = F_HKDF()
        t, e = z3.BoolVal(True), z3.StringVal("")
        return VBool(z3.Implies(f(_sz(k), nn, t, e, _sz(i1)) == f(_sz(k), nn, t, e, _sz(i2)), _sz(i1) == _sz(i2)))

    sf["hkdf_info_injective"] = hkdf_info_injective


def install_boss_dispatch(reg):
    """what Boss.got_message needs: Match.group(1) for '^<literal>(\\d+)$', int() of a digit string, and the
    phase classes of the specification (Python's documented meaning of \\d and $)"""
    from pyvc import regex as rx
    sf = reg.spec_funcs
    UD = z3.Plus(rx.digit_re(True))
    NL = z3.Option(z3.Re(z3.StringVal("\n")))
    AD = z3.Plus(z3.Range("0", "9"))
    pyint = uf("py_int_of_digits", StringS, IntS)

    def strip_nl(z):
        return z3.If(z3.SuffixOf(z3.StringVal("\n"), z), z3.SubString(z, 0, z3.Length(z) - 1), z)

    def value(it, z):
        """int() of a run of decimal digits, one trailing newline allowed (int() strips whitespace):
        the decimal value for ASCII digits, some non-negative integer for other Unicode digits"""
        core = strip_nl(z)
        v = pyint(core)
        it.ctx.assume(v >= 0)
        it.ctx.assume(z3.Implies(z3.InRe(core, AD), v == z3.StrToInt(core)))
        return v

    def group(it, recv, meth, args, kwargs, fr):
        import re as _re
        pat = it.concrete(recv.fields["pattern"])
        m = _re.fullmatch(r"\^([A-Za-z0-9_-]*)\(\\d\+\)\$", pat) if isinstance(pat, str) else None
        if m is None or it.concrete(it.force(args[0])) != 1:
            raise OutOfSubset(f"Match.group for pattern {pat!r}")
        s = recv.fields["string"]
        g = strip_nl(z3.SubString(s.z, len(m.group(1)), z3.Length(s.z)))
        it.ctx.assume(z3.InRe(g, UD))        # a group's text is in the language of the group
        return VStr(g, s.kind)

    reg.boundary["re.Match.group"] = group

    def int_model(it, args, kw):
        if len(args) == 1 and not kw:
            v = it.force(args[0])
            if isinstance(v, VStr) and v.kind == "str":
                if it.ctx.branch(z3.InRe(v.z, UD), "int-of-digits") or \
                        it.ctx.branch(z3.InRe(v.z, z3.Concat(UD, NL)), "int-of-digits-nl"):
                    return VInt(value(it, v.z))
        return models.b_int(it, args, kw, None)

    reg.ext_models["builtins.int"] = int_model
    sf["is_numeric_phase"] = lambda it, s: VBool(z3.InRe(s.z, z3.Concat(UD, NL)))
    sf["is_dilate_phase"] = lambda it, s: VBool(z3.InRe(s.z, z3.Concat(z3.Re(z3.StringVal("dilate-")), UD, NL)))
    sf["decimal_value"] = lambda it, s: VInt(value(it, s.z))


def install_iter_funcs(reg):
    sf = reg.spec_funcs

    def iter_bcall_arg(it, name, i):
        """argument i of the single boundary call `name` made in the current loop iteration
        (proves that there is exactly one)"""
        name, i = it.concrete(name), it.concrete(i)
        tr = it.ctx.trace
        start = max([k for k, e in enumerate(tr) if e[0] == "loop-body-start"] + [-1])
        evs = [e for e in tr[start + 1:] if e[0] == "bcall" and e[1][1] == name]
        it.ctx.prove(z3.BoolVal(len(evs) == 1), f"exactly-one[{name}]-per-iteration",
                     {"kind": "trace", "definite": True, "src": f"exactly one {name}() call in each loop iteration (found {len(evs)})"})
        if not evs:
            return it.fresh("bytes", "no_event")
        return evs[-1][1][2][i]

    sf["iter_bcall_arg"] = iter_bcall_arg


# ------------------------------------------------------------------ twisted: Deferred / Failure / the eventual queue
RES = "opaque[Result]"          # any Python value that travels through an observer (code, key, versions, Failure ...)
DEF = "opaque[Deferred]"
QCALL = "nt[QCall]"
CALLT = "tuple[opaque[callable],opaque[Args],opaque[KwArgs]]"


def install_twisted(reg):
    """Deferred() -> a fresh opaque object; d.callback / d.errback are bound-method values; Failure(x) is an
    injective constructor; the observers see the eventual queue through its interface only: an object `EQ` whose
    eventually(f, arg) appends the call to the ghost sequence `calls` (EventualQueue.eventually itself is verified
    against the same statement in C18)."""
    from pyvc import values
    values.NT_DEFS.setdefault("QCall", [("kind", "str"), ("d", DEF), ("arg", RES)])
    em, bd, sf = reg.ext_models, reg.boundary, reg.spec_funcs
    install_trace_extras(reg)
    RS = opaque_sort("Result")
    NORES = z3.Const("NoResult", RS)
    is_failure = uf("is_failure", RS, BoolS)
    is_exc = uf("is_exception", RS, BoolS)
    failure_of = uf("failure_of", RS, RS)
    failure_value = uf("failure_value", RS, RS)

    def no_result(it):
        it.ctx.assume(z3.Not(is_failure(NORES)))       # the sentinel is a plain object()
        return VOpaque(NORES, "Result")

    em["global:wormhole/observer.py:NoResult"] = no_result

    def new_deferred(it, args, kw):
        d = it.fresh(DEF, "deferred")
        it.ctx.event("deferred.new", d)
        return d

    em["twisted.internet.defer.Deferred"] = new_deferred

    def as_result(it, v):
        v = it.force(v)
        if isinstance(v, VOpaque) and v.name == "Result":
            return v.z
        if isinstance(v, VObj) and v.cls in it.reg.exc_bases:
            a = [as_result(it, x) for x in v.fields.get("args", VTuple([])).items]
            r = uf("exc_" + v.cls, *([RS] * len(a) + [RS]))(*a)
            it.ctx.assume(z3.And(is_exc(r), z3.Not(is_failure(r)), r != NORES))
            return r
        raise OutOfSubset(f"value {v!r} used where an observer result is expected")

    def new_failure(it, args, kw):
        if not args:
            raise OutOfSubset("Failure() of the current exception")
        x = as_result(it, args[0])
        r = failure_of(x)
        # twisted's Failure derives from BaseException, not Exception
        it.ctx.assume(z3.And(is_failure(r), z3.Not(is_exc(r)), failure_value(r) == x, r != NORES))
        return VOpaque(r, "Result")

    em["twisted.python.failure.Failure"] = new_failure

    def isinstance_result(it, v, name):
        short = name.split(".")[-1]
        if short == "Failure":
            return is_failure(v.z)
        if short in ("Exception", "BaseException"):
            return is_exc(v.z) if short == "Exception" else z3.Or(is_exc(v.z), is_failure(v.z))
        return uf("isinstance_" + short, RS, BoolS)(v.z)

    em["isinstance_opaque:Result"] = isinstance_result

    # the queue as the observers see it: `at[0 .. n-1]` are the calls queued so far (an array and a length rather
    # than a z3 sequence: frames of the form "the first n entries are unchanged" then chain by plain E-matching)
    reg.class_fields["EQ"] = {"n": "int", "at": f"dict[int,{QCALL}]"}
    QS = sort_of(QCALL)

    def mk_qcall(kind, dz, az):
        return QS.constructor(0)(z3.StringVal(kind), dz, az)

    def eq_eventually(it, recv, meth, args, kwargs, fr):
        f = args[0] if args else None
        if not (isinstance(f, VBoundExt) and isinstance(f.recv, VOpaque) and f.recv.name == "Deferred"
                and f.meth in ("callback", "errback") and len(args) == 2 and not kwargs):
            raise OutOfSubset("eventually() of something other than d.callback / d.errback with one argument")
        n, at = recv.fields["n"], recv.fields["at"]
        it.setitem(at, n, from_z3(mk_qcall(f.meth, f.recv.z, as_result(it, args[1])), QCALL))
        recv.fields["n"] = VInt(n.z + 1)
        return NONE

    bd["EQ.eventually"] = eq_eventually

    def rz(v):
        if isinstance(v, VOpt):
            return rz(v.inner)
        return v.z

    def unfired(it, r):
        it.ctx.assume(z3.Not(is_failure(NORES)))
        return VBool(rz(r) == NORES)

    sf["unfired"] = unfired
    sf["is_failure"] = lambda it, r: VBool(is_failure(rz(r)))
    sf["is_exception"] = lambda it, r: VBool(is_exc(rz(r)))
    sf["failure_of"] = lambda it, r: VOpaque(failure_of(rz(r)), "Result")
    sf["wormhole_closed"] = lambda it, r: VOpaque(uf("exc_WormholeClosed", RS, RS)(rz(r)), "Result")
    sf["qcall"] = lambda it, kind, d, arg: from_z3(mk_qcall(it.concrete(kind), rz(d), rz(arg)), QCALL)
    sf["same_queue"] = lambda it, a, b: VBool(z3.And(a.fields["n"].z == b.fields["n"].z,
                                                     a.fields["at"].val == b.fields["at"].val))

    def prefix(it, a, b):
        elem = (a if isinstance(a, VSeq) else b).elem
        t = T("seq", [elem])
        return VBool(z3.PrefixOf(to_z3(a, t), to_z3(b, t)))

    sf["prefix"] = prefix

    def bcall_arg_is_method(it, name, k, i, meth):
        name, k, i, meth = it.concrete(name), it.concrete(k), it.concrete(i), it.concrete(meth)
        evs = [e for e in it.ctx.trace if e[0] == "bcall" and e[1][1] == name]
        if k >= len(evs) or i >= len(evs[k][1][2]):
            return VBool(False)
        a = evs[k][1][2][i]
        return VBool(isinstance(a, VFunc) and a.name == meth and a.bound is not None)

    sf["bcall_arg_is_method"] = bcall_arg_is_method


def install_eventual(reg):
    """what EventualQueue._turn needs: stored calls are opaque callables with opaque argument packs; running one
    may re-enter eventually() (append-only while the timer is set), may raise, does nothing else to the queue"""
    from pyvc.interp import VStarred
    sf = reg.spec_funcs
    reg.boundary_returns["IReactorTime.callLater"] = "opaque[DelayedCall]"

    def run_stored_call(it, f, args, kwargs):
        pack = args[0].v if args and isinstance(args[0], VStarred) else None
        kw = kwargs.get("**")
        if pack is None or kw is None or len(args) != 1:
            raise OutOfSubset("call of an opaque callable other than f(*args, **kwargs)")
        it.ctx.event("ran", VTuple([f, pack, kw]))
        q = getattr(it.reg, "cur_eq", None)
        if q is not None:
            calls, added = q.fields["_calls"], q.fields["_ghost_added"]
            if not (isinstance(calls, VSeq) and isinstance(added, VSeq)):
                raise OutOfSubset("re-entrant eventually() on a queue that is not a symbolic sequence here")
            more = z3.Const(it.ctx.namer("queued_by_callback"), calls.z.sort())
            calls.z = z3.Concat(calls.z, more)
            added.z = z3.Concat(added.z, more)
        if it.ctx.choose([z3.BoolVal(True), z3.BoolVal(True)], "stored-call-outcome") == 1:
            it.raise_("Exception", VStr("callback failed"))
        return NONE

    reg.ext_models["call_opaque:callable"] = run_stored_call

    def ran_event(it):
        tr = it.ctx.trace
        start = max([k for k, e in enumerate(tr) if e[0] == "loop-body-start"] + [-1])
        evs = [e for e in tr[start + 1:] if e[0] == "ran"]
        it.ctx.prove(z3.BoolVal(len(evs) == 1), "exactly-one-stored-call-run-per-iteration",
                     {"kind": "trace", "definite": True, "src": f"each iteration runs exactly one stored call (found {len(evs)})"})
        if not evs:
            return it.fresh(CALLT, "no_call")
        return evs[-1][1][0]

    sf["ran_event"] = ran_event


TRUSTED_TWISTED = [
    "twisted Deferred(): a fresh object; d.callback / d.errback are only ever handed to the eventual queue by the observers",
    "twisted Failure(x): injective constructor, an instance of Failure and not of Exception; NoResult (a plain object()) is not a Failure",
    "the eventual queue as the observers see it: eventually(f, arg) appends (f, arg) to the queue and does nothing else "
    "(EventualQueue.eventually is verified against this statement)",
    "a stored call run by EventualQueue._turn may raise Exception, may call eventually() again (append-only: the timer is "
    "set during a turn), and does not otherwise touch the queue",
]


TRUSTED_CRYPTO = [
    "hashlib.sha256(x).digest(): uninterpreted function of x, 32 bytes",
    "cryptography HKDF(SHA256, n, salt, info).derive(key): uninterpreted function of (key, n, salt, info); n bytes for "
    "0 <= n <= 8160; OverflowError for n < 0, ValueError for n > 8160, TypeError for non-bytes (observed natively)",
    "nacl SecretBox(k): ValueError unless len(k) == 32; encrypt(p, nonce) == nonce ++ seal(k, nonce, p), len(seal) == len(p) + 16, "
    "nonce must be 24 bytes; decrypt(c) either raises CryptoError or returns p with c == c[:24] ++ seal(k, c[:24], p) "
    "(INT-CTXT in functional form); decrypt(encrypt(p)) == p (ground instances)",
    "nacl.utils.random(n): n fresh bytes",
    "spake2.SPAKE2_Symmetric(pw, idSymmetric): start() returns fresh bytes; finish(m) either raises (SPAKEError for a "
    "reflected message, ValueError for a non-element, AssertionError for an empty / wrong-side message: observed natively) "
    "or returns the 32-byte value spake2_finish(pw, id, own message, m)",
    "json.dumps/json.loads: loads(dumps(v)) == v (ground instances); loads raises JSONDecodeError (a ValueError) on anything else it rejects",
    "binascii.hexlify/unhexlify: lower-case hex digits, twice the length, unhexlify(hexlify(b)) == b (ground instances)",
    "str.encode('utf-8') / bytes.decode('utf-8'): mutually inverse where defined; ascii codec is the identity on code points 0..127",
    "unicodedata.normalize(form, s): uninterpreted function per form",
]
