"""Shared registry set-up for all property modules: library models, spec functions
(symbolic definitions; their native twins are in replay/specfuncs.py), generic
boundary-call handling with a ghost call trace."""
import z3
from pyvc.interp import Registry
from pyvc import models, regex as rx, source
from pyvc.values import *   # noqa
from pyvc.models import uf


def generic_boundary(it, recv, meth, args, kwargs, fr):
    """a call that leaves the code under contract (collaborator object, transport, ...):
    recorded in the ghost trace; result is a fresh value of the declared type or None"""
    cls = recv.cls if isinstance(recv, VObj) else recv.name
    it.ctx.event("bcall", cls, meth, list(args), dict(kwargs))
    rt = it.reg.boundary_returns.get(f"{cls}.{meth}") or it.reg.boundary_returns.get(f"*.{meth}")
    if rt is None:
        return NONE
    return it.fresh(rt, f"{cls}_{meth}")


def make_registry():
    reg = Registry()
    reg.boundary_returns = {}
    models.install_default_models(reg)
    reg.boundary["*.*"] = generic_boundary
    sf = reg.spec_funcs

    sf["is_digits"] = lambda it, s: VBool(z3.InRe(s.z, z3.Plus(rx.digit_re(True))))
    sf["be4_value"] = lambda it, b: VInt(models.unbe4_of(it, b.z))
    sf["be4"] = lambda it, v: VStr(models.be4_of(it, v.z), "bytes")
    sf["lower"] = lambda it, s: VStr(uf("str_lower", StringS, StringS)(s.z), s.kind)
    sf["first_part"] = lambda it, s, sep: VStr(
        z3.If(z3.IndexOf(s.z, sep.z, 0) < 0, s.z, z3.SubString(s.z, 0, z3.IndexOf(s.z, sep.z, 0))), s.kind)
    sf["last_part"] = lambda it, s, sep: VStr(
        z3.If(z3.LastIndexOf(s.z, sep.z) < 0, s.z,
              z3.SubString(s.z, z3.LastIndexOf(s.z, sep.z) + z3.Length(sep.z), z3.Length(s.z))), s.kind)
    sf["count_of"] = lambda it, s, c: VInt(uf("str_count", StringS, StringS, IntS)(s.z, c.z))
    sf["join"] = lambda it, sep, seq: VStr(uf("str_join", StringS, z3.SeqSort(StringS), StringS)(sep.z, seq.z), sep.kind)

    def bcalls(it, *names):
        """number of boundary calls (so far on this path) whose method name is one of names"""
        want = set(it.concrete(n) for n in names)
        return VInt(sum(1 for e in it.ctx.trace if e[0] == "bcall" and e[1][1] in want))

    sf["bcalls"] = bcalls

    def bcall_arg(it, name, k, i):
        """argument i of the k-th boundary call named name"""
        name, k, i = it.concrete(name), it.concrete(k), it.concrete(i)
        evs = [e for e in it.ctx.trace if e[0] == "bcall" and e[1][1] == name]
        if k >= len(evs):
            return NONE           # the clause also counts the calls, so it is false on this path
        return evs[k][1][2][i]

    sf["bcall_arg"] = bcall_arg

    def bcall_names(it):
        return VList([VStr(e[1][1]) for e in it.ctx.trace if e[0] == "bcall"])

    sf["bcall_names"] = bcall_names
    return reg


def register_classes(reg, relpaths):
    for rp in relpaths:
        m = source.load_module(rp)
        for cd in m.classes.values():
            reg.register_repo_class(cd)


def install_trace_funcs(reg):
    sf = reg.spec_funcs

    def call_result(it, suffix, k=None):
        suffix = it.concrete(suffix)
        k = it.concrete(k) if k is not None else 0
        evs = [e for e in it.ctx.trace if e[0] == "callret" and e[1][0].endswith(suffix)]
        return evs[k][1][1]

    sf["call_result"] = call_result

    def call_arg(it, suffix, k, i):
        """argument i (0 = self for methods) of the k-th contract-applied call whose target ends with suffix"""
        suffix, k, i = it.concrete(suffix), it.concrete(k), it.concrete(i)
        evs = [e for e in it.ctx.trace if e[0] == "call" and e[1][0].endswith(suffix)]
        if k >= len(evs) or i >= len(evs[k][1][1]):
            return NONE
        return evs[k][1][1][i]

    sf.setdefault("call_arg", call_arg)

    def seq_has(it, seq, x):
        """x occurs in the sequence"""
        seq, x = it.force(seq), it.force(x)
        if isinstance(seq, (VList, VTuple)):
            return VBool(z3.Or([it.eq(y, x) for y in seq.items] + [z3.BoolVal(False)]))
        return VBool(z3.Contains(seq.z, z3.Unit(to_z3(x, seq.elem))))

    sf.setdefault("seq_has", seq_has)

    def iter_event(it, name):
        """the value of the single event `name` raised in the current loop iteration;
        proves there is exactly one (a hoisted or duplicated draw fails here)"""
        name = it.concrete(name)
        tr = it.ctx.trace
        start = max([i for i, e in enumerate(tr) if e[0] == "loop-body-start"] + [-1])
        evs = [e for e in tr[start + 1:] if e[0] == name]
        it.ctx.prove(z3.BoolVal(len(evs) == 1), f"exactly-one[{name}]-per-iteration", {"kind": "trace", "definite": True,
                     "src": f"exactly one {name} call in each loop iteration (found {len(evs)})"})
        if not evs:
            return it.fresh("bytes", "no_event")
        return evs[-1][1][0]

    sf["iter_event"] = iter_event

    def empty_seq(it, t):
        t = it.concrete(t)
        return VSeq(z3.Empty(z3.SeqSort(sort_of(t))), t)

    sf["empty_seq"] = empty_seq

    def input_calls(it, name):
        name = it.concrete(name)
        return VInt(sum(1 for e in it.ctx.trace if e[0] == "input" and e[1][0] == name))

    sf["input_calls"] = input_calls

    def input_arg(it, name, k, i):
        name, k, i = it.concrete(name), it.concrete(k), it.concrete(i)
        evs = [e for e in it.ctx.trace if e[0] == "input" and e[1][0] == name]
        if k >= len(evs):
            return VList([])      # the clause also counts the calls, so it is false on this path
        return evs[k][1][1][i]

    sf["input_arg"] = input_arg

    def in_state(it, obj, *names):
        """obj (an Automat machine instance) is in one of the named states"""
        obj = it.force(obj)
        cd = it.reg.repo_classes.get(obj.cls)
        m = it.reg.automat.machine_of(cd)
        st = obj.fields["__state"].z
        return VBool(z3.Or([st == m.index(it.concrete(n)) for n in names]))

    sf["in_state"] = in_state


# ---------------------------------------------------------------------------------------------------------------
# tasks shared between property modules (a contract proved in one module is part of another property as well)
_ACTIVE = set()


def shared_tasks(me, other, suffixes):
    """the ContractTasks of module `other` whose target ends with one of `suffixes`; modules that are already being
    collected (cyclic sharing: c10 -> c11 -> c16 -> c10) contribute nothing the second time round"""
    import importlib
    if other in _ACTIVE:
        return []
    added = {m for m in (me, other) if m not in _ACTIVE}
    _ACTIVE.update(added)
    try:
        ts = importlib.import_module("props." + other).tasks()
    finally:
        _ACTIVE.difference_update(added)
    return [t for t in ts if getattr(t, "contract", None) is not None and t.contract.target.endswith(tuple(suffixes))]
