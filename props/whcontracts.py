"""Contracts of the small key / codec helpers that both C01 and C02 build on.  Each is verified
by exactly one of the two modules (its first `props` entry) and is available to the callers
verified in the other one (modular use: callers see the contract only)."""
from pyvc.contract import Contract

HKDF_RANGE = "0 <= {0} and {0} <= 8160"

# ------------------------------------------------------------------ util.py
TO_BYTES = Contract(
    "wormhole/util.py:to_bytes", props=["C01"], params={"u": "str"}, returns="bytes",
    ensures=[("utf8-of-nfc", "result == utf8(nfc(u))")],
    note="the only place where a code / appid / purpose becomes key material: UTF-8 of the NFC normal form")

HKDF = Contract(
    "wormhole/util.py:HKDF", props=["C01"],
    params={"skm": "bytes", "outlen": "int", "salt": "opt[bytes]", "CTXinfo": "bytes"}, returns="bytes",
    requires=[HKDF_RANGE.format("outlen")],
    ensures=[("rfc5869-of-exactly-these-arguments", "result == hkdf4(skm, outlen, salt, CTXinfo)"),
             ("length", "len(result) == outlen")],
    note="cryptography's HKDF-SHA256 with (length, salt, info) passed in their own positions")

DICT_TO_BYTES = Contract(
    "wormhole/util.py:dict_to_bytes", props=["C01"], params={"d": "json"}, returns="bytes",
    raises_exactly={"AssertionError": "not isinstance(d, dict)"},
    ensures=[("utf8-json", "result == json_bytes(d)")])

BYTES_TO_DICT = Contract(
    "wormhole/util.py:bytes_to_dict", props=["C01"], params={"b": "bytes"}, returns="json",
    raises={"UnicodeDecodeError": "not json_parses(b)", "ValueError": "not json_parses(b)",
            "AssertionError": "json_parses(b) and not isinstance(json_of(b), dict)"},
    ensures=[("a-dict", "isinstance(result, dict)"), ("the-parsed-json", "json_parses(b) and result == json_of(b)")],
    note="non-UTF-8 -> UnicodeDecodeError, non-JSON -> JSONDecodeError (a ValueError), JSON but not an object -> AssertionError")

BYTES_TO_HEXSTR = Contract(
    "wormhole/util.py:bytes_to_hexstr", props=["C01"], params={"b": "bytes"}, returns="str",
    ensures=[("hex", "result == hex_of(b)"), ("round-trip", "is_hex(ascii(result)) and unhex(ascii(result)) == b"),
             ("ascii", "is_ascii(result)")])

HEXSTR_TO_BYTES = Contract(
    "wormhole/util.py:hexstr_to_bytes", props=["C01"], params={"hexstr": "json"}, returns="bytes",
    raises={"AssertionError": "not isinstance(hexstr, str)",
            "UnicodeEncodeError": "isinstance(hexstr, str) and not is_ascii(json_str(hexstr))",
            "ValueError": "isinstance(hexstr, str) and not is_hex(ascii(json_str(hexstr)))"},
    ensures=[("unhex", "isinstance(hexstr, str) and result == unhex(ascii(json_str(hexstr)))")],
    note="the argument comes out of a peer-supplied JSON object, so it is typed as an arbitrary JSON value: "
         "a non-string is an AssertionError, non-ASCII a UnicodeEncodeError, non-hex a binascii.Error (ValueError)")

# ------------------------------------------------------------------ _key.py
DERIVE_KEY = Contract(
    "wormhole/_key.py:derive_key", props=["C01"], params={"key": "bytes", "purpose": "bytes", "length": "int"},
    returns="bytes", requires=[HKDF_RANGE.format("length")],
    ensures=[("function-of-key-purpose-length", "result == hkdf(key, length, purpose)"),
             ("length", "len(result) == length")],
    note="HKDF(key, length, salt=None, CTXinfo=purpose): the purpose is the info field, nothing else enters")

DERIVE_PHASE_KEY = Contract(
    "wormhole/_key.py:derive_phase_key", props=["C02"], params={"key": "bytes", "side": "str", "phase": "str"},
    returns="bytes",
    raises_exactly={"UnicodeEncodeError": "not is_ascii(side) or not is_ascii(phase)"},
    ensures=[("purpose-binds-side-and-phase",
              "result == hkdf(key, 32, b'wormhole:phase:' + sha256_of(ascii(side)) + sha256_of(ascii(phase)))"),
             ("abbrev", "result == phase_key(key, side, phase)"),
             ("length", "len(result) == 32")],
    note="both the sender's side and the phase are hashed into the HKDF info")

ENCRYPT_DATA = Contract(
    "wormhole/_key.py:encrypt_data", props=["C02"], params={"key": "bytes", "plaintext": "bytes"}, returns="bytes",
    raises_exactly={"AssertionError": "len(key) != 32"},
    internal_ensures=[("one-fresh-24-byte-nonce", "n_events('nacl.random') == 1 and len(event_arg('nacl.random', 0, 0)) == 24"),
                      ("secretbox-of-key-nonce-plaintext",
                       "result == sbox_encrypt(key, event_arg('nacl.random', 0, 0), plaintext)")],
    ensures=[("sealed", "sealed(result, key, plaintext)"),
             ("opens-to-plaintext", "sbox_valid(key, result) and sbox_open(key, result) == plaintext")])

DECRYPT_DATA = Contract(
    "wormhole/_key.py:decrypt_data", props=["C02"], params={"key": "bytes", "encrypted": "bytes"}, returns="bytes",
    raises_exactly={"AssertionError": "len(key) != 32",
                    "CryptoError": "len(key) == 32 and not sbox_valid(key, encrypted)"},
    ensures=[("plaintext", "result == sbox_open(key, encrypted)"),
             ("was-sealed-under-this-key", "sealed(encrypted, key, result)")],
    note="a return value exists only for a ciphertext that is nonce ++ seal(key, nonce, result)")

PURE_REPLAY = {"driver": "pure_replay:run"}
for _c in (TO_BYTES, HKDF, DICT_TO_BYTES, BYTES_TO_HEXSTR, DERIVE_KEY, DERIVE_PHASE_KEY, ENCRYPT_DATA, DECRYPT_DATA):
    _c.replay = PURE_REPLAY

SHARED = [TO_BYTES, HKDF, DICT_TO_BYTES, BYTES_TO_DICT, BYTES_TO_HEXSTR, HEXSTR_TO_BYTES, DERIVE_KEY,
          DERIVE_PHASE_KEY, ENCRYPT_DATA, DECRYPT_DATA]


def owned(prop):
    return [c for c in SHARED if c.props[0] == prop]
