"""C07 - Transit picks exactly one connection, chosen by the sender, key holders only."""
import z3

from pyvc.contract import Contract
from pyvc.runner import ContractTask
from pyvc.values import *   # noqa
from pyvc.values import J, OJ
from .transit_lib import make_transit_registry, BodyLemma, T_PY, TRUSTED_LIB, DEFERRED
from . import c06
from . import c20 as _c20

PROP = "C07"
T = T_PY + ":"

# ---- vocabulary of the _dataReceived contract
S = "(old(self.buf) + data)"                       # the byte stream seen so far by the handshake parser
K = "self.owner._transit_key"
EXP = f"ite(self.owner.is_sender, receiver_hs({K}), sender_hs({K}))"     # what the other side must say
OWN = f"ite(self.owner.is_sender, sender_hs({K}), receiver_hs({K}))"     # what this side says
NEG_STATES = "('relay', 'start', 'handshake', 'wait-for-decision', 'go')"
CONN_FIELDS = {**c06.F_STATE, **c06.F_BUF, **c06.F_RX, **c06.F_QUEUES, **c06.F_CONSUMER, **c06.F_NEG,
               "transport": "obj[Transport]", "owner": "obj[Common]", "send_nonce": "int", "send_box": "obj[SecretBox]"}
OLD_HS = "old(self.state) in ('start', 'handshake')"
OLD_RELAY = "old(self.state) == 'relay'"
NOW_REC = "self.state == 'records'"
SENDER = "self.owner.is_sender"

NEG_START_FIELDS = {**c06.F_STATE, **c06.F_BUF, **c06.F_NEG, "transport": "obj[Transport]", "owner": "obj[Common]",
                    "relay_handshake": "opt[bytes]"}

# what __init__ establishes and add_connection_hints (C20) keeps: the peer's hints are parsed hint objects, the side is 16 hex digits
DH = "nt[DirectTCPV1Hint]"
# what _get_direct_hints establishes and keeps (with __init__: _listener = None)
LISTEN_INV = ("implies(self._listener is not None, own_direct_ok(self._my_direct_hints)) and "
              "implies(self._no_listen or self._tor is not None, self._listener is None)")
CLASS_INV = "all_valid(self._their_direct_hints) and all_relays_valid(self._our_relay_hints) and is_hex16(self._side)"
STABLE_COMMON = ("is_sender", "_side", "_tor", "_reactor", "_no_listen", "_transit_relays")     # stored by __init__ only

CONTRACTS = [
    Contract(T + "Connection._check_and_remove", props=[PROP], params={"expected": "bytes"},
             self_fields={"buf": "bytes"}, modifies=["buf"], returns="bool",
             raises_exactly={"BadHandshake": "not self.buf.startswith(expected) and not expected.startswith(self.buf)"},
             ensures=[("true-consumes-exactly-expected", "implies(result, old(self.buf) == expected + self.buf)"),
                      ("false-keeps-buffer-proper-prefix",
                       "implies(not result, self.buf == old(self.buf) and len(self.buf) < len(expected) and "
                       "expected.startswith(self.buf))")],
             note="True only after the whole expected handshake, byte for byte, was at the front of the buffer (and only it is "
                  "removed); False only while the buffer is a proper prefix of it; any divergence raises BadHandshake"),
    Contract(T + "Common.connection_ready", props=[PROP], params={"p": "obj[Connection]"},
             self_fields={"is_sender": "bool", "_winner": "opt[obj[Connection]]"}, modifies=["_winner"], returns="str",
             ensures=[("receiver-waits-for-sender", "implies(not self.is_sender, result == 'wait-for-decision')"),
                      ("go-iff-no-winner-yet", "implies(self.is_sender, (result == 'go') == (old(self._winner) is None))"),
                      ("else-nevermind", "implies(self.is_sender and old(self._winner) is not None, result == 'nevermind')")],
             internal_ensures=[("go-records-the-winner", "implies(result == 'go', self._winner is p)"),
                               ("never-a-second-go", "implies(result != 'go', self._winner is old(self._winner))"),
                               ("winner-never-cleared", "implies(old(self._winner) is not None, self._winner is not None)")],
             note="at most one 'go' per Common: 'go' is returned only when _winner was None and sets it; a set _winner is "
                  "never cleared or replaced, so every later call returns 'nevermind'"),
    Contract(T + "build_sender_handshake", props=[PROP], params={"key": "bytes"}, returns="bytes",
             ensures=[("protocol-text", "result == b'transit sender ' + hexl(hkdf(key, 32, b'transit_sender')) + b' ready\\n\\n'")],
             note="sender_hs(key) in the other contracts is this text"),
    Contract(T + "build_receiver_handshake", props=[PROP], params={"key": "bytes"}, returns="bytes",
             ensures=[("protocol-text", "result == b'transit receiver ' + hexl(hkdf(key, 32, b'transit_receiver')) + b' ready\\n\\n'")]),
    Contract(T + "Common._send_this", props=[PROP], params={}, self_fields={"is_sender": "bool", "_transit_key": "bytes"},
             returns="bytes", raises_exactly={"AssertionError": "len(self._transit_key) == 0"},
             ensures=[("own-role-handshake", "result == ite(self.is_sender, sender_hs(self._transit_key), receiver_hs(self._transit_key))")]),
    Contract(T + "Common._expect_this", props=[PROP], params={}, self_fields={"is_sender": "bool", "_transit_key": "bytes"},
             returns="bytes", raises_exactly={"AssertionError": "len(self._transit_key) == 0"},
             ensures=[("opposite-role-handshake", "result == ite(self.is_sender, receiver_hs(self._transit_key), sender_hs(self._transit_key))")]),
    Contract(T + "Connection._dataReceived", props=[PROP], params={"data": "bytes"}, self_fields=dict(CONN_FIELDS),
             requires=[f"self.state not in {NEG_STATES} or self._negotiation_d is not None", c06.INV_CONSUMER],
             modifies=c06.ALL_CONN_FIELDS,
             raises={"AssertionError": f"self.state == 'too-early' or len({K}) == 0", "BadHandshake": None,
                     "ValueError": None, "BadNonce": None, "CryptoError": None},
             ensures=[
                 # -- the Receiver uses only a connection on which the correct sender handshake followed by 'go' arrived
                 ("receiver-selects-only-after-sender-handshake-then-go",
                  f"implies({NOW_REC} and not {SENDER} and {OLD_HS}, {S}.startswith(sender_hs({K}) + b'go\\n'))"),
                 ("receiver-selects-only-after-sender-handshake-then-go--via-relay",
                  f"implies({NOW_REC} and not {SENDER} and {OLD_RELAY}, {S}.startswith(b'ok\\n' + sender_hs({K}) + b'go\\n'))"),
                 ("receiver-selects-only-after-go",
                  f"implies({NOW_REC} and old(self.state) == 'wait-for-decision', {S}.startswith(b'go\\n'))"),
                 # -- the Sender confirms only after the correct receiver handshake, and only the first one
                 ("sender-confirms-only-after-receiver-handshake-and-only-the-first",
                  f"implies({NOW_REC} and {SENDER} and {OLD_HS}, {S}.startswith(receiver_hs({K})) and "
                  "old(self.owner._winner) is None)"),
                 ("sender-confirms-only-after-receiver-handshake-and-only-the-first--via-relay",
                  f"implies({NOW_REC} and {SENDER} and {OLD_RELAY}, {S}.startswith(b'ok\\n' + receiver_hs({K})) and "
                  "old(self.owner._winner) is None)"),
                 # -- waiting states persist only while the stream is a proper prefix of what is expected
                 ("relay-waits-only-on-a-proper-prefix-of-ok",
                  f"implies(self.state == 'relay', {OLD_RELAY} and self.buf == {S} and len(self.buf) < 3 and b'ok\\n'.startswith(self.buf))"),
                 ("handshake-waits-only-on-a-proper-prefix",
                  f"implies(self.state == 'handshake', len(self.buf) < len({EXP}) and {EXP}.startswith(self.buf))"),
                 ("only-the-receiver-waits-for-a-decision",
                  "implies(self.state == 'wait-for-decision', (not self.owner.is_sender or old(self.state) == 'wait-for-decision') and "
                  "len(self.buf) < 3 and b'go\\n'.startswith(self.buf))"),
                 ("transient-states-never-persist",
                  f"implies(old(self.state) in {NEG_STATES}, self.state in ('relay', 'handshake', 'wait-for-decision', 'records'))"),
                 ("dropped-stays-dropped", "implies(old(self.state) == 'hung up', self.state == 'hung up')"),
                 ("established-stays-established", "implies(old(self.state) == 'records', self.state == 'records')"),
                 ("consumer-invariant-kept", c06.INV_CONSUMER)],
             internal_ensures=[
                 ("established-only-through-negotiation",
                  f"implies({NOW_REC} and old(self.state) != 'records', n_calls('_negotiationSuccessful') == 1) and "
                  "implies(old(self.state) == 'records' or self.state != 'records', n_calls('_negotiationSuccessful') == 0)"),
                 ("decision-asked-at-most-once-and-only-after-the-handshake-matched",
                  "n_calls('connection_ready') <= 1 and implies(n_calls('connection_ready') == 1, "
                  f"old(self.state) in ('relay', 'start', 'handshake') and {S}.startswith(ite({OLD_RELAY}, b'ok\\n', b'') + {EXP}))"),
                 ("own-handshake-is-the-first-thing-written",
                  f"implies(old(self.state) == 'start' or ({OLD_RELAY} and self.state != 'relay'), "
                  f"bcalls('write') >= 1 and bcall_arg('write', 0, 0) == {OWN})"),
                 ("nothing-written-before-the-relay-says-ok", "implies(self.state == 'relay', len(bcall_names()) == 0)"),
                 ("sender-says-go-exactly-when-it-selects",
                  f"implies({NOW_REC} and {SENDER} and old(self.state) in ('relay', 'start', 'handshake'), "
                  "last_bcall_arg('write', 0) == b'go\\n')"),
                 ("receiver-never-says-go",
                  f"implies(not {SENDER} and old(self.state) in ('relay', 'start', 'handshake', 'wait-for-decision'), "
                  f"bcalls('write') <= 1 and implies(bcalls('write') == 1, bcall_arg('write', 0, 0) == {OWN}))")],
             ensures_raise={"BadHandshake": [
                 ("rejected-connection-is-never-established", "self.state != 'records' and n_calls('_negotiationSuccessful') == 0"),
                 ("loser-is-told-nevermind",
                  "implies(n_returns('connection_ready') == 1 and self.owner.is_sender, call_result('connection_ready') == 'nevermind' and "
                  "old(self.owner._winner) is not None and "
                  "last_bcall_arg('write', 0) == b'nevermind\\n')"),
                 ("otherwise-only-on-a-wrong-byte--sender",
                  f"implies(n_returns('connection_ready') == 0 and {SENDER} and old(self.state) in ('relay', 'start', 'handshake'), "
                  f"diverges({S}, ite({OLD_RELAY}, b'ok\\n', b'') + {EXP}))"),
                 ("otherwise-only-on-a-wrong-byte--receiver",
                  f"implies(not {SENDER} and old(self.state) in ('relay', 'start', 'handshake'), "
                  f"diverges({S}, ite({OLD_RELAY}, b'ok\\n', b'') + {EXP} + b'go\\n'))"),
                 ("otherwise-only-on-a-wrong-byte--awaiting-go",
                  f"implies(old(self.state) == 'wait-for-decision', diverges({S}, b'go\\n'))"),
                 ("no-other-state-rejects", "old(self.state) in ('relay', 'start', 'handshake', 'wait-for-decision', 'nevermind')")]},
             note="the handshake state machine as a transition function over self.state and the byte stream S = old buf + data: "
                  "'records' is entered only through _negotiationSuccessful, for the receiver only after exactly "
                  "[ok\\n] sender_hs(key) go\\n, for the sender only after exactly [ok\\n] receiver_hs(key) and only if "
                  "connection_ready said 'go' (no winner yet); a loser writes nevermind\\n and raises BadHandshake; any wrong "
                  "byte raises BadHandshake; callees by contract"),
    # ------------------------------------------------------------------ key holders only
    Contract("lemma:handshakes_bind_key_and_role", props=[PROP], source_module=T_PY, params={"k1": "bytes", "k2": "bytes"},
             source_text="""
             def handshakes_bind_key_and_role(k1, k2):
                 return (build_sender_handshake(k1), build_receiver_handshake(k1),
                         build_sender_handshake(k2), build_receiver_handshake(k2))
             """,
             ensures=[("a-sender-handshake-is-never-a-receiver-handshake", "result[0] != result[1] and result[0] != result[3]"),
                      ("fixed-length-per-role", "len(result[0]) == len(result[2]) and len(result[1]) == len(result[3]) and "
                                                "len(result[0]) == 87 and len(result[1]) == 89"),
                      ("sender-handshake-determines-the-key", "implies(result[0] == result[2], k1 == k2)"),
                      ("receiver-handshake-determines-the-key", "implies(result[1] == result[3], k1 == k2)")],
             note="over the two builders' contracts; 'determines the key' uses the HKDF idealisation (injective in the key) and "
                  "unhexlify(hexlify(x)) == x"),
    Contract("lemma:other_key_is_rejected", props=[PROP], source_module=T_PY,
             params={"conn": "obj[Connection]", "ours": "bytes", "theirs": "bytes", "rest": "bytes"},
             source_text="""
             def other_key_is_rejected(conn, ours, theirs, rest):
                 conn.buf = build_sender_handshake(theirs) + rest      # a complete handshake from a holder of another key
                 try:
                     conn._check_and_remove(build_sender_handshake(ours))
                 except BadHandshake:
                     return True
                 return False
             """,
             requires=["ours != theirs"], ensures=[("always-rejected", "result")],
             note="a peer with a different transit key never passes the prefix check, whatever follows its handshake "
                  "(builders and _check_and_remove by contract; HKDF idealisation)"),
    Contract("lemma:same_role_is_rejected", props=[PROP], source_module=T_PY,
             params={"conn": "obj[Connection]", "ours": "bytes", "theirs": "bytes", "rest": "bytes"},
             source_text="""
             def same_role_is_rejected(conn, ours, theirs, rest):
                 conn.buf = build_receiver_handshake(theirs) + rest    # the other end plays the same role as we expect of ourselves
                 try:
                     conn._check_and_remove(build_sender_handshake(ours))
                 except BadHandshake:
                     return True
                 return False
             """,
             ensures=[("always-rejected", "result")],
             note="a receiver that hears a receiver handshake (any key, also its own reflected) drops the connection"),
    # ------------------------------------------------------------------ every other connection is closed; deadlines
    Contract(T + "Connection._cancel", props=[PROP], params={"d": DEFERRED},
             self_fields={"state": "str", "_error": "opt[obj[Exception]]", "transport": "obj[Transport]",
                          "_negotiation_d": f"opt[{DEFERRED}]"},
             modifies=["state", "_error", "_negotiation_d"],
             ensures=[("stops-reacting", "self.state == 'hung up'"), ("deferred-dropped", "self._negotiation_d is None"),
                      ("cancel-recorded", "exc_class(self._error) == 'CancelledError'")],
             effects=[("loseConnection", [])],
             note="cancelling a contender (a loser of there_can_be_only_one / the inbound factory) closes its socket"),
    Contract(T + "Connection.connectionMade", props=[PROP], params={}, self_fields={"factory": "obj[Factory]"},
             effects=[("setTimeout", ["TIMEOUT"]), ("connectionWasMade", ["self"])],
             note="every connection is armed with the per-connection negotiation deadline (TimeoutMixin) before anything else"),
    Contract(T + "Connection.timeoutConnection", props=[PROP], params={},
             self_fields={"_error": "opt[obj[Exception]]", "transport": "obj[Transport]"}, modifies=["_error"],
             ensures=[("timeout-recorded", "exc_class(self._error) == 'BadHandshake'")],
             effects=[("loseConnection", [])], note="when the deadline expires the socket is closed"),
    Contract(T + "Common._not_forever", props=[PROP], params={"timeout": "int", "d": DEFERRED},
             self_fields={"_reactor": "obj[Reactor]"}, returns=DEFERRED,
             ensures=[("returns-the-same-deferred", "result == d")],
             internal_ensures=[("deadline-armed-to-cancel-the-deferred",
                                "bcall_names() == ['callLater', 'addBoth'] and bcall_arg('callLater', 0, 0) == timeout and "
                                "is_method_of(bcall_arg('callLater', 0, 1), d, 'cancel') and bcall_arg('addBoth', 0, 0) == d"),
                               ("when-the-deferred-fires-first-the-timer-is-cancelled-and-the-result-passed-on",
                                "run_callback(bcall_arg('addBoth', 0, 1), probe()) == probe() and "
                                "bcall_names()[:3] == ['callLater', 'addBoth', 'active'] and "
                                "bcall_arg('active', 0, 0) == event_arg('new-timer', 0, 0) and "
                                "implies(event_arg('active-result', 0, 0), bcall_names()[3:] == ['cancel'] and "
                                "bcall_arg('cancel', 0, 0) == event_arg('new-timer', 0, 0)) and "
                                "implies(not event_arg('active-result', 0, 0), bcall_names()[3:] == [])")],
             note="connect() cannot hang: a timer that cancels the summary Deferred is armed (that the reactor fires it is "
                  "Twisted's business)"),
    # ------------------------------------------------------------------ exactly one winner among the contenders
    Contract(T + "_ThereCanBeOnlyOne.__init__", props=[PROP], params={"contenders": f"seq[{DEFERRED}]"}, self_fields={},
             modifies=["_remaining", "_winner_d", "_first_success", "_first_failure", "_have_winner", "_fired"],
             ensures=[("every-contender-is-tracked-from-the-start",
                       f"forall(lambda x: (x in self._remaining) == seq_has(contenders, x), '{DEFERRED}')"),
                      ("nothing-decided-yet", "not self._have_winner and not self._fired and self._first_success is None")],
             note="Deferred.addCallbacks on an already-fired contender runs _succeeded synchronously inside run(): the losers can "
                  "only be cancelled then if every contender was already in _remaining before run() attaches the first callback"),
    Contract(T + "_ThereCanBeOnlyOne._remove", props=[PROP], params={"res": "opaque[Any]", "d": DEFERRED},
             self_fields={"_remaining": f"set[{DEFERRED}]"}, modifies=["_remaining"], returns="opaque[Any]",
             raises_exactly={"KeyError": "d not in self._remaining"},
             ensures=[("result-passed-through", "result == res"),
                      ("only-this-contender-removed", f"forall(lambda x: (x in self._remaining) == (x in old(self._remaining) and x != d), '{DEFERRED}')")]),
    Contract(T + "_ThereCanBeOnlyOne._failed", props=[PROP], params={"f": "obj[Failure]"},
             self_fields={"_first_failure": "opt[obj[Failure]]"}, modifies=["_first_failure"],
             ensures=[("first-failure-kept", "implies(old(self._first_failure) is not None, self._first_failure is old(self._first_failure))"),
                      ("else-this-one", "implies(old(self._first_failure) is None, self._first_failure is f)")]),
    Contract(T + "_ThereCanBeOnlyOne._succeeded", props=[PROP], params={"res": "obj[Connection]"},
             self_fields={"_remaining": f"set[{DEFERRED}]", "_have_winner": "bool", "_first_success": "opt[obj[Connection]]"},
             modifies=["_have_winner", "_first_success"],
             ensures=[("winner-recorded", "self._have_winner and self._first_success is res")],
             internal_ensures=[("every-remaining-contender-cancelled",
                                f"forall(lambda x: implies(x in old(self._remaining), x in gc), '{DEFERRED}') and "
                                f"forall(lambda x: implies(x in gc, x in old(self._remaining)), '{DEFERRED}')")],
             loops={0: {"header": "for d in list(self._remaining)",
                        "ghost_init": {"gc": f"empty_seq('{DEFERRED}')"}, "ghost_update": {"gc": "gc + [d]"},
                        "invariant": ["gc + _iter[_i:] == _iter", "len(gc) == _i"],
                        "body_ensures": ["seq_unfold(_iter, _i - 1)", "iter_bcall_names() == ['cancel']", "iter_bcall_arg('cancel', 0, 0) == d"]}},
             note="ghost gc: contenders cancelled so far; on the first success every contender still pending is cancelled exactly "
                  "once (its Connection._cancel closes the socket).  Deferred.cancel is a boundary event here: its synchronous "
                  "re-entry into _remove/_failed/_maybe_done is not modelled (the loop runs over a copy of the set)"),
    Contract(T + "_ThereCanBeOnlyOne._maybe_done", props=[PROP], params={"_": "opaque[Any]"},
             self_fields={"_remaining": f"set[{DEFERRED}]", "_fired": "bool", "_have_winner": "bool",
                          "_first_success": "opt[obj[Connection]]", "_first_failure": "opt[obj[Failure]]", "_winner_d": DEFERRED},
             modifies=["_fired"],
             ensures=[("fired-flag-monotone", "implies(old(self._fired), self._fired)")],
             internal_ensures=[
                 ("summary-fires-at-most-once", "implies(old(self._fired), len(bcall_names()) == 0)"),
                 ("not-before-every-contender-is-done", "implies(len(bcall_names()) > 0, not self._remaining)"),
                 ("fires-exactly-once-when-done",
                  "implies(not old(self._fired) and not self._remaining, self._fired and len(bcall_names()) == 1 and "
                  "bcall_arg(bcall_names()[0], 0, 0) == self._winner_d)"),
                 ("success-iff-a-contender-succeeded",
                  "implies(not old(self._fired) and not self._remaining, "
                  "ite(self._have_winner, bcall_names()[0] == 'callback' and last_bcall_arg('callback', 1) is self._first_success, "
                  "bcall_names()[0] == 'errback' and last_bcall_arg('errback', 1) is self._first_failure))"),
                 ("waits-while-contenders-remain", "implies(self._remaining, self._fired == old(self._fired))")],
             note="connect()'s summary Deferred fires once (guarded by _fired), only when no contender is pending, with the first "
                  "success if there was one, else the first failure"),
    # ------------------------------------------------------------------ connect(): every contender races under one deadline
    Contract(T + "Common._start_connector", props=[PROP],
             params={"ep": "obj[Endpoint]", "description": "str", "is_relay": "bool"},
             self_fields={"is_sender": "bool", "_transit_key": "bytes", "_side": "str"},
             requires=["is_hex16(self._side)"], returns=DEFERRED,
             raises_exactly={"AssertionError": "is_relay and len(self._transit_key) == 0"},
             internal_ensures=[
                 ("dials-the-endpoint-with-a-factory-of-this-transit",
                  "bcall_names() == ['connect', 'addCallback'] and bcall_arg('connect', 0, 0) is ep and "
                  "bcall_arg('connect', 0, 1).owner is self and (bcall_arg('connect', 0, 1).relay_handshake is not None) == is_relay"),
                 ("contender-is-the-connection-attempt", "result == event_arg('new-deferred', 0, 0) and bcall_arg('addCallback', 0, 0) == result"),
                 ("a-connected-protocol-starts-negotiating-at-once",
                  "run_callback(bcall_arg('addCallback', 0, 1), a_protocol()) == event_arg('negotiation-deferred', 0, 0) and "
                  "bcall_names()[2:] == ['startNegotiation'] and n_events('negotiation-deferred') == 1")],
             note="the contender Deferred of an outbound attempt fires with the protocol only through startNegotiation (by contract): "
                  "its result is the negotiation Deferred, so the race is won by finished negotiations, not by TCP connects"),
    Contract(T + "Common._connect", props=[PROP, "C20"], params={},
             self_fields={"is_sender": "bool", "_transit_key": "bytes", "_side": "str", "_listener_d": f"opt[{DEFERRED}]",
                          "_their_direct_hints": f"seq[{_c20.HINT}]", "_our_relay_hints": "set[nt[RelayV1Hint]]",
                          "_tor": "opt[obj[Tor]]", "_reactor": "obj[Reactor]"},
             requires=["all_valid(self._their_direct_hints)", "all_relays_valid(self._our_relay_hints)", "is_hex16(self._side)",
                       "len(self._transit_key) > 0"],
             returns=DEFERRED, raises={"TransitError": None},
             ensures_raise={"TransitError": [("only-without-a-listener", "self._listener_d is None"),
                                             ("nothing-raced", "n_calls('there_can_be_only_one') == 0")]},
             internal_ensures=[
                 ("one-race-under-one-deadline",
                  "n_calls('there_can_be_only_one') == 1 and n_calls('_not_forever') == 1 and "
                  "call_arg('_not_forever', 0, 2) == call_result('there_can_be_only_one') and call_arg('_not_forever', 0, 1) == 2 * TIMEOUT and "
                  "result == call_result('_not_forever')"),
                 ("the-listener-contends", "implies(self._listener_d is not None, seq_has(call_arg('there_can_be_only_one', 0, 0), self._listener_d))"),
                 ("every-attempt-started-contends", "call_arg('there_can_be_only_one', 0, 0) == contenders and len(contenders) > 0")],
             loops={0: {"header": "for hint_obj in self._their_direct_hints", "retype": {"contenders": f"seq[{DEFERRED}]"},
                        "invariant": ["prefix_of(at_entry(contenders), contenders)"],
                        "body_ensures": [
                            "iter_n_calls('endpoint_from_hint_obj') == 1 and iter_call_arg('endpoint_from_hint_obj', 0, 0) == hint_obj",
                            "implies(iter_call_result('endpoint_from_hint_obj', 0) is None, contenders == at_iter(contenders) and "
                            "iter_n_calls('_start_connector') == 0)",
                            "implies(iter_call_result('endpoint_from_hint_obj', 0) is not None, iter_n_calls('_start_connector') == 1 and "
                            "iter_call_arg('_start_connector', 0, 1) is iter_call_result('endpoint_from_hint_obj', 0) and "
                            "not iter_call_arg('_start_connector', 0, 3) and "
                            "contenders == at_iter(contenders) + [iter_call_result('_start_connector', 0)])"]},
                    1: {"header": "for rh in self._our_relay_hints", "retype": {"prioritized_relays": f"dict[json,set[{_c20.HINT}]]"},
                        "invariant": ["keys_numeric(prioritized_relays)", "set_buckets_valid(prioritized_relays)"]},
                    2: {"header": "for hint_obj in rh.hints",
                        "invariant": ["keys_numeric(prioritized_relays)", "set_buckets_valid(prioritized_relays)", "all_valid(_iter)"]},
                    3: {"header": "for priority in sorted(prioritized_relays, reverse=True)",
                        "invariant": ["prefix_of(at_entry(contenders), contenders)", "set_buckets_valid(prioritized_relays)"]},
                    4: {"header": "for hint_obj in prioritized_relays[priority]",
                        "invariant": ["prefix_of(at_entry(contenders), contenders)"],
                        "body_ensures": [
                            "iter_n_calls('endpoint_from_hint_obj') == 1 and iter_call_arg('endpoint_from_hint_obj', 0, 0) == hint_obj",
                            "implies(iter_call_result('endpoint_from_hint_obj', 0) is None, contenders == at_iter(contenders) and "
                            "len(iter_bcall_names()) == 0)",
                            "implies(iter_call_result('endpoint_from_hint_obj', 0) is not None, iter_bcall_names() == ['deferLater'] and "
                            "is_method_of(iter_bcall_arg('deferLater', 0, 2), self, '_start_connector') and "
                            "iter_bcall_arg('deferLater', 0, 3) is iter_call_result('endpoint_from_hint_obj', 0) and "
                            "iter_bcall_kwarg('deferLater', 0, 'is_relay') and "
                            "contenders == at_iter(contenders) + [new_deferred()])"]}},
             note="direct hints are dialled at once (_start_connector by contract), relay sub-hints through deferLater(_start_connector, "
                  "is_relay=True) grouped by priority; each attempt's Deferred is appended to the contender list, which only grows; "
                  "the list (with the listener's Deferred first, when listening) is handed to there_can_be_only_one and its summary to "
                  "_not_forever(2*TIMEOUT); with nothing to try TransitError.  C20: for hints that passed add_connection_hints nothing "
                  "else raises and endpoint_from_hint_obj's precondition (a parsed hint) holds at both call sites"),
    # ------------------------------------------------------------------ wiring of the contenders (run / cancel / inbound / negotiation start)
    Contract(T + "_ThereCanBeOnlyOne.run", props=[PROP], params={},
             self_fields={"_remaining": f"set[{DEFERRED}]", "_winner_d": DEFERRED}, returns=DEFERRED,
             ensures=[("returns-the-summary-deferred", "result == self._winner_d")],
             internal_ensures=[("every-contender-wired",
                                f"forall(lambda x: implies(x in self._remaining, x in gw), '{DEFERRED}') and "
                                f"forall(lambda x: implies(x in gw, x in self._remaining), '{DEFERRED}')")],
             loops={0: {"header": "for d in list(self._remaining)",
                        "ghost_init": {"gw": f"empty_seq('{DEFERRED}')"}, "ghost_update": {"gw": "gw + [d]"},
                        "invariant": ["gw + _iter[_i:] == _iter", "len(gw) == _i"],
                        "body_ensures": ["seq_unfold(_iter, _i - 1)",
                                         "iter_bcall_names() == ['addBoth', 'addCallbacks', 'addCallback']",
                                         "iter_bcall_arg('addBoth', 0, 0) == d and is_method_of(iter_bcall_arg('addBoth', 0, 1), self, '_remove') "
                                         "and iter_bcall_arg('addBoth', 0, 2) == d",
                                         "iter_bcall_arg('addCallbacks', 0, 0) == d and is_method_of(iter_bcall_arg('addCallbacks', 0, 1), self, '_succeeded') "
                                         "and is_method_of(iter_bcall_arg('addCallbacks', 0, 2), self, '_failed')",
                                         "iter_bcall_arg('addCallback', 0, 0) == d and is_method_of(iter_bcall_arg('addCallback', 0, 1), self, '_maybe_done')"]}},
             note="ghost gw: contenders wired so far. Every contender gets, in this order, _remove(res, d) for either outcome, then "
                  "_succeeded / _failed, then _maybe_done: so whenever one fires it leaves _remaining first, records the outcome, and "
                  "the summary is re-evaluated"),
    Contract(T + "_ThereCanBeOnlyOne._cancel", props=[PROP], params={"_": "opaque[Any]"},
             self_fields={"_remaining": f"set[{DEFERRED}]"},
             internal_ensures=[("every-remaining-contender-cancelled",
                                f"forall(lambda x: implies(x in self._remaining, x in gc), '{DEFERRED}') and "
                                f"forall(lambda x: implies(x in gc, x in self._remaining), '{DEFERRED}')")],
             loops={0: {"header": "for d in list(self._remaining)",
                        "ghost_init": {"gc": f"empty_seq('{DEFERRED}')"}, "ghost_update": {"gc": "gc + [d]"},
                        "invariant": ["gc + _iter[_i:] == _iter", "len(gc) == _i"],
                        "body_ensures": ["seq_unfold(_iter, _i - 1)", "iter_bcall_names() == ['cancel']", "iter_bcall_arg('cancel', 0, 0) == d"]}},
             note="the canceller of the summary Deferred (the _not_forever deadline, or the application): every contender still "
                  "pending is cancelled exactly once"),
    Contract(T + "there_can_be_only_one", props=[PROP], params={"contenders": f"seq[{DEFERRED}]"}, returns=DEFERRED,
             internal_ensures=[("a-fresh-race-over-exactly-these-contenders-is-run",
                                "n_calls('_ThereCanBeOnlyOne.run') == 1 and result == call_result('_ThereCanBeOnlyOne.run') and "
                                f"forall(lambda x: (x in call_arg('_ThereCanBeOnlyOne.run', 0, 0)._remaining) == seq_has(contenders, x), '{DEFERRED}') and "
                                "not call_arg('_ThereCanBeOnlyOne.run', 0, 0)._fired and not call_arg('_ThereCanBeOnlyOne.run', 0, 0)._have_winner")],
             note="__init__ inlined, run by contract: the summary Deferred handed back is the one of a new race whose contender set "
                  "is exactly the argument"),
    Contract(T + "Connection.startNegotiation", props=[PROP], params={},
             self_fields=dict(NEG_START_FIELDS),
             requires=["self.buf == b''", "self.state == 'too-early'", "self._negotiation_d is not None"],
             modifies=["state", "buf", "_error"], returns=DEFERRED,
             raises_exactly={"AssertionError": f"len({K}) == 0 and self.relay_handshake is None"},
             ensures=[("returns-the-negotiation-deferred", "result == self._negotiation_d"),
                      ("via-relay-waits-for-ok", "implies(self.relay_handshake is not None, self.state == 'relay')"),
                      ("direct-waits-for-the-peer-handshake", "implies(self.relay_handshake is None, self.state == 'handshake')"),
                      ("no-error-recorded", "self._error is old(self._error)")],
             internal_ensures=[
                 ("relay-handshake-is-the-only-thing-sent-before-ok",
                  "implies(self.relay_handshake is not None, bcall_names() == ['write'] and bcall_arg('write', 0, 0) == self.relay_handshake)"),
                 ("own-role-handshake-sent-first",
                  f"implies(self.relay_handshake is None, bcall_names() == ['write'] and bcall_arg('write', 0, 0) == {OWN})")],
             ensures_raise={"AssertionError": [("dropped", "self.state == 'hung up'")]},
             note="dataReceived/_dataReceived inlined on the empty buffer (callees _check_and_remove/_send_this/_expect_this by "
                  "contract): a relayed connection says only the relay handshake and waits in 'relay'; a direct one says its own "
                  "role's handshake and waits in 'handshake'.  Without a transit key (inbound connection before set_transit_key) the "
                  "assert in _send_this drops the connection"),
    Contract(T + "InboundConnectionFactory.buildProtocol", props=[PROP], params={"addr": "opaque[Address]"},
             self_fields={"owner": "obj[Common]", "start": "real", "_pending_connections": f"set[{DEFERRED}]", "_inbound_d": DEFERRED},
             returns="obj[Connection]",
             ensures=[("inbound-connection-belongs-to-this-transit", "result.owner is self.owner and result.factory is self"),
                      ("never-via-relay", "result.relay_handshake is None"),
                      ("not-negotiating-yet", "result.state == 'too-early' and result.buf == b'' and result._negotiation_d is not None")],
             note="Connection.__init__ inlined"),
    Contract(T + "InboundConnectionFactory.connectionWasMade", props=[PROP], params={"p": "obj[Connection]"},
             self_fields={"owner": "obj[Common]", "_pending_connections": f"set[{DEFERRED}]", "_inbound_d": DEFERRED},
             requires=["p.buf == b''", "p.state == 'too-early'", "p._negotiation_d is not None", "p.relay_handshake is None"],
             raises_exactly={"AssertionError": "len(p.owner._transit_key) == 0"},
             ensures_raise={"AssertionError": [("connection-dropped-nothing-tracked", "p.state == 'hung up' and "
                                                "self._pending_connections == old(self._pending_connections)")]},
             modifies=["_pending_connections", "p.state", "p.buf", "p._error"],
             internal_ensures=[
                 ("negotiation-started-once", "n_calls('startNegotiation') == 1 and call_arg('startNegotiation', 0, 0) is p"),
                 ("pending-negotiation-tracked-for-cancellation",
                  f"forall(lambda x: (x in self._pending_connections) == (x in old(self._pending_connections) or x == call_result('startNegotiation')), '{DEFERRED}')"),
                 ("outcome-wired-to-the-listener",
                  "bcall_names() == ['addBoth', 'addCallbacks'] and bcall_arg('addBoth', 0, 0) == call_result('startNegotiation') and "
                  "is_method_of(bcall_arg('addBoth', 0, 1), self, '_remove') and bcall_arg('addBoth', 0, 2) == call_result('startNegotiation') and "
                  "bcall_arg('addCallbacks', 0, 0) == call_result('startNegotiation') and "
                  "is_method_of(bcall_arg('addCallbacks', 0, 1), self, '_proto_succeeded') and is_method_of(bcall_arg('addCallbacks', 0, 2), self, '_proto_failed')")],
             note="every inbound connection starts negotiating at once (startNegotiation by contract); its Deferred is tracked so that "
                  "_shutdown can cancel it, leaves the set when it fires (_remove), and a success reaches _proto_succeeded"),
    Contract(T + "InboundConnectionFactory._shutdown", props=[PROP], params={},
             self_fields={"_pending_connections": f"set[{DEFERRED}]"},
             internal_ensures=[("every-pending-negotiation-cancelled",
                                f"forall(lambda x: implies(x in self._pending_connections, x in gc), '{DEFERRED}') and "
                                f"forall(lambda x: implies(x in gc, x in self._pending_connections), '{DEFERRED}')")],
             loops={0: {"header": "for d in list(self._pending_connections)",
                        "ghost_init": {"gc": f"empty_seq('{DEFERRED}')"}, "ghost_update": {"gc": "gc + [d]"},
                        "invariant": ["gc + _iter[_i:] == _iter", "len(gc) == _i"],
                        "body_ensures": ["seq_unfold(_iter, _i - 1)", "iter_bcall_names() == ['cancel']", "iter_bcall_arg('cancel', 0, 0) == d"]}}),
    Contract(T + "InboundConnectionFactory._proto_succeeded", props=[PROP], params={"p": "obj[Connection]"},
             self_fields={"_pending_connections": f"set[{DEFERRED}]", "_inbound_d": DEFERRED},
             internal_ensures=[("losers-cancelled-then-winner-announced-once",
                                "call_order() == ['_shutdown'] and bcall_names() == ['callback'] and "
                                "bcall_arg('callback', 0, 0) == self._inbound_d and bcall_arg('callback', 0, 1) is p")],
             note="the listener's Deferred fires with the first inbound connection that finished negotiation, after every other "
                  "pending inbound negotiation was cancelled (_shutdown by contract)"),
    # ------------------------------------------------------------------ connect(): the inlineCallbacks wrapper
    Contract(T + "Common.connect", props=[PROP], params={},
             self_fields={"is_sender": "bool", "_transit_key": "bytes", "_side": "str", "_listener_d": f"opt[{DEFERRED}]",
                          "_their_direct_hints": f"seq[{_c20.HINT}]", "_our_relay_hints": "set[nt[RelayV1Hint]]",
                          "_tor": "opt[obj[Tor]]", "_reactor": "obj[Reactor]", "_waiting_for_transit_key": f"seq[{DEFERRED}]"},
             requires=[CLASS_INV],
             modifies=["_transit_key", "_listener_d", "_their_direct_hints", "_our_relay_hints", "_waiting_for_transit_key"],
             returns="obj[Connection]", raises={"TransitError": None, "RaceFailure": None},
             ensures=[("returns-the-winner-of-the-race", "result is event_arg('fired', 0, 1)")],
             internal_ensures=[
                 ("key-awaited-then-exactly-one-race",
                  "suspension_order() == ['key', 'call:_connect', 'race'] and n_calls('_connect') == 1"),
                 ("the-race-awaited-is-the-one-started",
                  "n_events('fired') == 1 and event_arg('fired', 0, 0) == call_result('_connect')"),
                 ("a-key-not-yet-known-is-waited-for-not-skipped",
                  "implies(len(old(self._transit_key)) == 0, n_events('resumed-by-set_transit_key') == 1) and "
                  "implies(len(old(self._transit_key)) > 0, n_events('resumed-by-set_transit_key') == 0)")],
             ensures_raise={"TransitError": [("no-contenders-nothing-raced", "n_events('fired') == 0 and n_events('failed') == 0 and "
                                              "n_calls('_connect') == 1")],
                            "RaceFailure": [("the-failure-of-the-race-propagates",
                                             "n_calls('_connect') == 1 and n_events('failed') == 1 and "
                                             "event_arg('failed', 0, 0) == call_result('_connect')")]},
             note="@inlineCallbacks generator, `yield` by the model transit_yield_model below: first _get_transit_key() (inlined) is "
                  "awaited - an already-fired Deferred (defer.succeed) resumes at once, a fresh one must be registered in "
                  "_waiting_for_transit_key and resumes from set_transit_key with the key just stored; only then _connect() (by "
                  "contract: its precondition `a transit key is set`, len(self._transit_key) > 0, is the obligation "
                  "connect.call[Common._connect].requires.3, proved at the call with the state of that moment) runs, exactly once; what its Deferred "
                  "fires with is returned unchanged; TransitError (no contenders) and the failure of the race leave connect() "
                  "(the errback of its Deferred).  This version of transit.py sets no description in connect(): the winner's "
                  "description is Connection.describe() of the returned object"),
    # ------------------------------------------------------------------ this side's own hints (C20, encode side)
    Contract(T + "Common._build_listener", props=[PROP, "C20"], params={},
             self_fields={"_no_listen": "bool", "_tor": "opt[obj[Tor]]", "_reactor": "obj[Reactor]"},
             returns=f"tuple[seq[{DH}],opt[obj[ServerEndpoint]]]",
             ensures=[("not-listening-publishes-no-direct-hint",
                       "implies(self._no_listen or self._tor is not None, len(result[0]) == 0 and result[1] is None)"),
                      ("listening-gives-an-endpoint", "implies(not self._no_listen and self._tor is None, result[1] is not None)"),
                      ("own-direct-hints-are-valid-hint-objects", "own_direct_ok(result[0])")],
             internal_ensures=[
                 ("one-hint-per-address-on-the-allocated-port",
                  "implies(not self._no_listen and self._tor is None, n_events('allocated-port') == 1 and n_events('addresses') == 1 and "
                  "all_on_port(result[0], event_arg('allocated-port', 0, 0)) and len(result[0]) <= len(event_arg('addresses', 0, 0)) and "
                  "n_events('server-endpoint') == 1 and event_arg('server-endpoint', 0, 1) == 'tcp:' + str(event_arg('allocated-port', 0, 0)))")],
             note="own_direct_ok: every element is a DirectTCPV1Hint with str hostname, int port in 1..65535 and priority 0.0 "
                  "(what C20's parser demands of a peer's hint, plus the port range); with no_listen or Tor nothing is published and "
                  "nothing is listened on; otherwise one hint per address of ipaddrs.find_addresses() (loopback dropped unless it is "
                  "all there is), all on the port of allocate_tcp_port(), which is the port of the server endpoint"),
    Contract(T + "Common._get_direct_hints", props=[PROP, "C20"], params={},
             self_fields={"_no_listen": "bool", "_tor": "opt[obj[Tor]]", "_reactor": "obj[Reactor]",
                          "_listener": "opt[obj[ServerEndpoint]]", "_my_direct_hints": f"seq[{DH}]",
                          "_listener_d": f"opt[{DEFERRED}]", "_listener_f": "opt[obj[InboundConnectionFactory]]"},
             requires=["implies(self._listener is not None, own_direct_ok(self._my_direct_hints))",
                       "implies(self._no_listen or self._tor is not None, self._listener is None)"],
             modifies=["_listener", "_my_direct_hints", "_listener_d", "_listener_f"], returns=DEFERRED,
             ensures=[("own-direct-hints-are-valid-hint-objects", "own_direct_ok(self._my_direct_hints)"),
                      ("no-direct-hints-unless-listening",
                       "implies(self._no_listen or self._tor is not None, len(self._my_direct_hints) == 0 and self._listener is None and "
                       "self._listener_d is None)")],
             internal_ensures=[
                 ("listener-started-once-and-only-when-not-yet-listening",
                  "implies(old(self._listener) is not None, len(bcall_names()) == 0 and n_calls('_build_listener') == 0 and "
                  "self._my_direct_hints == old(self._my_direct_hints)) and "
                  "implies(old(self._listener) is None, n_calls('_build_listener') == 1 and "
                  "bcalls('listen') == ite(self._listener is None, 0, 1))"),
                 ("already-fired-when-nothing-to-start",
                  "implies(old(self._listener) is not None or self._listener is None, n_events('succeed') == 1 and "
                  "event_arg('succeed', 0, 0) == result and event_arg('succeed', 0, 1) == self._my_direct_hints)"),
                 ("inbound-factory-of-this-transit-listens",
                  "implies(old(self._listener) is None and self._listener is not None, "
                  "bcall_names()[:2] == ['listen', 'addCallback'] and bcall_arg('listen', 0, 0) is self._listener and "
                  "bcall_arg('listen', 0, 1) is self._listener_f and self._listener_f.owner is self and "
                  "self._listener_d == self._listener_f._inbound_d and "
                  "result == event_arg('listen-deferred', 0, 0) and bcall_arg('addCallback', 0, 0) == result)"),
                 ("once-listening-it-fires-with-the-hints-and-the-port-is-closed-when-the-listener-is-done",
                  "implies(old(self._listener) is None and self._listener is not None, "
                  "run_callback(bcall_arg('addCallback', 0, 1), a_port()) == self._my_direct_hints and "
                  "bcall_names()[2:] == ['addBoth'] and bcall_arg('addBoth', 0, 0) == self._listener_d and "
                  "run_callback(bcall_arg('addBoth', 0, 1), probe()) == probe() and bcall_names()[3:] == ['stopListening'])")],
             note="the Deferred returned carries the stored direct hints - either defer.succeed(self._my_direct_hints) or the "
                  "listen() Deferred whose only callback returns self._my_direct_hints (both stated above on the trace): this is the "
                  "deferred-result contract get_connection_hints uses at its yield.  _build_listener by contract; "
                  "InboundConnectionFactory.__init__ inlined"),
    Contract(T + "Common.get_connection_hints", props=[PROP, "C20"], params={},
             self_fields={"_no_listen": "bool", "_tor": "opt[obj[Tor]]", "_reactor": "obj[Reactor]",
                          "_listener": "opt[obj[ServerEndpoint]]", "_my_direct_hints": f"seq[{DH}]",
                          "_listener_d": f"opt[{DEFERRED}]", "_listener_f": "opt[obj[InboundConnectionFactory]]",
                          "_transit_relays": "seq[nt[RelayV1Hint]]"},
             requires=[LISTEN_INV],
             modifies=["_listener", "_my_direct_hints", "_listener_d", "_listener_f"], returns="seq[json]",
             ensures=[("one-dict-per-direct-hint-then-one-per-relay",
                       "len(result) == len(self._my_direct_hints) + len(self._transit_relays)"),
                      ("no-direct-hints-unless-listening",
                       "implies(self._no_listen or self._tor is not None, len(result) == len(self._transit_relays))"),
                      ("published-direct-hints-are-wellformed-and-faithful",
                       "forall(lambda j: implies(0 <= j and j < len(self._my_direct_hints), "
                       "wellformed_tcp(result[j]) and hint_matches(self._my_direct_hints[j], result[j])), 'int')")],
             internal_ensures=[("direct-hints-asked-once", "n_calls('_get_direct_hints') == 1 and n_events('yield') == 1")],
             loops={1: {"header": "for relay in self._transit_relays", "retype": {"hints": "seq[json]"},
                        "invariant": ["len(hints) == len(at_entry(hints)) + _i", "prefix_of(at_entry(hints), hints)",
                                      "forall(lambda j: implies(0 <= j and j < len(at_entry(hints)), hints[j] == at_entry(hints)[j]), 'int')"]}},
             note="@inlineCallbacks: the Deferred of _get_direct_hints (by contract) fires with self._my_direct_hints (its "
                  "deferred-result contract, see _get_direct_hints).  wellformed_tcp / hint_matches are C20's own predicates: the "
                  "dict is what parse_tcp_v1_hint accepts, and the hint object carries exactly the dict's fields.  relay_dict_of(d, r): "
                  "d == {'type': 'relay-v1', 'hints': [one direct-tcp-v1 dict per sub-hint of r, same hostname/port/priority, same "
                  "order]}.  The two append loops (direct hints, sub-hints) are read as the comprehensions they spell out"),
    Contract("lemma:published_direct_hint_parses_back", props=[PROP, "C20"], source_module="wormhole/_hints.py",
             params={"d": "json", "h": DH},
             source_text="""
             def published_direct_hint_parses_back(d, h):
                 return parse_hint(d)
             """,
             requires=["wellformed_tcp(d)", "hint_matches(h, d)", "own_direct_ok([h])"],
             ensures=[("parse-of-a-published-dict-is-the-hint-object", "result == h")],
             note="encode/parse round trip for the direct hints of get_connection_hints: its postcondition gives wellformed_tcp and "
                  "hint_matches for every published dict; parse_hint by its C20 contract (imported, not restated)"),
]


HELPERS = [c for c in c06.CONTRACTS if c.target in (T + "Connection.dataReceivedRECORDS", T + "Connection._negotiationSuccessful")]


def regf(exclude=()):
    reg = make_transit_registry(HELPERS + CONTRACTS, exclude)
    reg.class_fields["Connection"] = {}
    sf = reg.spec_funcs

    def call_later(it, recv, meth, args, kwargs, fr):
        it.ctx.event("bcall", "Reactor", meth, list(args), dict(kwargs))
        t = it.fresh("opaque[DelayedCall]", "timer")
        it.ctx.event("new-timer", t)
        return t

    def timer_call(it, recv, meth, args, kwargs, fr):
        """a method of the DelayedCall: recorded with the receiver as argument 0; active() answers either way"""
        it.ctx.event("bcall", "DelayedCall", meth, [recv] + list(args), dict(kwargs))
        if meth == "active":
            b = it.fresh("bool", "timer_active")
            it.ctx.event("active-result", b)
            return b
        return NONE

    reg.boundary["Reactor.callLater"] = call_later
    reg.boundary["DelayedCall.*"] = timer_call

    def run_callback(it, f, x):
        """the callback registered on a Deferred, run as the real code it is (Twisted calls it with the result)"""
        save, it.spec_mode = it.spec_mode, 0
        try:
            return it.call(it.force(f), [x], {}, None)
        finally:
            it.spec_mode = save

    sf["run_callback"] = run_callback
    _c20.install_hint_support(reg)
    for c in _c20.CONTRACTS:
        if c.target.endswith((":endpoint_from_hint_obj", ":describe_hint_obj", ":parse_hint", ":parse_tcp_v1_hint")):
            reg.contracts[c.target] = c          # proved in C20, used here
    sf["a_protocol"] = lambda it: VObj("ProtocolB")       # what the endpoint's Deferred fires with (a collaborator here)

    def start_negotiation_b(it, recv, meth, args, kwargs, fr):
        it.ctx.event("bcall", "ProtocolB", meth, list(args), dict(kwargs))
        d = it.fresh(DEFERRED, "negotiation_d")
        it.ctx.event("negotiation-deferred", d)
        return d

    reg.boundary["ProtocolB.startNegotiation"] = start_negotiation_b
    sf["prefix_of"] = lambda it, a, b: VBool(z3.PrefixOf(a.z if isinstance(a, VSeq) else to_z3(a, T("seq", [b.elem])), b.z))

    def set_buckets_valid(it, m):
        k = z3.Const("k!sbv", sort_of(m.kt))
        x = z3.Const("x!sbv", sort_of(m.vt.args[0]))
        return VBool(z3.ForAll([k, x], z3.Implies(z3.And(z3.Select(m.present, k), z3.Select(z3.Select(m.val, k), x)),
                                                  _c20._valid_tcp(from_z3(x, m.vt.args[0])))))

    sf["set_buckets_valid"] = set_buckets_valid

    def iter_bcall_kwarg(it, name, k, kw):
        tr = it.ctx.trace
        start = max([i for i, e in enumerate(tr) if e[0] == "loop-body-start"] + [-1])
        evs = [e for e in tr[start + 1:] if e[0] == "bcall" and e[1][1] == it.concrete(name)]
        k = it.concrete(k)
        return evs[k][1][3].get(it.concrete(kw), NONE) if k < len(evs) else NONE

    sf["iter_bcall_kwarg"] = iter_bcall_kwarg
    em = reg.ext_models
    em["time.time"] = lambda it, args, kw: it.fresh("real", "now")

    def succeed(it, args, kw):
        """defer.succeed(x): a new, already fired Deferred; what it carries is remembered by the event"""
        d = it.fresh(DEFERRED, "succeeded")
        x = args[0]
        xf = it.force(x)
        it.ctx.event("succeed", d, x, "key" if isinstance(xf, VStr) and xf.kind == "bytes" else "hints")
        return d

    em["twisted.internet.defer.succeed"] = succeed
    install_listener_models(reg)
    sf["probe"] = lambda it: VOpaque(z3.Const("probe!result", opaque_sort("Any")), "Any")
    reg.spec_funcs["exc_class"] = lambda it, x: VStr(it.force(x).cls if isinstance(it.force(x), VObj) else "?")
    sf["diverges"] = lambda it, a, b: VBool(z3.And(z3.Not(z3.PrefixOf(a.z, b.z)), z3.Not(z3.PrefixOf(b.z, a.z))))
    return reg


def _own_direct(seq, extra=None):
    """z3 Bool: every element of a sequence of DirectTCPV1Hint is what this side may publish: str hostname, int port in
    1..65535, priority 0.0 (a float)"""
    def one(v):
        host, port, prio = [to_json(x) for x in v.items]
        c = [J.is_jstr(host), J.is_jint(port), J.i(port) > 0, J.i(port) < 65536, prio == J.jreal(z3.RealVal(0))]
        if extra is not None:
            c.append(extra(host, port, prio))
        return z3.And(c)
    if isinstance(seq, (VList, VTuple)):
        return z3.And([one(x) for x in seq.items] + [z3.BoolVal(True)])
    i = z3.Int("i!od")
    return z3.ForAll([i], z3.Implies(z3.And(0 <= i, i < z3.Length(seq.z)), one(from_z3(seq.z[i], seq.elem))))


def install_listener_models(reg):
    """the operating-system side of listening (all trusted, see TRUSTED): a free TCP port, this host's addresses, Twisted's
    server endpoint and its listen()"""
    sf = reg.spec_funcs

    def allocate_tcp_port(it, args, kw, fr):
        p = it.fresh("int", "port")
        it.ctx.assume(z3.And(p.z > 0, p.z < 65536))
        it.ctx.event("allocated-port", p)
        return p

    def find_addresses(it, args, kw, fr):
        a = it.fresh("seq[str]", "addresses")
        it.ctx.event("addresses", a)
        return a

    def server_from_string(it, args, kw):
        ep = VObj("ServerEndpoint", {})
        it.ctx.event("server-endpoint", args[0], args[1], ep)
        return ep

    def listen(it, recv, meth, args, kwargs, fr):
        it.ctx.event("bcall", "ServerEndpoint", meth, [recv] + list(args), dict(kwargs))
        d = it.fresh(DEFERRED, "listen_d")
        it.ctx.event("listen-deferred", d)
        return d

    reg.func_models[T + "allocate_tcp_port"] = allocate_tcp_port
    reg.func_models["wormhole/ipaddrs.py:find_addresses"] = find_addresses
    reg.ext_models["twisted.internet.endpoints.serverFromString"] = server_from_string
    reg.boundary["ServerEndpoint.listen"] = listen
    reg.class_fields.setdefault("ServerEndpoint", {})
    sf["a_port"] = lambda it: VObj("ListeningPort")
    sf["own_direct_ok"] = lambda it, s: VBool(_own_direct(it.force(s)))
    sf["all_on_port"] = lambda it, s, p: VBool(_own_direct(it.force(s), lambda host, port, prio: J.i(port) == it.force(p).z))


def _self_frame(fr):
    f = fr
    while f is not None and f.selfobj is None:
        f = f.parent
    return f


def transit_yield_model(it, node, fr):
    """`yield d` inside an @inlineCallbacks method of Common (Deferreds are opaque values here, identified by the event that
    created them).  defer.succeed(x): already fired, the generator goes on at once with x, nothing else runs in between.
    A Deferred made by defer.Deferred(): only the key waiters have a deferred-result contract - it must be in
    _waiting_for_transit_key (proved), set_transit_key() then stores the key and calls d.callback(key), which resumes the
    generator synchronously: self._transit_key is the value sent, and callers pass a non-empty key.  The Deferred returned by
    Common._connect (by contract): fires with a Connection (the winner of the race) or fails.  At every real suspension all
    fields of self that are not stored by __init__ only are havocked and the class invariant is assumed again."""
    from . import deferred as _d
    v = it.force(it.eval(node.value, fr)) if node.value is not None else NONE
    if not (isinstance(v, VOpaque) and v.name == "Deferred"):
        return v
    tr = list(it.ctx.trace)

    def same(x):
        x = it.force(x) if x is not None else None
        return isinstance(x, VOpaque) and x.z.eq(v.z)

    sfr = _self_frame(fr)

    def suspend():
        _d.havoc_unstable(it, fr)
        it.ctx.assume(it.truth(it.eval_spec(CLASS_INV, sfr)))

    for e in tr:
        if e[0] == "succeed" and same(e[1][0]):
            it.ctx.event("yield", "key" if e[1][2] == "key" else e[1][2])
            return e[1][1]
    for e in tr:
        if e[0] == "callret" and e[1][0].endswith("Common._connect") and same(e[1][1]):
            it.ctx.event("yield", "race")
            suspend()
            if it.ctx.choose([z3.BoolVal(True), z3.BoolVal(True)], "race-outcome") == 1:
                it.ctx.event("failed", v)
                it.raise_("RaceFailure")
            w = it.fresh("obj[Connection]", "winner")
            it.ctx.event("fired", v, w)
            return w
    for e in tr:
        if e[0] == "callret" and e[1][0].endswith("Common._get_direct_hints") and same(e[1][1]):
            # deferred-result contract of _get_direct_hints (its clauses already-fired-when-nothing-to-start /
            # once-listening-it-fires-with-the-hints..): the value is self._my_direct_hints as stored when it fires
            it.ctx.event("yield", "direct-hints")
            _d.havoc_unstable(it, fr)
            it.ctx.assume(it.truth(it.eval_spec(LISTEN_INV, sfr)))
            it.ctx.assume(it.truth(it.eval_spec(
                "own_direct_ok(self._my_direct_hints) and "
                "implies(self._no_listen or self._tor is not None, len(self._my_direct_hints) == 0)", sfr)))
            return sfr.selfobj.fields["_my_direct_hints"]
    for e in tr:
        if e[0] == "new-deferred" and same(e[1][0]):
            waiting = it.force(sfr.selfobj.fields["_waiting_for_transit_key"])
            it.ctx.prove(z3.Contains(waiting.z, z3.Unit(v.z)), "connect.yielded-deferred-is-a-registered-key-waiter",
                         {"kind": "yield", "src": "the Deferred awaited for the key is in self._waiting_for_transit_key "
                                                  "(set_transit_key fires exactly those)"})
            it.ctx.event("yield", "key")
            suspend()
            k = it.fresh("bytes", "key_sent")
            it.ctx.assume(z3.Length(k.z) > 0)
            it.ctx.assume(it.force(sfr.selfobj.fields["_transit_key"]).z == k.z)
            it.ctx.event("resumed-by-set_transit_key", v, k)
            return k
    raise OutOfSubset("yield of a Deferred without deferred-result contract")


def regf_connect():
    reg = regf()
    reg.allow_generators = True
    reg.yield_model = transit_yield_model
    reg.stable_fields = {"Common": set(STABLE_COMMON)}
    reg.exc_bases.setdefault("RaceFailure", "Exception")

    def suspension_order(it):
        out = []
        for e in it.ctx.trace:
            if e[0] == "yield":
                out.append(VStr(e[1][0]))
            elif e[0] == "call" and e[1][0].endswith("Common._connect"):
                out.append(VStr("call:_connect"))
        return VList(out)

    reg.spec_funcs["suspension_order"] = suspension_order
    reg.spec_funcs["relay_dict_of"] = relay_dict_of
    return reg


def relay_dict_of(it, d, r):
    """d == {"type": "relay-v1", "hints": [{"type": "direct-tcp-v1", "priority": h.priority, "hostname": h.hostname,
    "port": h.port} for h in r.hints]} (stated field by field; the sub-dicts in the order of r.hints)"""
    dz = to_json(it.force(d))
    r = it.force(r)
    subs = it.force(r.items[0])

    def fld(x, name):
        return OJ.v(z3.Select(J.d(x), z3.StringVal(name)))

    def has(x, name):
        return OJ.is_present(z3.Select(J.d(x), z3.StringVal(name)))

    lst = fld(dz, "hints")
    m = z3.Int("m!rd")
    sub = J.l(lst)[m]
    h = from_z3(subs.z[m], subs.elem)

    def fields_eq(v):
        host, port, prio = [to_json(x) for x in v.items]
        return z3.And(fld(sub, "hostname") == host, fld(sub, "port") == port, fld(sub, "priority") == prio)

    per = z3.Or([z3.And(c, fields_eq(x)) for c, x in h.alts]) if isinstance(h, VUnion) else fields_eq(h)
    return VBool(z3.And(
        J.is_jdict(dz), has(dz, "type"), fld(dz, "type") == J.jstr(z3.StringVal("relay-v1")), has(dz, "hints"), J.is_jlist(lst),
        z3.Length(J.l(lst)) == z3.Length(subs.z),
        z3.ForAll([m], z3.Implies(z3.And(0 <= m, m < z3.Length(subs.z)), z3.And(
            J.is_jdict(sub), has(sub, "type"), fld(sub, "type") == J.jstr(z3.StringVal("direct-tcp-v1")),
            has(sub, "hostname"), has(sub, "port"), has(sub, "priority"), per)))))


def regf_opaque_hs():
    """for the state machine the handshake texts are just two byte strings determined by the key"""
    reg = regf()
    reg.hs_opaque = True
    return reg


def regf_inline_sm():
    """startNegotiation cycles the real state machine once: dataReceived/_dataReceived are executed, not summarised"""
    return regf(exclude=(T + "Connection._dataReceived",))


for _c in CONTRACTS:
    if _c.target in (T + "Common._connect", T + "Common.get_connection_hints"):
        _c.qf_feasibility = True      # quantified invariants: branch pruning without them (keeps more paths, never fewer)


def regf_inbound():
    """a Connection handed to the inbound factory carries the fields startNegotiation's contract talks about"""
    reg = regf()
    reg.class_fields["Connection"] = dict(NEG_START_FIELDS)
    reg.class_fields["Common"] = {"is_sender": "bool", "_transit_key": "bytes"}
    return reg


def tasks():
    special = {T + "InboundConnectionFactory.connectionWasMade": regf_inbound, T + "Connection._dataReceived": regf_opaque_hs, T + "Connection.startNegotiation": regf_inline_sm,
               T + "there_can_be_only_one": lambda: regf(exclude=(T + "_ThereCanBeOnlyOne.__init__",)),
               T + "Common.connect": regf_connect, T + "Common.get_connection_hints": regf_connect}
    return [ContractTask(c, special.get(c.target, regf)) for c in CONTRACTS]


TRUSTED = TRUSTED_LIB + ["the hint / endpoint / sorted() / task.deferLater / endpoint.connect models of props/c20.py (listed under C20's "
                         "TRUSTED), used by Common._connect and _start_connector; time.time() returns a real; DelayedCall.active() "
                         "answers either way, DelayedCall.cancel() is a recorded event",
                         "listening (install_listener_models): allocate_tcp_port() returns an int in 1..65535 (the OS's answer to bind(0)); "
                         "ipaddrs.find_addresses() returns some list of str; endpoints.serverFromString(reactor, description) returns an "
                         "endpoint object; its listen(factory) returns a new Deferred and calls nothing back synchronously; "
                         "defer.succeed(x) is a new, already fired Deferred carrying x"]
ASSUMPTIONS = [
    "HKDF idealisation (injective in the key for a fixed info) and unhexlify(hexlify(x)) == x: used by "
    "lemma:handshakes_bind_key_and_role and lemma:other_key_is_rejected only; that a party without the transit key cannot "
    "compute the handshake is the PRF assumption itself",
    "in the _dataReceived task sender_hs(key)/receiver_hs(key) are uninterpreted functions of the key (their defining protocol "
    "text is proved of build_sender_handshake/build_receiver_handshake and used by the lemmas): fewer hypotheses, same symbols",
    "class invariant taken as precondition of _dataReceived: while negotiating (relay/start/handshake/wait-for-decision/go) "
    "_negotiation_d is not None; Twisted delivers no dataReceived after connectionLost",
    "Deferred.cancel/callback/errback, reactor.callLater, TimeoutMixin.setTimeout are boundary events: that a cancelled contender's "
    "errback re-enters _remove/_failed/_maybe_done synchronously, that the timer really fires, and that connect() therefore fails "
    "*by* its deadline are properties of Twisted, not decided here",
    "'exactly one go per Common' is connection_ready's contract (go iff _winner was None, and then _winner is set and never "
    "cleared); that two Connections never interleave inside connection_ready is the single-threaded reactor",
    "aliasing: the Connection passed to connection_ready is not already the recorded winner (it would get 'nevermind')",
    "Common._connect: hints in _their_direct_hints / _our_relay_hints passed add_connection_hints (C20's postcondition, taken "
    "as precondition), a transit key is set (connect() yields _get_transit_key() first) and _side is the 16-hex-digit string of "
    "__init__; 'every attempt contends' is stated per iteration (the attempt's Deferred is appended to the contender list) plus "
    "'the list only grows' plus 'the list is what there_can_be_only_one gets': the induction over iterations is not spelled out "
    "as one quantified clause.  endpoint_from_hint_obj / describe_hint_obj are used by their C20 contracts",
    "Common._start_connector: the protocol an endpoint's Deferred fires with is a collaborator object there (its "
    "startNegotiation is a recorded call whose result the callback must return); OutboundConnectionFactory.buildProtocol is "
    "not under contract",
    "the callbacks registered on Deferreds (_not_forever's _done, _start_connector's lambda) are run as real code on a probe "
    "value by the clause that describes them; that Twisted calls them with the Deferred's result is the Deferred contract",
    "Common.connect / get_connection_hints (@inlineCallbacks, transit_yield_model): a generator is resumed once per fired Deferred with "
    "its result or the failure is raised at the yield; defer.succeed(x) resumes at once with x; at a real suspension every field "
    "of self except is_sender/_side/_tor/_reactor/_no_listen/_transit_relays (stored by __init__ only; not checked syntactically "
    "here) is havocked and the class invariant is assumed again: CLASS_INV (peer hints parsed - C20's add_connection_hints keeps "
    "it; __init__ is not under contract) resp. LISTEN_INV + own_direct_ok(_my_direct_hints) (postconditions of _get_direct_hints)",
    "deferred-result contracts: a key waiter (must be in _waiting_for_transit_key: proved) is fired by set_transit_key with the key it "
    "just stored, and that key is non-empty (callers pass derive_key(.., SecretBox.KEY_SIZE); set_transit_key itself is not under "
    "contract); the Deferred of _connect fires with some Connection (the race's winner) or fails (exception class RaceFailure "
    "stands for whatever the first failure was); the Deferred of _get_direct_hints fires with self._my_direct_hints (justified "
    "by _get_direct_hints' clauses already-fired-when-nothing-to-start / once-listening-it-fires-with-the-hints..)",
    "Common.connect: `with self._timing.add(..)` is dropped syntax (DebugTiming's context manager does not swallow exceptions); "
    "this version of connect() sets no description - the winner describes itself (Connection.describe)",
    "_transit_key is typed bytes, b'' standing for the initial None (both falsy), as in the older contracts",
    "get_connection_hints: the two append loops (one dict per direct hint, one per relay sub-hint) are read as the comprehension they "
    "spell out (interp.desugar_simple_for / comp_pure); the relay part (relay_dict_of: each relay dict reproduces the configured "
    "sub-hints unchanged and in order) is written (spec function relay_dict_of) but NOT registered: the clause and the matching "
    "loop invariant stayed undecided (z3+cvc5 unknown) in the time available; registered for the relay part is only the count",
    "not under contract: Common.set_transit_key, Common._get_transit_key as a function of its own (inlined in connect), "
    "Common._stop_listening (test helper), InboundConnectionFactory._proto_failed, Connection.__init__ as a function of its own "
    "(inlined in buildProtocol); this version has no Common._get_relay_hints / _start_listener (the listener is started inside "
    "_get_direct_hints)",
]
