"""C07 - Transit picks exactly one connection, chosen by the sender, key holders only."""
from pyvc.contract import Contract
from pyvc.runner import ContractTask
from pyvc.values import *   # noqa
from .transit_lib import make_transit_registry, BodyLemma, T_PY, TRUSTED_LIB, DEFERRED

PROP = "C07"
T = T_PY + ":"

CONTRACTS = [
    Contract(T + "Connection._check_and_remove", props=[PROP], params={"expected": "bytes"},
             self_fields={"buf": "bytes"}, modifies=["buf"], returns="bool",
             raises_exactly={"BadHandshake": "not self.buf.startswith(expected) and not expected.startswith(self.buf)"},
             ensures=[("true-consumes-exactly-expected", "implies(result, old(self.buf) == expected + self.buf)"),
                      ("false-keeps-buffer-proper-prefix",
                       "implies(not result, self.buf == old(self.buf) and len(self.buf) < len(expected) and "
                       "expected.startswith(self.buf))")],
             note="True only after the whole expected handshake, byte for byte, was at the front of the buffer (and only it is "
                  "removed); False only while the buffer is a proper prefix of it; any divergence raises BadHandshake"),
    Contract(T + "Common.connection_ready", props=[PROP], params={"p": "obj[Connection]"},
             self_fields={"is_sender": "bool", "_winner": "opt[obj[Connection]]"}, modifies=["_winner"], returns="str",
             ensures=[("receiver-waits-for-sender", "implies(not self.is_sender, result == 'wait-for-decision')"),
                      ("go-iff-no-winner-yet", "implies(self.is_sender, (result == 'go') == (old(self._winner) is None))"),
                      ("else-nevermind", "implies(self.is_sender and old(self._winner) is not None, result == 'nevermind')")],
             internal_ensures=[("go-records-the-winner", "implies(result == 'go', self._winner is p)"),
                               ("never-a-second-go", "implies(result != 'go', self._winner is old(self._winner))"),
                               ("winner-never-cleared", "implies(old(self._winner) is not None, self._winner is not None)")],
             note="at most one 'go' per Common: 'go' is returned only when _winner was None and sets it; a set _winner is "
                  "never cleared or replaced, so every later call returns 'nevermind'"),
    Contract(T + "build_sender_handshake", props=[PROP], params={"key": "bytes"}, returns="bytes",
             ensures=[("protocol-text", "result == b'transit sender ' + hexl(hkdf(key, 32, b'transit_sender')) + b' ready\\n\\n'")],
             note="sender_hs(key) in the other contracts is this text"),
    Contract(T + "build_receiver_handshake", props=[PROP], params={"key": "bytes"}, returns="bytes",
             ensures=[("protocol-text", "result == b'transit receiver ' + hexl(hkdf(key, 32, b'transit_receiver')) + b' ready\\n\\n'")]),
    Contract(T + "Common._send_this", props=[PROP], params={}, self_fields={"is_sender": "bool", "_transit_key": "bytes"},
             returns="bytes", raises_exactly={"AssertionError": "len(self._transit_key) == 0"},
             ensures=[("own-role-handshake", "result == ite(self.is_sender, sender_hs(self._transit_key), receiver_hs(self._transit_key))")]),
    Contract(T + "Common._expect_this", props=[PROP], params={}, self_fields={"is_sender": "bool", "_transit_key": "bytes"},
             returns="bytes", raises_exactly={"AssertionError": "len(self._transit_key) == 0"},
             ensures=[("opposite-role-handshake", "result == ite(self.is_sender, receiver_hs(self._transit_key), sender_hs(self._transit_key))")]),
]


def regf(exclude=()):
    reg = make_transit_registry(CONTRACTS, exclude)
    return reg


def tasks():
    return [ContractTask(c, regf) for c in CONTRACTS]


TRUSTED = TRUSTED_LIB
ASSUMPTIONS = []
